"""Bounded stand-in for C13: TOTP.generate against a plain RFC 4226 / RFC 6238 reference (stdlib hmac, hashlib,
struct), the RFC appendix vectors, every form of time stamp and every textual form of the key.

Never calls generate() without an explicit time (no dependence on the wall clock).
"""
import base64
import datetime as dt
import hashlib
import hmac
import math
import struct
import time as _time

from common import Group, main, outcome


class G(Group):
    def __init__(self, *a):
        super().__init__(*a)
        self.elapsed = None

    def done(self):
        self.elapsed = round(_time.time() - self.t0, 2)
        return self

    def out(self):
        d = super().out()
        if self.elapsed is not None:
            d["seconds"] = self.elapsed
        return d


# ---------------------------------------------------------------------------------------------------
# reference (RFC 4226 section 5.3, RFC 6238 section 4.2)
# ---------------------------------------------------------------------------------------------------
def hotp(key, counter, digits, alg):
    mac = hmac.new(key, struct.pack(">Q", counter), getattr(hashlib, alg)).digest()
    off = mac[-1] & 0x0F
    code = struct.unpack(">I", mac[off : off + 4])[0] & 0x7FFFFFFF
    return str(code % 10**digits).zfill(digits)


def totp(key, t, digits, alg, period):
    return hotp(key, t // period, digits, alg)


RFC4226_KEY = b"12345678901234567890"
RFC4226_D = ["755224", "287082", "359152", "969429", "338314", "254676", "287922", "162583", "399871", "520489"]
RFC6238_KEYS = {"sha1": b"12345678901234567890", "sha256": b"12345678901234567890123456789012", "sha512": b"1234567890123456789012345678901234567890123456789012345678901234"}
RFC6238_B = [
    (59, "94287082", "46119246", "90693936"),
    (1111111109, "07081804", "68084774", "25091201"),
    (1111111111, "14050471", "67062674", "99943326"),
    (1234567890, "89005924", "91819424", "93441116"),
    (2000000000, "69279037", "90698825", "38618901"),
    (20000000000, "65353130", "77737706", "47863826"),
]
ALGS = ("sha1", "sha256", "sha512")
EPOCH = dt.datetime(1970, 1, 1, tzinfo=dt.timezone.utc)
DT_MAX = 253402300799  # 9999-12-31T23:59:59Z


def dt_seconds(d):
    """whole seconds since the epoch of a datetime, integer arithmetic only; naive datetimes denote UTC"""
    if d.tzinfo is None:
        d = d.replace(tzinfo=dt.timezone.utc)
    delta = d - EPOCH
    return delta.days * 86400 + delta.seconds


def build(tier, rng):
    quick = tier == "quick"
    from passlib.totp import TOTP

    groups = []
    skipped = []
    stats = {"leading_zero_tokens": 0, "ten_digit_tokens": 0}

    # harness sanity: the reference reproduces both RFCs
    for c, want in enumerate(RFC4226_D):
        assert hotp(RFC4226_KEY, c, 6, "sha1") == want
    for t, *wants in RFC6238_B:
        for alg, want in zip(ALGS, wants):
            assert totp(RFC6238_KEYS[alg], t, 8, alg, 30) == want

    def check_token(g, obj, key, alg, digits, period, t_arg, t_int, pfx, extra=None):
        """one generate() call against the reference"""
        w = {"key": key.hex(), "alg": alg, "digits": digits, "period": period, "time": repr(t_arg)}
        if extra:
            w.update(extra)
        o = outcome(obj.generate, t_arg)
        if o[0] != "ok":
            g.fail(f"{pfx}:raised", "generate() raised for an admissible time", dict(w, outcome=repr(o)))
            return None
        tok = o[1]
        want = totp(key, t_int, digits, alg, period)
        c = t_int // period
        g.check(tok.token == want, f"{pfx}:token", "token is not the RFC 4226 truncated-HMAC value for counter floor(time/period)", dict(w, got=tok.token, want=want))
        g.check(isinstance(tok.token, str) and len(tok.token) == digits and tok.token.isascii() and tok.token.isdigit(), f"{pfx}:shape", "token is not a zero-padded decimal string of exactly <digits> digits", dict(w, got=repr(tok.token)))
        g.check(tok.counter == c and tok.start_time == c * period and tok.expire_time == (c + 1) * period and tok.start_time <= t_int < tok.expire_time, f"{pfx}:interval", "counter / start_time / expire_time are not the period containing the time", dict(w, counter=tok.counter, start=tok.start_time, expire=tok.expire_time))
        g.check(tuple(tok) == (want, (c + 1) * period), f"{pfx}:tuple", "TotpToken as a sequence is not (token, expire_time)", dict(w, got=repr(tuple(tok))))
        if want[0] == "0":
            stats["leading_zero_tokens"] += 1
        if digits == 10:
            stats["ten_digit_tokens"] += 1
        return tok

    # ---- RFC vectors --------------------------------------------------------------------------------
    g = G("rfc-vectors", "TOTP.generate", "RFC 6238 appendix B (6 times x 3 algorithms, 8 digits, period 30), times as int / float / naive and aware datetime; RFC 4226 appendix D (10 counters, 6 digits) through period 1")
    for t, *wants in RFC6238_B:
        for alg, want in zip(ALGS, wants):
            key = RFC6238_KEYS[alg]
            obj = TOTP(key=key, format="raw", alg=alg, digits=8, period=30)
            forms = [t, float(t), t + 0.5, dt.datetime.fromtimestamp(t, dt.timezone.utc).replace(tzinfo=None), dt.datetime.fromtimestamp(t, dt.timezone.utc), dt.datetime.fromtimestamp(t, dt.timezone(dt.timedelta(hours=-7, minutes=-30)))]
            for f in forms:
                g.case((alg, repr(f)))
                o = outcome(lambda f=f: obj.generate(f).token)
                g.check(o == ("ok", want), "rfc6238:appendix-b", "token differs from the RFC 6238 appendix B vector", {"alg": alg, "time": repr(f), "outcome": repr(o), "want": want})
            b32 = base64.b32encode(key).decode().rstrip("=")
            o = outcome(lambda: TOTP(b32, alg=alg, digits=8).generate(t).token)
            g.check(o == ("ok", want), "rfc6238:appendix-b:base32", "token from the base32 key differs from the RFC vector", {"alg": alg, "time": t, "outcome": repr(o)})
    obj = TOTP(key=RFC4226_KEY, format="raw", period=1)
    for c, want in enumerate(RFC4226_D):
        g.case(("rfc4226", c))
        o = outcome(lambda c=c: obj.generate(c).token)
        g.check(o == ("ok", want), "rfc4226:appendix-d", "token differs from the RFC 4226 appendix D vector", {"counter": c, "outcome": repr(o), "want": want})
    o = outcome(lambda: (TOTP.digits, TOTP.alg, TOTP.period))
    g.check(o == ("ok", (6, "sha1", 30)), "defaults", "class defaults are not 6 digits / sha1 / 30 s", {"outcome": repr(o)})
    groups.append(g.done())

    # ---- the grid -----------------------------------------------------------------------------------
    n_times = 8 if quick else 100
    g = G("generate-grid", "TOTP.generate/_generate", f"key sizes 1..64 (random key each) x sha1/sha256/sha512 x digits 6..10 x periods 1,30,60,3600 + 2 random in 1..3600 x times: 0, period-1, period, 2^31 and 2^40 neighbourhood, {n_times} random k: k*period-1, k*period, k*period+1 and random offsets, up to 2^40")
    for size in range(1, 65):
        key = rng.randbytes(size)
        for alg in ALGS:
            for digits in range(6, 11):
                periods = [1, 30, 60, 3600, rng.randrange(1, 3601), rng.randrange(2, 3601)]
                for period in periods:
                    o = outcome(TOTP, key=key, format="raw", alg=alg, digits=digits, period=period)
                    if o[0] != "ok":
                        g.fail("grid:ctor", "constructor refused an admissible configuration", {"key": key.hex(), "alg": alg, "digits": digits, "period": period, "outcome": repr(o)})
                        continue
                    obj = o[1]
                    g.check(obj.key == key and obj.alg == alg and obj.digits == digits and obj.period == period, "grid:attrs", "constructed object does not carry the requested configuration", {"key": key.hex(), "alg": alg, "digits": digits, "period": period})
                    times = {0, period - 1, period, period + 1, 2**40, 2**40 - 1, (2**40 // period) * period, (2**40 // period) * period - 1}
                    if size % 8 == 0:
                        times |= {2**31 - 1, 2**31, 2**32 - 1, 2**32, (2**32 // period) * period - 1}
                    for _ in range(n_times):
                        k = rng.randrange(1, 2**40 // period)
                        if rng.random() < 0.3:
                            k = rng.randrange(1, 1 + 2 ** rng.randrange(1, 36) // period + 1)
                        times |= {k * period - 1, k * period, k * period + 1, k * period + rng.randrange(period)}
                    for t in times:
                        if 0 <= t <= 2**40:
                            g.case((size, alg, digits, period, t))
                            check_token(g, obj, key, alg, digits, period, t, t, "grid")
    groups.append(g.done())

    # ---- forms of the time stamp --------------------------------------------------------------------
    g = G("time-forms", "TOTP.normalize_time/generate", "int, float (fractions .0 .25 .5 .999 and the float just below t+1), naive datetime (=UTC), aware datetime over offsets -12:00..+14:00 incl. :30/:45 and odd-second offsets, with microseconds; times over 0..2^40 (datetime: ..9999-12-31) incl. period boundaries; negative int refused, str refused")
    tzs = [dt.timezone.utc] + [dt.timezone(dt.timedelta(minutes=m)) for m in (-720, -570, -300, -1, 1, 60, 330, 345, 765, 840)] + [dt.timezone(dt.timedelta(seconds=s)) for s in (-86399, 86399, 1, -1, 3601)]
    cfgs = []
    for _ in range(60 if quick else 400):
        alg = rng.choice(ALGS)
        cfgs.append((rng.randbytes(rng.randrange(1, 65)), alg, rng.randrange(6, 11), rng.choice([1, 30, 60, 3600, rng.randrange(1, 3601)])))
    for key, alg, digits, period in cfgs:
        obj = TOTP(key=key, format="raw", alg=alg, digits=digits, period=period)
        base = [0, 1, period - 1, period, 86399, 86400, 2**31 - 1, 2**31, DT_MAX, DT_MAX - 1, (DT_MAX // period) * period, (DT_MAX // period) * period - 1]
        for _ in range(8 if quick else 30):
            k = rng.randrange(1, DT_MAX // period)
            base += [k * period - 1, k * period, k * period + 1]
        base += [rng.randrange(0, 2 ** rng.randrange(1, 38)) for _ in range(8 if quick else 30)]
        for t in base:
            if not 0 <= t <= DT_MAX:
                continue
            # floats
            for f in (float(t), t + 0.25, t + 0.5, t + 0.999, math.nextafter(float(t + 1), 0.0)):
                assert math.floor(f) == t
                g.case((key, period, "float", f))
                check_token(g, obj, key, alg, digits, period, f, t, "time:float")
            # datetimes
            us = rng.choice([0, 1, 500000, 999999])
            naive = (EPOCH + dt.timedelta(seconds=t, microseconds=us)).replace(tzinfo=None)
            assert dt_seconds(naive) == t
            g.case((key, period, "naive", t, us))
            check_token(g, obj, key, alg, digits, period, naive, t, "time:naive-datetime")
            for tz in (tzs if t % 3 == 0 else [rng.choice(tzs)]):
                try:
                    aware = (EPOCH + dt.timedelta(seconds=t, microseconds=us)).astimezone(tz)
                except OverflowError:
                    continue
                assert dt_seconds(aware) == t
                g.case((key, period, "aware", t, us, str(tz)))
                check_token(g, obj, key, alg, digits, period, aware, t, "time:aware-datetime", {"tz": str(tz)})
        # ints above the datetime range and float images up to 2^40
        for t in (DT_MAX + 1, 2**40 - 1, 2**40, rng.randrange(DT_MAX, 2**40)):
            for f in (t, float(t), t + 0.5):
                g.case((key, period, "big", f))
                check_token(g, obj, key, alg, digits, period, f, t, "time:big")
        for bad in (-1, -period, -(2**40)):
            g.case((key, period, "negative", bad))
            o = outcome(obj.generate, bad)
            g.check(o[0] == "exc" and o[1] == "ValueError", "time:negative", "negative time stamp not refused with ValueError", {"time": bad, "outcome": repr(o)})
        for bad in ("59", b"59", [59]):
            g.case((key, period, "type", repr(bad)))
            o = outcome(obj.generate, bad)
            g.check(o[0] == "exc" and o[1] == "TypeError", "time:type", "time of a wrong type not refused with TypeError", {"time": repr(bad), "outcome": repr(o)})
    groups.append(g.done())

    # ---- textual forms of the key ---------------------------------------------------------------------
    g = G("key-forms", "TOTP.__init__/_decode_bytes", "keys of 1..64 bytes x format raw / base32 / hex x str and ASCII bytes x upper / lower / mixed case x spaces, dashes, tabs, '=' padding, grouping by 1..8: same key bytes and same tokens; hex_key / base32_key / pretty_key decode back to the key; malformed key text refused")
    reps = 8 if quick else 60
    for size in range(1, 65):
        for _ in range(reps):
            key = rng.randbytes(size)
            alg, digits, period = rng.choice(ALGS), rng.randrange(6, 11), rng.choice([1, 30, 60, 3600, rng.randrange(1, 3601)])
            t = rng.randrange(0, 2**40)
            want = totp(key, t, digits, alg, period)
            b32 = base64.b32encode(key).decode()
            b32n = b32.rstrip("=")
            hx = key.hex()

            def deco(s):
                out = []
                n = rng.randrange(1, 9)
                sep = rng.choice([" ", "-", "  ", " - ", "\t", "\n"])
                for i in range(0, len(s), n):
                    out.append(s[i : i + n])
                s2 = sep.join(out)
                return rng.choice(["", " ", "-"]) + s2 + rng.choice(["", " ", "-", "\n"])

            def mixed(s):
                return "".join(c.upper() if rng.random() < 0.5 else c.lower() for c in s)

            forms = [
                ("raw", key, "raw"),
                ("base32", b32n, "base32"),
                ("base32", b32, "base32-padded"),
                ("base32", b32n.lower(), "base32-lower"),
                ("base32", mixed(b32n), "base32-mixed"),
                ("base32", deco(b32n), "base32-spaced"),
                ("base32", deco(b32n.lower()), "base32-lower-spaced"),
                ("base32", b32n.encode(), "base32-bytes"),
                ("base32", deco(mixed(b32n)).encode(), "base32-bytes-spaced"),
                ("hex", hx, "hex"),
                ("hex", hx.upper(), "hex-upper"),
                ("hex", mixed(hx), "hex-mixed"),
                ("hex", deco(hx), "hex-spaced"),
                ("hex", deco(hx.upper()), "hex-upper-spaced"),
                ("hex", hx.encode(), "hex-bytes"),
                ("base16", deco(mixed(hx)), "base16-alias"),
            ]
            for fmt, text, tag in forms:
                g.case((size, tag, text))
                o = outcome(TOTP, key=text, format=fmt, alg=alg, digits=digits, period=period)
                w = {"format": fmt, "text": repr(text), "key": key.hex()}
                if o[0] != "ok":
                    g.fail(f"key:{tag}:refused", "an admissible textual form of the key was refused", dict(w, outcome=repr(o)))
                    continue
                obj = o[1]
                g.check(obj.key == key, f"key:{tag}", "textual form of the key denotes other key bytes", dict(w, got=obj.key.hex()))
                tk = outcome(lambda: obj.generate(t).token)
                g.check(tk == ("ok", want), f"key:{tag}:token", "token under this form of the key differs from the reference", dict(w, time=t, alg=alg, digits=digits, period=period, outcome=repr(tk), want=want))
            # positional (key, format) and the default format
            o = outcome(lambda: (TOTP(b32n).key, TOTP(hx, "hex").key, TOTP(key, "raw").key))
            g.check(o == ("ok", (key, key, key)), "key:positional", "positional key/format arguments denote other key bytes", {"key": key.hex(), "outcome": repr(o)})
            # rendered keys
            obj = TOTP(key=key, format="raw")
            o = outcome(lambda: (obj.hex_key, obj.base32_key))
            g.check(o == ("ok", (hx, b32n)), "key:render", "hex_key / base32_key are not the lower-case hex / unpadded base32 of the key", {"key": key.hex(), "outcome": repr(o)})
            for fmt in ("base32", "hex"):
                for sep in ("-", " ", False):
                    o = outcome(obj.pretty_key, format=fmt, sep=sep)
                    ok = o[0] == "ok" and isinstance(o[1], str)
                    if ok:
                        plain = o[1].replace(sep, "") if sep else o[1]
                        ok = plain == (b32n if fmt == "base32" else hx) and outcome(lambda: TOTP(o[1], fmt).key) == ("ok", key)
                    g.check(ok, "key:pretty", "pretty_key does not read back as the same key", {"key": key.hex(), "format": fmt, "sep": repr(sep), "outcome": repr(o)})
    # malformed key text
    for fmt, text, want in (
        ("base32", "GEZDGNBVGY3TQOJ1", "ValueError"),
        ("base32", "GEZDGNBVGY3TQOJ!", "ValueError"),
        ("base32", "G", "ValueError"),
        ("base32", "GEZ", "ValueError"),
        ("base32", "gezdgnbvé", "ValueError"),
        ("hex", "0g", "ValueError"),
        ("hex", "abc", "ValueError"),
        ("hex", "zz", "ValueError"),
        ("raw", "abcdefghij", "TypeError"),
        ("base32", 12345, "TypeError"),
        ("hex", 12345, "TypeError"),
        ("base64", "AAAA", "ValueError"),
        ("bogus", "AAAA", "ValueError"),
    ):
        g.case(("bad", fmt, repr(text)))
        o = outcome(TOTP, key=text, format=fmt)
        ok = o[0] == "exc" and (o[1] == want or (want == "ValueError" and o[3] and o[1] in ("Error", "UnicodeEncodeError", "UnicodeDecodeError")))
        g.check(ok, "key:malformed", f"malformed key text not refused with {want}", {"format": fmt, "text": repr(text), "outcome": repr(o)})
    for kw in ({}, {"key": ""}, {"key": b"", "format": "raw"}):
        g.case(("nokey", repr(kw)))
        o = outcome(TOTP, **kw)
        g.check(o[0] == "exc" and o[3], "key:missing", "missing / empty key not refused", {"kwds": repr(kw), "outcome": repr(o)})
    groups.append(g.done())

    # ---- configuration limits and class-level defaults ---------------------------------------------
    g = G("config", "TOTP.__init__/using", "digits 5, 11, non-int; period 0, -1, non-int; unknown algorithm refused; algorithm aliases; defaults given through TOTP.using(digits, alg, period) x 64 random keys/times follow the reference")
    key = b"0123456789abcdefghij"
    for kw, want in (
        ({"digits": 5}, "ValueError"),
        ({"digits": 11}, "ValueError"),
        ({"digits": 0}, "ValueError"),
        ({"digits": -6}, "ValueError"),
        ({"digits": "6"}, "TypeError"),
        ({"digits": 6.0}, "TypeError"),
        ({"period": 0}, "ValueError"),
        ({"period": -30}, "ValueError"),
        ({"period": "30"}, "TypeError"),
        ({"period": 30.0}, "TypeError"),
        ({"alg": "md9"}, "ValueError"),
        ({"alg": "sha3"}, "ValueError"),
    ):
        g.case(("bad", repr(kw)))
        o = outcome(TOTP, key=key, format="raw", **kw)
        ok = o[0] == "exc" and (o[1] == want or (o[3] and want == "ValueError" and o[1] == "UnknownHashError") or (want == "TypeError" and o[1] == "ExpectedTypeError"))
        g.check(ok, "config:refusal", f"inadmissible configuration not refused with {want}", {"kwds": repr(kw), "outcome": repr(o)})
    for alias, alg in (("SHA1", "sha1"), ("sha-1", "sha1"), ("SHA256", "sha256"), ("sha-256", "sha256"), ("SHA-512", "sha512"), ("Sha512", "sha512")):
        g.case(("alias", alias))
        o = outcome(TOTP, key=key, format="raw", alg=alias)
        if o[0] != "ok":
            g.fail("config:alias", "RFC 6238 algorithm name refused", {"alg": alias, "outcome": repr(o)})
            continue
        t = rng.randrange(2**40)
        g.check(o[1].alg == alg and o[1].generate(t).token == totp(key, t, 6, alg, 30), "config:alias", "algorithm alias selects another algorithm", {"alg": alias, "got": o[1].alg, "time": t})
    for _ in range(64 if quick else 1024):
        alg, digits, period = rng.choice(ALGS), rng.randrange(6, 11), rng.choice([1, 30, 60, 3600, rng.randrange(1, 3601)])
        key = rng.randbytes(rng.randrange(1, 65))
        t = rng.randrange(2**40)
        g.case(("using", alg, digits, period, key, t))
        o = outcome(lambda: TOTP.using(alg=alg, digits=digits, period=period)(key=key, format="raw"))
        if o[0] != "ok":
            g.fail("config:using", "TOTP.using refused an admissible configuration", {"alg": alg, "digits": digits, "period": period, "outcome": repr(o)})
            continue
        check_token(g, o[1], key, alg, digits, period, t, t, "config:using")
    groups.append(g.done())

    return groups, skipped, stats


if __name__ == "__main__":
    main(build)
