"""Generators of valid hashes over the settings space of every registered hasher (shared by c07/c08).

The generated strings come from the hasher's own ``using(...).hash()`` (the property quantifies over
"any hash string a hasher produces"); the *settings* are chosen here, so the expected parse result is
known independently of the parser.
"""
import warnings

warnings.simplefilter("ignore")

PW = "pw-1"
WRONG = "zq-9"  # differs from PW in more than letter case (lmhash & co. fold case)
USER = "user1"
REALM = "realm1"

MAX_SALT = 24

# implicit / default-elided rounds encodings (rendered without an explicit rounds field)
IMPLICIT_ROUNDS = {
    "sha256_crypt": 5000,
    "sha512_crypt": 5000,
    "ldap_sha256_crypt": 5000,
    "ldap_sha512_crypt": 5000,
    "dlitz_pbkdf2_sha1": 400,
    "sun_md5_crypt": 0,
}



class Info:
    """one registered hasher"""

    def __init__(self, name, h):
        import passlib.utils.handlers as uh

        self.name = name
        self.h = h
        self.is_wrapper = isinstance(h, uh.PrefixWrapper)
        self.base = h.wrapped if self.is_wrapper else h  # class that owns from_string
        self.is_generic = isinstance(self.base, type) and issubclass(self.base, uh.GenericHandler)
        self.setting_kwds = tuple(h.setting_kwds or ())
        self.context_kwds = tuple(h.context_kwds or ())
        self.has_salt = "salt" in self.setting_kwds
        self.has_rounds = "rounds" in self.setting_kwds
        self.raw_salt = bool(getattr(self.base, "_salt_is_bytes", False))
        self.raw_checksum = bool(getattr(self.base, "_checksum_is_bytes", False))

    # context keywords for hash()/verify()
    def ctx(self):
        kw = {}
        if "user" in self.context_kwds:
            kw["user"] = USER
        if "realm" in self.context_kwds:
            kw["realm"] = REALM
        return kw

    # ---- wrapper helpers (public attributes prefix/orig_prefix only) ----
    def unwrap(self, s):
        if not self.is_wrapper:
            return s
        p = self.h.prefix
        assert s.startswith(p)
        return self.h.orig_prefix + s[len(p):]

    def wrap(self, s):
        if not self.is_wrapper:
            return s
        op = self.h.orig_prefix
        assert s.startswith(op)
        return self.h.prefix + s[len(op):]

    def parse(self, s):
        """parsed object of the (unwrapped) string via the owning class' from_string"""
        if isinstance(s, bytes) and self.is_wrapper:
            s = s.decode("ascii")
        return self.base.from_string(self.unwrap(s) if self.is_wrapper else s)


def list_handlers():
    """-> (infos, skipped)"""
    from passlib import registry

    infos, skipped = [], []
    for name in registry.list_crypt_handlers():
        try:
            h = registry.get_crypt_handler(name)
        except Exception as err:  # noqa: BLE001
            skipped.append(f"{name}: cannot load ({type(err).__name__}: {err})")
            continue
        try:
            be = getattr(h, "backends", None)
            if be and not h.has_backend():
                skipped.append(f"{name}: no backend on this host")
                continue
        except Exception as err:  # noqa: BLE001
            skipped.append(f"{name}: backend probe failed ({type(err).__name__}: {err})")
            continue
        infos.append(Info(name, h))
    return infos, skipped


# -------------------------------------------------------------------------------------------------
# settings space
# -------------------------------------------------------------------------------------------------
def rounds_values(info, tier):
    h = info.h
    if not info.has_rounds:
        return [None]
    mn = h.min_rounds
    mx = h.max_rounds
    cost = getattr(h, "rounds_cost", "linear")
    vals = [mn, mn + 1]
    if info.name in IMPLICIT_ROUNDS:
        vals.append(IMPLICIT_ROUNDS[info.name])
        vals.append(IMPLICIT_ROUNDS[info.name] + 1)
    if cost == "log2":
        vals.append(mn + 2)
    else:
        base = info.name.replace("ldap_", "")
        if base == "bsdi_crypt":
            vals += [4095, 4096, 4097, 262143]  # fills the 2nd..4th h64 digit of the 24-bit rounds field
        elif base in ("sha256_crypt", "sha512_crypt"):
            vals += [1999, 10000 if tier != "quick" else 2000]
        elif base == "sun_md5_crypt":
            vals += [9, 10, 1000]
        else:
            vals += [9, 10, 99, 100, 1000]
    out = []
    for v in vals:
        if v is None or v < mn or (mx and v > mx) or v in out:
            continue
        out.append(v)
    return out


def _rand_salt(info, size, rng, edge=None):
    h = info.h
    if info.raw_salt:
        if edge == "lo":
            return b"\x00" * size
        if edge == "hi":
            return b"\xff" * size
        return bytes(rng.randrange(256) for _ in range(size))
    chars = h.salt_chars or h.default_salt_chars
    if edge == "lo":
        s = chars[0] * size
    elif edge == "hi":
        s = chars[-1] * size
    else:
        s = "".join(rng.choice(chars) for _ in range(size))
    base = info.name.replace("ldap_", "").replace("django_", "")
    if base in ("bcrypt", "bcrypt_sha256") and size == 22:
        # 22nd character carries only 2 payload bits; keep the padding bits clear (canonical salts)
        final = ".Oeu"
        s = s[:21] + (final[0] if edge == "lo" else final[-1] if edge == "hi" else rng.choice(final))
    return s


def salt_values(info, tier, rng):
    """list of salts (None = hasher has no salt) covering every allowed size min..min(max, 24) + alphabet edges"""
    h = info.h
    if not info.has_salt:
        return [None]
    if hasattr(h, "max_salt_value"):  # cisco_type7: the salt is an integer offset
        return list(range(h.min_salt_value, h.max_salt_value + 1))
    mn = h.min_salt_size or 0
    mx = h.max_salt_size
    top = min(mx, MAX_SALT) if mx else MAX_SALT
    out = []
    for size in range(mn, top + 1):
        for _ in range(1 if tier == "quick" else 3):
            out.append(_rand_salt(info, size, rng))
    dflt = h.default_salt_size
    if dflt is None or dflt > top:
        dflt = top
    for e in ("lo", "hi"):
        out.append(_rand_salt(info, dflt, rng, e))
    if not info.raw_salt and mx is not None and mx == mn and mn <= 4:
        # short fixed-size salts (des family): every alphabet symbol in every position
        chars = h.salt_chars
        n = len(chars)
        if tier == "quick":
            for i in range(n):
                out.append("".join(chars[(i + 7 * k) % n] for k in range(mn)))
        else:
            for pos in range(mn):
                for c in chars:
                    base = list(out[0])
                    base[pos] = c
                    out.append("".join(base))
    # dedupe keeping order
    seen, res = set(), []
    for s in out:
        if s not in seen:
            seen.add(s)
            res.append(s)
    return res


def extra_axes(info):
    """-> dict axis -> list of values (first value = base)"""
    name = info.name
    base = name.replace("ldap_", "")
    ax = {}
    if "ident" in info.setting_kwds:
        src = info.base.ident_values
        ax["ident"] = [info.base.default_ident] + [i for i in src if i != info.base.default_ident]
    if name == "fshp":
        ax["variant"] = [1, 0, 2, 3]
    if name == "scram":
        ax["algs"] = ["sha-1,sha-256,sha-512", "sha-1", "sha-1,md5", "sha-1,sha-224,sha-384"]
    if name == "scrypt":
        # 63 / 64 / 65 / 4095 / 4096: values around the 6-bit digit boundaries of the $7$ format's hash64 integers
        ax["block_size"] = [8, 1, 2, 9, 63, 64]
        ax["parallelism"] = [1, 2, 3, 63, 64, 65, 4096]
    if name in ("bcrypt_sha256",):
        ax["version"] = [2, 1]
    if base == "sun_md5_crypt":
        ax["bare_salt"] = [False, True]
    return ax


class Sample:
    """one generated hash with the settings that made it"""

    __slots__ = ("info", "settings", "hash", "via", "secret")

    def __init__(self, info, settings, hash, via, secret=PW):
        self.info = info
        self.settings = settings
        self.hash = hash
        self.via = via
        self.secret = secret

    def ident(self):
        return (self.info.name, tuple(sorted((k, repr(v)) for k, v in self.settings.items())))

    def witness(self):
        return {"hasher": self.info.name, "settings": {k: (v.hex() if isinstance(v, bytes) else v) for k, v in self.settings.items()}, "hash": self.hash, "secret": self.secret, **self.info.ctx()}


EXTRA_SECRETS = ["a", "Tr0ub4dor&3", "p\u00e4ss"]
LONG_PW = "pw-1" * 4 + "x"  # 17 chars: three bigcrypt blocks, two crypt16 blocks


def make(info, settings, secret=PW):
    """produce the hash for ``secret`` under the given settings; raises whatever the hasher raises"""
    h = info.h
    st = dict(settings)
    bare = st.pop("bare_salt", None)
    if bare:
        # no using()/hash() route exists for the bare-salt form: build the record directly
        base = info.base
        obj = base(salt=st["salt"], rounds=st["rounds"], bare_salt=True)
        obj.checksum = obj._calc_checksum(secret)
        return info.wrap(obj.to_string()), "constructor"
    if info.base.name == "bsdi_crypt" and st.get("rounds") is not None and st["rounds"] % 2 == 0:
        # using(rounds=even).hash() deliberately hashes with rounds|1 (weak-key avoidance, outside C07); an even
        # rounds field is still a well-formed stored hash, so it is built from the record
        obj = info.base(salt=st["salt"], rounds=st["rounds"])
        obj.checksum = obj._calc_checksum(secret)
        return info.wrap(obj.to_string()), "constructor"
    kw = {k: v for k, v in st.items() if v is not None}
    sub = h.using(**kw) if kw else h
    return sub.hash(secret, **info.ctx()), "using().hash()"


def settings_space(info, tier, rng):
    """one-factor-at-a-time sweep around a cheap base point (+ full product in thorough for small spaces)"""
    rv = rounds_values(info, tier)
    sv = salt_values(info, tier, rng)
    ax = extra_axes(info)
    base = {}
    if info.has_rounds:
        base["rounds"] = rv[0]
    if info.has_salt:
        # base salt: the default size (or the first available)
        dflt = getattr(info.h, "default_salt_size", None)
        pick = [s for s in sv if isinstance(s, (str, bytes)) and len(s) == dflt]
        base["salt"] = pick[0] if pick else sv[0]
    for k, vals in ax.items():
        base[k] = vals[0]
    out = [dict(base)]
    for r in rv[1:]:
        out.append({**base, "rounds": r})
    for s in sv:
        if info.has_salt and s != base.get("salt"):
            out.append({**base, "salt": s})
    for k, vals in ax.items():
        for v in vals[1:]:
            out.append({**base, k: v})
    # pairwise: every extra-axis value x every rounds value x two salt sizes (min and max)
    if ax or tier != "quick":
        ends = [s for s in (sv[0], sv[-3] if len(sv) >= 3 else sv[-1]) if s is not None]
        for k, vals in ax.items():
            for v in vals:
                for r in rv:
                    for s in ends or [None]:
                        st = {**base, k: v}
                        if info.has_rounds:
                            st["rounds"] = r
                        if info.has_salt:
                            st["salt"] = s
                        out.append(st)
    # extra axes against each other (scrypt: each string format x block size x parallelism; two axes at a time)
    keys = list(ax)
    for i, k1 in enumerate(keys):
        for k2 in keys[i + 1 :]:
            for v1 in ax[k1][1:]:
                for v2 in ax[k2][1:]:
                    out.append({**base, k1: v1, k2: v2})
    if tier != "quick" and info.has_rounds and info.has_salt:
        for r in rv[1:]:
            for s in sv:
                out.append({**base, "rounds": r, "salt": s})
    # dedupe
    seen, res = set(), []
    for st in out:
        key = tuple(sorted((k, repr(v)) for k, v in st.items()))
        if key not in seen:
            seen.add(key)
            res.append(st)
    return res


H64 = "./0123456789ABCDEFGHIJKLMNOPQRSTUVWXYZabcdefghijklmnopqrstuvwxyz"


def _fixup(info, st):
    """settings the format cannot carry are mapped to the nearest it can (scrypt $7$: ASCII salts only)"""
    if info.name == "scrypt" and st.get("ident") == "$7$" and isinstance(st.get("salt"), bytes):
        st = {**st, "salt": bytes(ord(H64[b % 64]) for b in st["salt"])}
    return st


def _valid_combo(info, st):
    # bcrypt_sha256 version 2 is defined for the $2b$ ident only
    return not (info.name == "bcrypt_sha256" and st.get("version", 2) == 2 and st.get("ident", "$2b$") != "$2b$")


def generate(info, tier, rng, notes=None):
    """-> list of Sample; settings the hasher itself refuses (ValueError at using()/hash()) are noted and dropped"""
    out = []
    for st in settings_space(info, tier, rng):
        if not _valid_combo(info, st):
            continue
        st = _fixup(info, st)
        try:
            hs, via = make(info, st)
        except (ValueError, TypeError, NotImplementedError, RuntimeError) as err:
            if notes is not None:
                notes.append(f"{info.name}: settings {_short(st)} refused by the hasher ({type(err).__name__}: {str(err)[:80]})")
            continue
        out.append(Sample(info, st, hs, via))
    if out and not info.has_salt and not info.has_rounds and not extra_axes(info):
        # hashers without settings: vary the secret instead
        for i, sec in enumerate(EXTRA_SECRETS):
            try:
                hs, via = make(info, {}, sec)
            except (ValueError, TypeError) as err:
                if notes is not None:
                    notes.append(f"{info.name}: secret #{i} refused ({type(err).__name__})")
                continue
            out.append(Sample(info, {"_secret": i}, hs, via, sec))
    if info.name in ("bigcrypt", "crypt16") and out:
        st = out[0].settings
        hs, via = make(info, st, LONG_PW)
        out.append(Sample(info, {**st, "_secret": "long"}, hs, via, LONG_PW))
    return out


def _short(st):
    return {k: (f"<{len(v)} bytes>" if isinstance(v, bytes) else v) for k, v in st.items()}


def cheapest(info, rng):
    """one cheap valid sample (base point of the space) or None"""
    sp = settings_space(info, "quick", rng)
    for st in sp:
        if not _valid_combo(info, st):
            continue
        st = _fixup(info, st)
        try:
            hs, via = make(info, st)
        except (ValueError, TypeError, NotImplementedError, RuntimeError):
            continue
        return Sample(info, st, hs, via)
    return None
