NOTES = "Contract-based deductive verification of the real code (see DESIGN.md). Exit codes: 0 held, 1 violation (+VIOLATION line), 3 checker error."
NOT_APPLICABLE = {
    "C19": "quantifies over thread schedules; function-modular contracts over sequential semantics cannot express or decide interleavings, and no installed deductive tool for Python adds them (DESIGN.md section 6, C19)",
}
CHECKS = {
    "C06": dict(
        category="proof",
        technique="contracts + loop invariants on getrandbytes/getrandstr discharged by z3/cvc5 (pyvc); bijection lemma; bounded exhaustive stand-in",
        text="getrandbytes/getrandstr are proved, for every count and every value of the single rng draw, to return exactly the base-256/base-L digits of that draw (loop invariants over the real source); the digit step map is proved bijective, so a uniform draw yields a uniform output of the declared size and alphabet. Salt/key generators are checked to delegate to these helpers.",
        note="trusted: pyvc VC generator, z3/cvc5, rng range contracts (random.Random), induction over n of the digits bijection argued on paper (step mechanised); float-based entropy->length in passlib.pwd is bounded only",
    ),
}
