"""scrypt written from RFC 7914 (Salsa20/8 core section 3, scryptBlockMix section 4, scryptROMix
section 5, scrypt section 6).  Byte-string oriented and slow; shares nothing with passlib."""
import hashlib
import struct

M32 = 0xFFFFFFFF


def _r(a, b):
    return ((a << b) & M32) | (a >> (32 - b))


def salsa20_8_words(inp):
    """16 uint32 -> 16 uint32 (RFC 7914 section 3 reference code)"""
    x = list(inp)
    for _ in range(0, 8, 2):
        x[4] ^= _r((x[0] + x[12]) & M32, 7)
        x[8] ^= _r((x[4] + x[0]) & M32, 9)
        x[12] ^= _r((x[8] + x[4]) & M32, 13)
        x[0] ^= _r((x[12] + x[8]) & M32, 18)
        x[9] ^= _r((x[5] + x[1]) & M32, 7)
        x[13] ^= _r((x[9] + x[5]) & M32, 9)
        x[1] ^= _r((x[13] + x[9]) & M32, 13)
        x[5] ^= _r((x[1] + x[13]) & M32, 18)
        x[14] ^= _r((x[10] + x[6]) & M32, 7)
        x[2] ^= _r((x[14] + x[10]) & M32, 9)
        x[6] ^= _r((x[2] + x[14]) & M32, 13)
        x[10] ^= _r((x[6] + x[2]) & M32, 18)
        x[3] ^= _r((x[15] + x[11]) & M32, 7)
        x[7] ^= _r((x[3] + x[15]) & M32, 9)
        x[11] ^= _r((x[7] + x[3]) & M32, 13)
        x[15] ^= _r((x[11] + x[7]) & M32, 18)
        x[1] ^= _r((x[0] + x[3]) & M32, 7)
        x[2] ^= _r((x[1] + x[0]) & M32, 9)
        x[3] ^= _r((x[2] + x[1]) & M32, 13)
        x[0] ^= _r((x[3] + x[2]) & M32, 18)
        x[6] ^= _r((x[5] + x[4]) & M32, 7)
        x[7] ^= _r((x[6] + x[5]) & M32, 9)
        x[4] ^= _r((x[7] + x[6]) & M32, 13)
        x[5] ^= _r((x[4] + x[7]) & M32, 18)
        x[11] ^= _r((x[10] + x[9]) & M32, 7)
        x[8] ^= _r((x[11] + x[10]) & M32, 9)
        x[9] ^= _r((x[8] + x[11]) & M32, 13)
        x[10] ^= _r((x[9] + x[8]) & M32, 18)
        x[12] ^= _r((x[15] + x[14]) & M32, 7)
        x[13] ^= _r((x[12] + x[15]) & M32, 9)
        x[14] ^= _r((x[13] + x[12]) & M32, 13)
        x[15] ^= _r((x[14] + x[13]) & M32, 18)
    return [(a + b) & M32 for a, b in zip(x, inp)]


def salsa20_8(block64):
    return struct.pack("<16I", *salsa20_8_words(struct.unpack("<16I", block64)))


def _xor(a, b):
    return bytes(x ^ y for x, y in zip(a, b))


def block_mix(b, r):
    """b: 128*r bytes"""
    x = b[-64:]
    y = []
    for i in range(2 * r):
        x = salsa20_8(_xor(x, b[64 * i : 64 * i + 64]))
        y.append(x)
    return b"".join(y[0::2]) + b"".join(y[1::2])


def romix(b, n, r):
    x = b
    v = []
    for _ in range(n):
        v.append(x)
        x = block_mix(x, r)
    for _ in range(n):
        j = int.from_bytes(x[-64:], "little") % n
        x = block_mix(_xor(x, v[j]), r)
    return x


def scrypt(secret, salt, n, r, p, keylen):
    b = hashlib.pbkdf2_hmac("sha256", secret, salt, 1, p * 128 * r)
    out = b"".join(romix(b[128 * r * i : 128 * r * (i + 1)], n, r) for i in range(p))
    return hashlib.pbkdf2_hmac("sha256", secret, out, 1, keylen)


def selftest():
    # RFC 7914 section 12, first two vectors
    assert scrypt(b"", b"", 16, 1, 1, 64).hex().startswith("77d6576238657b203b19ca42c18a0497")
    if hasattr(hashlib, "scrypt"):
        assert scrypt(b"pw", b"salt", 8, 2, 2, 33) == hashlib.scrypt(b"pw", salt=b"salt", n=8, r=2, p=2, dklen=33)
    return True


selftest()
