"""pyvc.replay -- turn a solver model into a concrete call of the REAL function (under /venv/bin/python, /repo on
the path) and evaluate the contract concretely.  A contract opts in with ``replay=py_replay(setup, call, check)``:

    setup : python source run once (imports, helper objects)
    call  : python expression/statement(s) using {param} placeholders filled from the model
    check : python expression over ``r`` (result) / ``exc`` (exception or None) that is True when the contract HOLDS

If the model is not an entry state (e.g. an inductive-step counterexample) or the call holds, ``search`` (optional
python source yielding candidate dicts) is tried, seeded with the model's values."""
import json
import os
import re
import subprocess

from . import extract

VENV_PY = os.environ.get("PYVC_VENV_PY", "/venv/bin/python")


def model_value(model, name, default=None):
    """python value of a model entry (ints, bools, strings); unions: '<name>?tag', '<name>$k'"""
    def parse(v):
        v = v.strip()
        if v in ("true", "True"):
            return True
        if v in ("false", "False"):
            return False
        m = re.fullmatch(r"\(-\s*(\d+)\)", v)
        if m:
            return -int(m.group(1))
        if re.fullmatch(r"-?\d+", v):
            return int(v)
        if v.startswith('"') and v.endswith('"'):
            s = v[1:-1].replace('""', '"')
            s = re.sub(r"\\u\{([0-9a-fA-F]+)\}", lambda mm: chr(int(mm.group(1), 16)), s)
            s = re.sub(r"\\x([0-9a-fA-F]{2})", lambda mm: chr(int(mm.group(1), 16)), s)
            return s
        return None

    if name in model:
        return parse(model[name])
    tag = model.get(name + "?tag")
    if tag is not None:
        k = parse(tag)
        key = f"{name}${k}"
        if key in model:
            return parse(model[key])
        return ("__alt__", k)
    return default


def py_replay(setup, call, check, params, search=None, alts=None):
    """returns a replay(model, refuted) callable for Contract(replay=...)"""
    alts = alts or {}

    def run(values):
        src = "\n".join([
            "import json, warnings", "warnings.simplefilter('ignore')", setup,
            f"V = {values!r}",
            "exc = None; r = None",
            "try:", *["    " + ln for ln in call.splitlines()],
            "except Exception as e:", "    exc = e",
            f"ok = bool({check})",
            "print('REPLAY-' + ('OK' if ok else 'FAIL'), json.dumps({'args': {k: repr(v) for k, v in V.items()}, 'result': repr(r)[:200], 'exception': repr(exc)[:200]}))",
        ])
        env = dict(os.environ, PYTHONPATH=extract.REPO)
        out = subprocess.run([VENV_PY, "-c", src], capture_output=True, text=True, timeout=120, env=env)
        line = next((ln for ln in out.stdout.splitlines() if ln.startswith("REPLAY-")), None)
        if line is None:
            return {"reproduced": False, "error": (out.stderr or out.stdout)[-300:]}
        return {"reproduced": line.startswith("REPLAY-FAIL"), "detail": json.loads(line.split(" ", 1)[1])}

    def replay(model, refuted):
        values = {}
        for p, default in params.items():
            v = model_value(model, p, default)
            if isinstance(v, tuple) and v and v[0] == "__alt__":
                v = alts.get(p, {}).get(v[1], default)
            values[p] = default if v is None and p not in model else v
        res = run(values)
        res["from"] = "solver model"
        if res.get("reproduced") or search is None:
            return res
        # not an entry state / not reproduced: small search seeded with the model's values
        cands = search(values)
        for cand in cands:
            r2 = run(cand)
            if r2.get("reproduced"):
                r2["from"] = "bounded search seeded with the model"
                return r2
        res["searched"] = len(cands)
        return res

    return replay
