"""MD4 compression function, transcribed from RFC 1320 section 3.4 (not from the code).
State registers are 32-bit vectors; all additions are modulo 2^32."""
import z3


def rotl(x, s):
    return z3.RotateLeft(x, s)


def f_F(x, y, z):  # XY v not(X) Z
    return (x & y) | (~x & z)


def f_G(x, y, z):  # XY v XZ v YZ
    return (x & y) | (x & z) | (y & z)


def f_H(x, y, z):  # X xor Y xor Z
    return x ^ y ^ z


ROUND_FN = [f_F, f_G, f_H]
ROUND_K = [0x00000000, 0x5A827999, 0x6ED9EBA1]
ROUND_S = [[3, 7, 11, 19], [3, 5, 9, 13], [3, 9, 11, 15]]
BITREV = [0, 8, 4, 12, 2, 10, 6, 14, 1, 9, 5, 13, 3, 11, 7, 15]


def x_index(rnd, j):
    """which message word step j (0..15) of round rnd (0..2) uses"""
    if rnd == 0:
        return j
    if rnd == 1:
        return 4 * (j % 4) + j // 4
    return BITREV[j]


def step(regs, X, rnd, j):
    """one RFC 1320 operation [abcd k s]: a = (a + f(b,c,d) + X[k] + K) <<< s, registers rotate a,d,c,b"""
    ai = (-j) % 4
    a, b, c, d = (regs[(ai + t) % 4] for t in range(4))
    val = rotl(a + ROUND_FN[rnd](b, c, d) + X[x_index(rnd, j)] + z3.BitVecVal(ROUND_K[rnd], 32), ROUND_S[rnd][j % 4])
    out = list(regs)
    out[ai] = val
    return out
