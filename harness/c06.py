import json,sys
print(json.dumps({"groups": []}))
