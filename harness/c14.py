"""Bounded stand-in for C14: the real TOTP.match driven exhaustively over small periods / windows / skews /
last counters / times and compared with a specification function written from the property statement
(counter -> token map: an independent RFC 4226 reference); call histories feeding back match.counter.

Colliding codes: (a) a subclass whose token generator is the real one reduced modulo a tiny number (code space
of 2 or 3 codes; match/_find_match/normalize_token are the real ones), (b) a genuine 6-digit collision between
nearby counters found by search under a fixed key.

Every call passes an explicit time (no dependence on the wall clock).
"""
import datetime as dt
import hashlib
import hmac
import re
import struct
import time as _time

from common import Group, main


class G(Group):
    def __init__(self, *a):
        super().__init__(*a)
        self.extra = 0
        self.elapsed = None

    def bulk(self, n, ident):
        self.cases += n
        self.extra += n
        if len(self.samples) < 3:
            self.samples.append(ident)

    def done(self):
        self.elapsed = round(_time.time() - self.t0, 2)
        return self

    def out(self):
        d = super().out()
        d["distinct"] += self.extra
        if self.elapsed is not None:
            d["seconds"] = self.elapsed
        return d


def hotp(key, counter, digits, alg="sha1"):
    mac = hmac.new(key, struct.pack(">Q", counter), getattr(hashlib, alg)).digest()
    off = mac[-1] & 0x0F
    code = struct.unpack(">I", mac[off : off + 4])[0] & 0x7FFFFFFF
    return str(code % 10**digits).zfill(digits)


class TokenMap:
    """counter -> code (cached); modulus: tiny code space"""

    def __init__(self, key, digits=6, alg="sha1", modulus=None):
        self.key, self.digits, self.alg, self.modulus = key, digits, alg, modulus
        self.cache = {}

    def __call__(self, c):
        assert c >= 0
        v = self.cache.get(c)
        if v is None:
            v = hotp(self.key, c, self.digits, self.alg)
            if self.modulus:
                v = "%0*d" % (self.digits, int(v) % self.modulus)
            self.cache[c] = v
        return v


_strip = re.compile(r"[\s\-=]")


def spec_normalize(token, digits):
    """the submitted code as a digit string, or None if it is not a code of the right length.
    Integers are zero-padded; text may carry white space and dashes."""
    if isinstance(token, bool) or not isinstance(token, (int, str, bytes)):
        raise TypeError
    if isinstance(token, int):
        s = "%0*d" % (digits, token)
    else:
        if isinstance(token, bytes):
            token = token.decode("utf-8")
        s = _strip.sub("", token)
    if len(s) != digits or not all(c in "0123456789" for c in s):
        return None
    return s


def spec_match(gen, digits, period, token, time, window, skew, last):
    """the property statement, literally"""
    code = spec_normalize(token, digits)
    if code is None:
        return ("malformed",)
    first = (time + skew - window) // period
    final = (time + skew + window) // period
    if last is not None:
        first = max(first, last)  # not before the last counter already used
    first = max(first, 0)  # counters are non-negative
    for c in range(first, final + 1):  # earliest first
        if gen(c) == code:
            if last is not None and c == last:
                return ("used", (last + 1) * period)
            return ("ok", c)
    return ("invalid",)


FORMS = ("str", "int", "space", "dash", "bytes", "padded", "dashes")


def render(code, form):
    if form == "int":
        return int(code)
    if form == "space":
        return code[:3] + " " + code[3:]
    if form == "dash":
        return code[:3] + "-" + code[3:]
    if form == "bytes":
        return code.encode()
    if form == "padded":
        return " " + code + "\n"
    if form == "dashes":
        return "-".join(code)
    return code


def build(tier, rng):
    quick = tier == "quick"
    from passlib import exc
    from passlib.totp import TOTP, TotpMatch

    class TinyTOTP(TOTP):
        """real match()/_find_match()/normalize_token(); generator = real generator modulo a tiny number"""

        modulus = 3

        def _generate(self, counter):
            return "%0*d" % (self.digits, int(super()._generate(counter)) % self.modulus)

    def real_match(obj, token, time, window, skew, last, with_defaults=False):
        """outcome of the real call in the vocabulary of the specification"""
        kw = {"time": time, "window": window}
        if skew != 0 or not with_defaults:
            kw["skew"] = skew
        if last is not None or not with_defaults:
            kw["last_counter"] = last
        try:
            m = obj.match(token, **kw)
        except exc.MalformedTokenError:
            return ("malformed",), None
        except exc.UsedTokenError as err:
            return ("used", err.expire_time), None
        except exc.InvalidTokenError:
            return ("invalid",), None
        except Exception as err:  # noqa: BLE001
            return ("raised", type(err).__name__, str(err)[:80]), None
        return ("ok", m.counter), m

    def check_fields(g, m, period, time, window, w):
        c = m.counter
        ok = isinstance(m, TotpMatch) and bool(m) and m.time == time and m.window == window and m.expected_counter == time // period and m.skipped == c - time // period and m.expire_time == (c + 1) * period and m.cache_seconds == period + window and m.cache_time == (c + 1) * period + window and tuple(m) == (c, time)
        g.check(ok, "match:fields", "TotpMatch fields (time, expected_counter, skipped, expire_time, cache_seconds, cache_time, tuple) are inconsistent", dict(w, repr=repr(m)))

    groups = []

    # ---- exhaustive small grid ------------------------------------------------------------------------
    tmax = 40 if quick else 64
    keysets = [("real", None, 3), ("tiny3", 3, 1)] + ([] if quick else [("tiny2", 2, 1)])
    margin = 1 if quick else 2  # codes of the counters first-margin..final+margin are submitted
    g = G("match-exhaustive", "TOTP.match/_find_match", f"periods 1..4 x windows 0..6 x skews -3..3 x times 0..{tmax} x last_counter in None, first-1..final+3 (first/final: searched range) x codes of every counter first-{1 if quick else 2}..final+{1 if quick else 2} and one code matching none x 3 keys with 6-digit codes (code form rotating over str/int/spaced/dashed/bytes) and {'1 key with a code space of 3 codes' if quick else '2 keys with a code space of 3 resp. 2 codes'} (all codes)")
    n_ok = n_used = n_inv = 0
    for kind, modulus, nkeys in keysets:
        for ki in range(nkeys):
            key = rng.randbytes(rng.choice([10, 20, 32]))
            gen = TokenMap(key, 6, "sha1", modulus)
            n = 0
            for period in range(1, 5):
                if modulus:
                    sub = type("Tiny", (TinyTOTP,), {"modulus": modulus})
                    obj = sub(key=key, format="raw", period=period)
                else:
                    obj = TOTP(key=key, format="raw", period=period)
                for window in range(0, 7):
                    for skew in range(-3, 4):
                        for time in range(0, tmax + 1):
                            first = (time + skew - window) // period
                            final = (time + skew + window) // period
                            if modulus:
                                codes = ["%06d" % v for v in range(modulus)] + ["000009"]
                            else:
                                codes = [gen(c) for c in range(max(first - margin, 0), max(final + margin + 1, 0))]
                                miss = "%06d" % ((int(gen(max(first, 0))) + 1 + time) % 10**6)
                                while any(gen(c) == miss for c in range(max(first - 2, 0), max(final + 3, 1))):
                                    miss = "%06d" % ((int(miss) + 1) % 10**6)
                                codes.append(miss)
                            lasts = [None] + list(range(first - 1, final + 4))
                            for last in lasts:
                                for code in codes:
                                    n += 1
                                    form = "str" if modulus else FORMS[n % len(FORMS)]
                                    tok = render(code, form)
                                    want = spec_match(gen, 6, period, tok, time, window, skew, last)
                                    got, m = real_match(obj, tok, time, window, skew, last, with_defaults=(n % 5 == 0))
                                    if got != want:
                                        w = {"kind": kind, "key": key.hex(), "period": period, "window": window, "skew": skew, "time": time, "last_counter": last, "token": repr(tok), "got": repr(got), "want": repr(want), "tokens_of_range": {str(c): gen(c) for c in range(max(first, 0), max(final + 1, 0))}}
                                        g.fail(f"match:{kind}:{want[0]}-expected:{got[0]}", "match() outcome differs from the specification", w)
                                    elif m is not None:
                                        check_fields(g, m, period, time, window, {"kind": kind, "key": key.hex(), "period": period, "window": window, "skew": skew, "time": time, "last_counter": last, "token": repr(tok)})
                                    if want[0] == "ok":
                                        n_ok += 1
                                    elif want[0] == "used":
                                        n_used += 1
                                    else:
                                        n_inv += 1
            g.bulk(n, f"{kind} key {ki}: {n} calls")
    groups.append(g.done())
    stats = {"exhaustive_expected_ok": n_ok, "exhaustive_expected_used": n_used, "exhaustive_expected_invalid": n_inv}

    # ---- a genuine collision of 6-digit codes between nearby counters ------------------------------------
    g = G("match-real-collision", "TOTP.match/_find_match", "fixed key; pairs of counters c1 < c2 <= c1+12 with equal 6-digit codes found by search over counters 0..400000; periods 1..3 x times around c2*period x windows reaching none/one/both x every last_counter c1-2..c2+2 and None")
    ckey = b"C14-collision-search-key"
    gen = TokenMap(ckey, 6)
    recent = {}
    pairs = []
    for c in range(0, 400000 if quick else 1600000):
        code = hotp(ckey, c, 6)
        p = recent.get(code)
        if p is not None and c - p <= 12:
            pairs.append((p, c))
        recent[code] = c
    stats["real_collisions_found"] = len(pairs)
    for c1, c2 in pairs:
        code = gen(c1)
        assert code == gen(c2)
        for period in (1, 2, 3):
            obj = TOTP(key=ckey, format="raw", period=period)
            for time in sorted({c1 * period, c2 * period, c2 * period + period - 1, (c1 + c2) // 2 * period}):
                for window in sorted({0, period, (c2 - c1) * period, (c2 - c1 + 1) * period, 13 * period}):
                    for last in [None] + list(range(c1 - 2, c2 + 3)):
                        for skew in (0, -period, period):
                            g.case((c1, c2, period, time, window, last, skew))
                            want = spec_match(gen, 6, period, code, time, window, skew, last)
                            got, m = real_match(obj, code, time, window, skew, last)
                            w = {"key": ckey.hex(), "colliding_counters": [c1, c2], "period": period, "window": window, "skew": skew, "time": time, "last_counter": last, "token": code, "got": repr(got), "want": repr(want)}
                            g.check(got == want, f"match:collision:{want[0]}-expected:{got[0]}", "match() outcome differs from the specification on a colliding code", w)
                            if m is not None and got == want:
                                check_fields(g, m, period, time, window, w)
    groups.append(g.done())

    # ---- random large values ------------------------------------------------------------------------------
    nrand = 20000 if quick else 400000
    g = G("match-random", "TOTP.match/_find_match", f"{nrand} random cases: keys 1..64 bytes x sha1/256/512 x digits 6..10 x period 1..3600 x time 0..2^40 (int, float, naive/aware datetime) x window 0..12 periods x skew -6..6 periods (incl. beyond the epoch) x last_counter None / around the range / far x code of a counter near or far from the range, code form str/int/spaced/dashed/bytes")
    DT_MAX = 253402300799
    for i in range(nrand):
        key = rng.randbytes(rng.randrange(1, 65))
        alg = rng.choice(["sha1", "sha256", "sha512"])
        digits = rng.randrange(6, 11)
        period = rng.choice([1, 30, 60, 3600, rng.randrange(1, 3601)])
        gen = TokenMap(key, digits, alg)
        obj = TOTP(key=key, format="raw", alg=alg, digits=digits, period=period)
        if rng.random() < 0.2:
            time = rng.randrange(0, 20 * period)
        else:
            time = rng.randrange(0, 2 ** rng.randrange(1, 41))
        window = rng.choice([0, period - 1, period, period + 1, rng.randrange(0, 12 * period + 1)])
        skew = rng.choice([0, 0, -period, period, rng.randrange(-6 * period, 6 * period + 1)])
        first = (time + skew - window) // period
        final = (time + skew + window) // period
        r = rng.random()
        if r < 0.25:
            last = None
        elif r < 0.9:
            last = rng.randrange(first - 2, final + 4)
        else:
            last = rng.randrange(0, 2**41)
        r = rng.random()
        if r < 0.7:
            c = rng.randrange(first - 2, final + 3)
        elif r < 0.85 and last is not None:
            c = last + rng.randrange(-1, 2)
        else:
            c = rng.randrange(0, 2**41)
        code = gen(max(c, 0))
        if rng.random() < 0.05:
            code = "%0*d" % (digits, (int(code) + 1) % 10**digits)
        form = rng.choice(FORMS)
        tok = render(code, form)
        targ = time
        r = rng.random()
        if r < 0.1:
            targ = time + rng.choice([0.0, 0.5, 0.999])
        elif r < 0.2 and time <= DT_MAX:
            targ = dt.datetime(1970, 1, 1) + dt.timedelta(seconds=time, microseconds=rng.choice([0, 999999]))
            if rng.random() < 0.5:
                targ = targ.replace(tzinfo=dt.timezone.utc).astimezone(dt.timezone(dt.timedelta(minutes=rng.choice([-720, -90, 330, 840]))))
        g.case((i, key))
        want = spec_match(gen, digits, period, tok, time, window, skew, last)
        got, m = real_match(obj, tok, targ, window, skew, last, with_defaults=(i % 4 == 0))
        w = {"key": key.hex(), "alg": alg, "digits": digits, "period": period, "window": window, "skew": skew, "time": repr(targ), "last_counter": last, "token": repr(tok), "got": repr(got), "want": repr(want)}
        g.check(got == want, f"match:random:{want[0]}-expected:{got[0]}", "match() outcome differs from the specification", w)
        if m is not None and got == want:
            check_fields(g, m, period, time, window, w)
    groups.append(g.done())

    # ---- histories ----------------------------------------------------------------------------------------
    nhist = 300 if quick else 6000
    g = G("match-histories", "TOTP.match (history: last_counter fed back)", f"{nhist} histories of 40 attempts (6-digit codes; every third history over a 2- or 3-code space): clock advancing 0..3 periods per attempt or stepping back; submitted code: current, previous accepted (replay), any earlier accepted, stale, future inside/outside the window, random; the application stores match.counter as last_counter: each outcome = specification, accepted counters strictly increase, no counter accepted twice, an accepted code replayed at once is refused")
    n_acc = 0
    for h in range(nhist):
        key = rng.randbytes(20)
        period = rng.choice([1, 2, 3, 5, 30])
        window = rng.choice([0, 1, period, 2 * period, 3 * period + 1])
        skew = rng.choice([0, 0, -period, 1])
        modulus = (None, None, rng.choice([2, 3]))[h % 3]
        gen = TokenMap(key, 6, "sha1", modulus)
        if modulus:
            obj = type("Tiny", (TinyTOTP,), {"modulus": modulus})(key=key, format="raw", period=period)
        else:
            obj = TOTP(key=key, format="raw", period=period)
        last = None
        time = rng.randrange(0, 5 * period)
        accepted = []  # (counter, code)
        trace = []
        for step in range(40):
            r = rng.random()
            if r < 0.75:
                time += rng.randrange(0, 3 * period + 1)
            elif r < 0.85:
                time = max(0, time - rng.randrange(0, 4 * period + 1))  # server clock stepping back
            cur = (time + skew) // period
            r = rng.random()
            if r < 0.35:
                code = gen(max(cur, 0))
            elif r < 0.5 and accepted:
                code = accepted[-1][1]  # replay
            elif r < 0.6 and accepted:
                code = rng.choice(accepted)[1]  # older replay
            elif r < 0.7:
                code = gen(max(cur - rng.randrange(1, 6), 0))  # stale
            elif r < 0.9:
                code = gen(max(cur + rng.randrange(1, 6), 0))  # future
            else:
                code = "%06d" % (rng.randrange(modulus) if modulus else rng.randrange(10**6))
            tok = render(code, rng.choice(FORMS))
            want = spec_match(gen, 6, period, tok, time, window, skew, last)
            got, m = real_match(obj, tok, time, window, skew, last)
            trace.append({"time": time, "token": repr(tok), "last_counter": last, "got": repr(got), "want": repr(want)})
            g.case((h, step))
            w = {"key": key.hex(), "period": period, "window": window, "skew": skew, "code_space": modulus or 10**6, "trace": trace[-6:]}
            g.check(got == want, f"history:{want[0]}-expected:{got[0]}", "match() outcome within a history differs from the specification", w)
            if got[0] == "ok":
                c = got[1]
                n_acc += 1
                g.check(not accepted or c > accepted[-1][0], "history:counter-not-increasing", "an accepted counter is not later than the previously accepted one", dict(w, accepted=[a[0] for a in accepted[-5:]], counter=c))
                g.check(all(c != a[0] for a in accepted), "history:counter-accepted-twice", "the same counter was accepted twice", dict(w, counter=c))
                g.check(gen(c) == spec_normalize(tok, 6), "history:accepted-wrong-code", "accepted counter does not generate the submitted code", dict(w, counter=c))
                accepted.append((c, gen(c)))
                last = c  # the application feeds the counter back
                # immediate replay of the very same code at the same time must not be accepted with this counter
                got2, _ = real_match(obj, tok, time, window, skew, last)
                g.check(got2[0] != "ok" or got2[1] > c, "history:immediate-replay", "an accepted code replayed at once is accepted again for a counter that is not later", dict(w, second=repr(got2)))
    stats["history_accepted"] = n_acc
    groups.append(g.done())

    # ---- malformed codes and argument checks ------------------------------------------------------------
    g = G("match-malformed", "TOTP.normalize_token/match", "digits 6..10: codes of length digits-6..digits+3, empty, non-digit characters at every position, signs, decimals, integers with too many digits, decorated text, bytes; wrong token types; negative / non-int window; malformed wins over an empty range")
    for digits in range(6, 11):
        key = rng.randbytes(20)
        obj = TOTP(key=key, format="raw", digits=digits)
        gen = TokenMap(key, digits)
        t = rng.randrange(0, 2**36)
        good = gen(t // 30)
        bads = ["", " ", "-", good[:-1], good + "0", "0" + good, good[1:], good * 2, good[: digits - 6], "1" * (digits + 3), 10**digits, 10**digits + 5, int("9" * (digits + 1))]
        bads += [good[:p] + ch + good[p + 1 :] for p in range(digits) for ch in "aA.+,x_/"]
        bads += [good + "a", "+" + good[1:], good[:-2] + ".5", good.encode()[:-1], (good + "1").encode(), b"abcdef"[:6].ljust(digits, b"z"), good[:3] + " " + good[3:-1], good[:3] + "-" + good[3:] + "7"]
        for bad in bads:
            for window, last in ((30, None), (0, None), (30, t // 30 + 50)):
                g.case((digits, repr(bad), window, last))
                want = spec_match(gen, digits, 30, bad, t, window, 0, last)
                assert want == ("malformed",), (bad, want)
                got, _ = real_match(obj, bad, t, window, 0, last)
                g.check(got == want, "malformed:not-reported", "a code of the wrong length / with non-digit characters is not reported as MalformedTokenError", {"digits": digits, "token": repr(bad), "time": t, "window": window, "last_counter": last, "got": repr(got)})
        # good code in every decoration is accepted
        for form in FORMS:
            tok = render(good, form)
            g.case((digits, "good", form))
            got, _ = real_match(obj, tok, t, 0, 0, None)
            want = spec_match(gen, digits, 30, tok, t, 0, 0, None)
            g.check(got == want and got[0] == "ok", "malformed:good-code-refused", "the correct code in an admissible notation is not accepted", {"digits": digits, "token": repr(tok), "time": t, "got": repr(got), "want": repr(want)})
        # never accepted, whatever the classification: negative integers, non-ASCII digits
        for odd in (-int(good[1:] or "1") or -1, "".join(chr(0x0660 + int(c)) for c in good), "".join(chr(0xFF10 + int(c)) for c in good)):
            g.case((digits, "odd", repr(odd)))
            got, _ = real_match(obj, odd, t, 30, 0, None)
            g.check(got[0] in ("malformed", "invalid"), "malformed:odd-code-accepted", "a negative integer / non-ASCII digit string was not refused with a TokenError", {"digits": digits, "token": repr(odd), "got": repr(got)})
        for wrong in (None, 1.5, float(int(good)), [good], (good,)):
            g.case((digits, "type", repr(wrong)))
            got, _ = real_match(obj, wrong, t, 30, 0, None)
            g.check(got[0] == "raised" and got[1] in ("TypeError", "ExpectedStringError", "ExpectedTypeError"), "malformed:token-type", "a token of a wrong type is not refused with TypeError", {"token": repr(wrong), "got": repr(got)})
        for window, names in ((-1, ("ValueError",)), (-30, ("ValueError",)), (1.5, ("TypeError", "ExpectedTypeError")), ("30", ("TypeError", "ExpectedTypeError")), (None, ("TypeError", "ExpectedTypeError"))):
            g.case((digits, "window", repr(window)))
            got, _ = real_match(obj, good, t, window, 0, None)
            g.check(got[0] == "raised" and got[1] in names, "malformed:window", "negative / non-integer window not refused", {"window": repr(window), "got": repr(got)})
    o = [issubclass(c, exc.TokenError) and issubclass(c, ValueError) for c in (exc.MalformedTokenError, exc.InvalidTokenError, exc.UsedTokenError)]
    g.check(all(o), "exc:hierarchy", "token errors are not TokenError/ValueError subclasses", {"flags": o})
    groups.append(g.done())

    return groups, [], stats


if __name__ == "__main__":
    main(build)
