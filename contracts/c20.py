"""C20 -- libpass hashers and classic passlib hashers understand each other."""
from contracts import shacrypt
from contracts.c04 import CONTRACTS as _C04
from pyvc.runner import Bounded, Finite

LEVEL = "other"
EXPLANATION = (
    "Cross verification passlib <-> libpass on grids (bounded stand-in): six formats x passwords x non-empty salts x "
    "costs, each direction, equal digests, independent oracle, identify-own-format, needs_update, scheme lists of "
    "length 1..3. Proved part: the libpass CryptContext contracts (hash with the first scheme, verify with any, update "
    "asked exactly for hashes not in the first scheme's format; shared with C04) in the quick tier; in the thorough tier "
    "both SHA-crypt cores (passlib's _raw_sha2_crypt and libpass' _sha_crypt) are verified from their real source to "
    "compute the same published schedule over the same abstract hash, hence agree for every password, salt and round "
    "count; the two copies of the schedule / transposition tables are identical (finite)."
)
ASSUMPTIONS = [
    "hash objects: view = bytes absorbed, update appends, digest() = H(view) (hashlib contract)",
    "bcrypt, hashlib and base64 are trusted oracles of the bounded comparison",
]
CONTRACTS = [c for c in _C04 if c.id.startswith("libpass.CryptContext")] + [shacrypt.passlib_contract("C20", False), shacrypt.libpass_contract("C20")]
FINITE = [Finite("sha-crypt-tables-identical", shacrypt.tables_equal, "passlib and libpass carry identical _c_digest_offsets / transposition tables")]
from contracts import c20_libpass  # noqa: E402

CONTRACTS += c20_libpass.CONTRACTS
from contracts import c12_extra as _c12x  # noqa: E402

CONTRACTS += [c for c in _c12x.CONTRACTS if c.id.startswith(("ab64_decode[", "b64s_decode["))]  # both packages decode each other's salts
LEMMAS = c20_libpass.LEMMAS
MUTANTS = c20_libpass.MUTANTS
BOUNDED = [Bounded("c20", "harness/c20.py", descr="cross verification passlib <-> libpass on grids", timeout=900)]

from contracts import c01 as _c01sc  # noqa: E402

CONTRACTS += [c for c in _c01sc.CONTRACTS if c.id.startswith("safe_crypt[")]  # undecodable bytes -> None -> the built-in implementation takes over
