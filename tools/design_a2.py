#!/usr/bin/env python3
"""Rewrite table A.2 of DESIGN.md (between the A2-TABLE markers) from the committed evidence files: functions under contract,
obligation counts, back ends, bounded groups and level -- so that the document states what the last run actually covered."""
import json, os, re
V = os.path.dirname(os.path.dirname(os.path.abspath(__file__)))
rows = ["| id | functions under contract (real source, re-read every run) | obligations: discharged / refuted (known findings) / undecided; back ends | finite complete checks | bounded stand-in groups (cases) | level |", "|----|----|----|----|----|----|"]
for n in list(range(1, 19)) + [20]:
    pid = f"C{n:02d}"
    p = f"{V}/evidence/{pid}.json"
    if not os.path.exists(p):
        continue
    e = json.load(open(p)); c = e["coverage"]
    fns = []
    for f in c.get("functions_under_contract", []):
        name = f.get("function", "")
        short = name.split("::")[-1] if "::" in name else name
        if short and short not in fns:
            fns.append(short)
    # compress long lists (C08): group by method name
    if len(fns) > 28:
        from collections import Counter
        cnt = Counter(x.split(".")[-1] for x in fns)
        head = [f"{k} x{v}" if v > 1 else k for k, v in cnt.most_common(14)]
        fl = f"{len(fns)} function bodies: " + ", ".join(head) + ", ..."
    else:
        fl = ", ".join(f"`{x}`" for x in fns) or "-"
    be = ", ".join(f"{k} {v}" for k, v in sorted((c.get("backends") or {}).items()))
    ob = f"{c.get('discharged', 0)} / {len(c.get('refuted') or [])} / {len(c.get('undecided') or [])}; {be}"
    fin = "; ".join(f"{os.path.basename(f['name'])} ({f.get('cases')})" for f in c.get("finite") or []) or "-"
    groups = [g for g in (c.get("bounded") or []) if "cases" in g]
    if len(groups) > 8:
        bg = f"{len(groups)} groups, {sum(g.get('cases', 0) for g in groups)} cases: " + "; ".join(g["name"] for g in groups[:6]) + "; ..."
    else:
        bg = "; ".join(f"{g['name']} ({g.get('cases', '?')})" for g in groups)
    rows.append(f"| {pid} | {fl} | {ob} | {fin} | {bg or '-'} | {e.get('level')} |")
rows.append("| C19 | not applicable (thread schedules) | - | - | - | - |")
table = "\n".join(rows)
p = f"{V}/DESIGN.md"; s = open(p).read()
if "<!-- A2-TABLE-BEGIN -->" in s:
    s = re.sub(r"<!-- A2-TABLE-BEGIN -->.*?<!-- A2-TABLE-END -->", lambda m: "<!-- A2-TABLE-BEGIN -->\n" + table + "\n<!-- A2-TABLE-END -->", s, flags=re.S)
else:
    a = s.index("| id | functions under contract (proved for all inputs unless noted)")
    b = s.index("\n\n", s.index("| C20 |", a))
    s = s[:a] + "<!-- A2-TABLE-BEGIN -->\n" + table + "\n<!-- A2-TABLE-END -->" + s[b:]
open(p, "w").write(s)
print(len(rows) - 2, "rows")
