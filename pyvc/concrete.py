"""pyvc.concrete -- complete finite checks: the REAL function text (extracted from /repo on every run, decorators
dropped) is compiled into a closed namespace of stubs and executed on every value of a finite input space."""
import ast

from . import extract


def load_function(target, namespace):
    """compile the function named by 'relpath::qualname' with the given globals; returns the python callable"""
    info = extract.find(target)
    import copy

    node = copy.deepcopy(info.node)
    node.decorator_list = []
    src = ast.unparse(node)  # the function's own text, decorators dropped (docstring/comments irrelevant to execution)
    mod = ast.parse(src)
    ns = dict(namespace)
    exec(compile(mod, f"<{target}>", "exec"), ns)  # noqa: S102 - closed namespace, repository code under check
    return ns[node.name], info
