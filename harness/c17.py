import json
"""Bounded stand-in for C17: every shipped context recognises the hashes of each of its own schemes;
the registry loads a hasher carrying the requested name and passlib.hash exposes that same object.

Oracle: the property statement itself (ctx.identify(h) == name of the scheme that made h; ctx.verify true for the
password and false for another one).  Hashes are made by the registry handler of the scheme (all idents, salt sizes,
with/without optional fields, minimum rounds) and by the handler as configured in the context.
"""
import re

from common import Group, main, outcome

PW = "pw-C17!"
WRONG = ["pw-C17?", ""]

#: pairs (attributed scheme, making scheme) whose hash languages overlap *by design*: the hash string carries no
#: mark that tells them apart, so a context listing both can only attribute such a string to the first one listed.
#: Excluded from the attribution/verification check wherever they occur, reported in the group's domain text.
AMBIGUOUS_BY_DESIGN = {
    ("hex_md4", "hex_md5"): "both are 32 lower-case hex digits",
    ("hex_md5", "hex_md4"): "both are 32 lower-case hex digits",
    ("dlitz_pbkdf2_sha1", "cta_pbkdf2_sha1"): "both use the $p5k2$ prefix; cta only differs by its base64 alphabet (-_ vs ./)",
    ("cta_pbkdf2_sha1", "dlitz_pbkdf2_sha1"): "both use the $p5k2$ prefix; cta only differs by its base64 alphabet (-_ vs ./)",
}


def done(g):
    res = g.out()
    g.out = lambda: res
    return g


def usable(handler):
    if getattr(handler, "backends", None):
        return any(outcome(handler.has_backend, b) == ("ok", True) for b in handler.backends)
    return True


def min_rounds_of(h):
    m = getattr(h, "min_rounds", None)
    if m is None:
        return None
    return max(m, 1) if getattr(h, "rounds_cost", "linear") == "linear" else m


def is_catch_all(h):
    """a scheme that accepts arbitrary text as one of its hashes (classification of a failure only)"""
    junk = ["x", "zzzz zzzz", "$1$abc", "0123456789abcdef" * 2, "{SHA}abc", "a:b"]
    return sum(outcome(h.identify, j) == ("ok", True) for j in junk) >= 4


def variants(name, h, skipped, tier):
    """yield (variant label, hash, ctx kwds) for password PW"""
    setting = getattr(h, "setting_kwds", ())
    ckw = getattr(h, "context_kwds", ())
    kw = {}
    if "user" in ckw:
        kw["user"] = "user17"
    if "realm" in ckw:
        kw["realm"] = "realm17"
    mr = min_rounds_of(h) if "rounds" in setting else None
    recipes = []

    def add(label, fn, kwds=None):
        recipes.append((label, fn, kw if kwds is None else kwds))

    def base(**extra):
        opts = dict(extra)
        if mr is not None and "rounds" not in opts:
            opts["rounds"] = mr
        return h.using(**opts) if opts else h

    add("default", lambda: base().hash(PW, **kw))
    if name in ("cisco_asa", "cisco_pix"):
        add("no-user", lambda: base().hash(PW), {})
    # a prefix wrapper lists prefixed idents but takes the wrapped hasher's ident values
    idents = getattr(getattr(h, "wrapped", h), "ident_values", None)
    if idents and "ident" in setting:
        for ident in idents:
            add(f"ident={ident}", lambda ident=ident: base(ident=ident).hash(PW, **kw))
    if "salt_size" in setting:
        lo = h.min_salt_size
        hi = min(h.max_salt_size or 32, 32)
        for size in sorted({lo, hi, h.default_salt_size}):
            add(f"salt_size={size}", lambda size=size: base(salt_size=size).hash(PW, **kw))
    if mr is not None:
        linear = getattr(h, "rounds_cost", "linear") == "linear"
        other = {mr + 1, (mr + 7) if linear else (mr + 1)}
        if name.endswith(("sha256_crypt", "sha512_crypt")):
            other |= {5000, 999999 if tier == "thorough" else 5001}
        if name.endswith("sun_md5_crypt"):
            other |= {0}
        for r in sorted(other):
            add(f"rounds={r}", lambda r=r: base(rounds=r).hash(PW, **kw))
    extra = {
        "scram": [dict(algs="sha-1"), dict(algs="sha-1,sha-256,sha-512"), dict(algs="sha-1,md5")],
        "fshp": [dict(variant=v) for v in (0, 1, 2, 3)],
        "scrypt": [dict(block_size=1), dict(block_size=8, parallelism=2), dict(ident="$7$", salt_size=0)],
    }
    for opts in extra.get(name, []):
        add(",".join(f"{k}={v}" for k, v in opts.items()), lambda opts=opts: base(**opts).hash(PW, **kw))
    if name == "sun_md5_crypt":
        # "$md5$salt$digest" (bare salt) next to the default "$md5$salt$$digest"; no using() option exists for it

        def bare(r):
            obj = h(use_defaults=True, bare_salt=True, rounds=r)
            obj.checksum = obj._calc_checksum(PW)
            return obj.to_string()

        for r in (0, 3):
            add(f"bare_salt,rounds={r}", lambda r=r: bare(r))
    for label, fn, kwds in recipes:
        o = outcome(fn)
        if o[0] != "ok":
            skipped.append(f"{name} [{label}]: not generated ({o[1]}: {o[2][:60]})")
            continue
        yield label, o[1], kwds
        # the optional "rounds=" field of sha-crypt made explicit / and the salt made empty: same algorithm per the
        # SHA-crypt specification, so the string is still a hash of this scheme for this password
        m = re.match(r"^(.*\$[56]\$)([^$=]*)\$([^$]+)$", o[1]) if name.endswith(("sha256_crypt", "sha512_crypt")) else None
        if m:
            yield label + "+explicit-rounds", f"{m.group(1)}rounds=5000${m.group(2)}${m.group(3)}", kwds


def collect_contexts(skipped):
    """[(label, context)] for everything the library exports ready-made"""
    from passlib.context import CryptContext
    import passlib.apache
    import passlib.apps
    import passlib.hosts

    out = []
    for mod in (passlib.apps, passlib.hosts, passlib.apache):
        for k, v in sorted(vars(mod).items()):
            if isinstance(v, CryptContext) and not k.startswith("_"):
                out.append((f"{mod.__name__.split('.', 1)[1]}.{k}", v))
    try:
        import passlib.ext.django.utils as dju

        out.append(("ext.django.PASSLIB_DEFAULT", CryptContext.from_string(dju.PASSLIB_DEFAULT)))
        for preset in ("passlib-default", "django-default", "django-latest", "django-1.0", "django-1.4", "django-1.6"):
            o = outcome(dju.get_preset_config, preset)
            if o[0] == "ok":
                out.append((f"ext.django.preset:{preset}", CryptContext.from_string(o[1])))
            else:
                skipped.append(f"ext.django preset {preset}: {o[1]}: {o[2]}")
        o = outcome(lambda: dju.DjangoContextAdapter().context)
        if o[0] == "ok" and isinstance(o[1], CryptContext) and outcome(lambda: o[1].schemes())[1]:
            out.append(("ext.django.DjangoContextAdapter().context", o[1]))
        else:
            skipped.append("ext.django DjangoContextAdapter(): default context is empty / unavailable without a configured Django")
    except Exception as err:  # noqa: BLE001
        skipped.append(f"passlib.ext.django.utils: {type(err).__name__}: {str(err)[:80]}")
    return out


def build(tier, rng):
    from passlib import registry
    import passlib.hash as phash

    skipped = []
    host = {}
    groups = []

    # ------------------------------------------------------------------ registry
    g = Group(
        "registry-names",
        "registry.get_crypt_handler",
        "every name of registry.list_crypt_handlers(): get_crypt_handler(name).name == name, same object on a second lookup, "
        "getattr(passlib.hash, name) is that object, `from passlib.hash import name` too; every scheme name of every exported context is "
        "a registry name and ctx.handler(name).name == name; unknown names raise KeyError / AttributeError",
    )
    names = list(registry.list_crypt_handlers())
    host["registry_names"] = len(names)
    handlers = {}
    for name in names:
        g.case(name)
        o = outcome(registry.get_crypt_handler, name)
        if not g.check(o[0] == "ok", f"registry:load:{name}", "registered name does not load", {"name": name, "outcome": repr(o)}):
            continue
        h = o[1]
        handlers[name] = h
        g.check(getattr(h, "name", None) == name, f"registry:name:{name}", "loaded hasher carries a different name", {"name": name, "got": getattr(h, "name", None)})
        g.check(registry.get_crypt_handler(name) is h, f"registry:stable:{name}", "second lookup returns a different object", {"name": name})
        o2 = outcome(getattr, phash, name)
        g.check(o2[0] == "ok" and o2[1] is h, f"registry:passlib.hash:{name}", "passlib.hash.<name> is not the registry object", {"name": name, "outcome": repr(o2)[:120]})
        ns = {}
        o3 = outcome(exec, f"from passlib.hash import {name} as X", ns)
        g.check(o3[0] == "ok" and ns.get("X") is h, f"registry:import:{name}", "from passlib.hash import <name> gives another object", {"name": name, "outcome": repr(o3)[:120]})
        g.check(name in dir(phash), f"registry:dir:{name}", "name missing from dir(passlib.hash)", {"name": name})
    g.check(names == sorted(set(names)), "registry:list", "list_crypt_handlers() not sorted/unique", {"names": names})
    for bad in ("no_such_scheme_c17", "SHA256_CRYPT ", ""):
        g.case(("unknown", bad))
        o = outcome(registry.get_crypt_handler, bad)
        g.check(o[0] == "exc" and o[1] == "KeyError", "registry:unknown", "unknown name did not raise KeyError", {"name": bad, "outcome": repr(o)})
        g.check(registry.get_crypt_handler(bad, None) is None, "registry:unknown-default", "default not returned for an unknown name", {"name": bad})
    o = outcome(getattr, phash, "no_such_scheme_c17")
    g.check(o[0] == "exc" and o[1] == "AttributeError", "registry:unknown-attr", "passlib.hash.<unknown> did not raise AttributeError", {"outcome": repr(o)})

    loaded = []
    for label, ctx in collect_contexts(skipped):
        o = outcome(lambda: ctx.schemes())  # attribute access alone triggers the lazy load
        g.case((label, "load"))
        if g.check(o[0] == "ok", f"context:load:{label}", "exported context cannot be loaded", {"context": label, "outcome": repr(o)}):
            loaded.append((label, ctx))
    contexts = loaded
    host["contexts"] = {label: list(ctx.schemes()) for label, ctx in contexts}
    for label, ctx in contexts:
        for sch in ctx.schemes():
            g.case((label, sch))
            g.check(sch in handlers, f"registry:context-scheme:{sch}", "context lists a scheme that is not a registry name", {"context": label, "scheme": sch})
            o = outcome(ctx.handler, sch)
            g.check(o[0] == "ok" and getattr(o[1], "name", None) == sch, f"registry:context-handler:{sch}", "ctx.handler(scheme) carries a different name", {"context": label, "scheme": sch, "outcome": repr(o)[:120]})
    groups.append(done(g))

    # ------------------------------------------------------------------ hashes per scheme (cached across contexts)
    cache = {}

    def hashes_of(name):
        if name not in cache:
            h = handlers[name]
            if not usable(h):
                skipped.append(f"{name}: no backend on this host")
                cache[name] = None
            else:
                cache[name] = list(variants(name, h, skipped, tier))
        return cache[name]

    # ------------------------------------------------------------------ contexts
    g = Group(
        "context-attribution",
        "CryptContext.identify/verify (shipped contexts)",
        "",
    )
    excluded = {}
    for label, ctx in contexts:
        schemes = list(ctx.schemes())
        for sch in schemes:
            h = handlers.get(sch)
            if h is None:
                continue
            hs = hashes_of(sch)
            if hs is None:
                continue
            items = [(f"registry:{v}", hv, kw) for v, hv, kw in hs]
            # the handler as configured inside the context (ident, rounds policy); costly defaults only in thorough
            ch = ctx.handler(sch)
            mr = min_rounds_of(ch) if "rounds" in getattr(ch, "setting_kwds", ()) else None
            cheap_cfg = outcome(ch.using, rounds=mr) if mr is not None else ("ok", ch)
            if cheap_cfg[0] == "ok":
                ch2 = cheap_cfg[1]
                dr = getattr(ch2, "default_rounds", None)
                costly = mr is not None and dr is not None and (dr > 20000 if getattr(ch2, "rounds_cost", "linear") == "linear" else dr > 8)
                if tier == "thorough" or not costly:
                    kw = {"user": "user17"} if "user" in getattr(ch, "context_kwds", ()) else {}
                    o = outcome(ch2.hash, PW, **kw)
                    if o[0] == "ok":
                        items.append(("context-handler", o[1], kw))
                    else:
                        skipped.append(f"{label}/{sch}: context handler hash failed ({o[1]})")
                else:
                    skipped.append(f"{label}/{sch}: context-configured handler only in thorough tier (policy forces {dr} rounds)")
            if tier == "thorough" and not getattr(h, "is_disabled", False):
                kw = {"user": "user17"} if "user" in getattr(ch, "context_kwds", ()) else {}
                o = outcome(lambda: ctx.handler(sch).hash(PW, **kw))
                if o[0] == "ok":
                    items.append(("context-default-cost", o[1], kw))
            for vlabel, hv, kw in items:
                g.case((label, sch, vlabel, hv))
                w = {"context": label, "schemes": schemes, "scheme": sch, "variant": vlabel, "hash": hv, "kwds": kw}
                o = outcome(ctx.identify, hv)
                got = o[1] if o[0] == "ok" else None
                if got != sch:
                    if o[0] == "ok" and (got, sch) in AMBIGUOUS_BY_DESIGN:
                        excluded.setdefault((got, sch), set()).add(label)
                        continue
                    earlier = handlers.get(got)
                    if earlier is not None and is_catch_all(earlier):
                        g.fail(f"shadow:{label}:{got}>{sch}", "catch-all scheme listed earlier claims the hashes of a real scheme of the same context", dict(w, identified=got))
                    else:
                        g.fail(f"attribution:{label}:{sch}->{got}", "hash made by a scheme of the context is not attributed to that scheme", dict(w, outcome=repr(o)))
                    continue
                if getattr(h, "is_disabled", False):
                    o = outcome(ctx.verify, PW, hv, **kw)
                    g.check(o == ("ok", False), f"verify:disabled:{sch}", "disabled hasher verified a password", dict(w, outcome=repr(o)))
                    continue
                for secret in (PW, PW.encode()):
                    o = outcome(ctx.verify, secret, hv, **kw)
                    g.check(o == ("ok", True), f"verify:right:{label}:{sch}", "context does not verify the password against a hash of its own scheme", dict(w, secret=repr(secret), outcome=repr(o)))
                for wrong in WRONG:
                    o = outcome(ctx.verify, wrong, hv, **kw)
                    g.check(o == ("ok", False), f"verify:wrong:{label}:{sch}", "context verifies a wrong password", dict(w, secret=wrong, outcome=repr(o)))
                # bytes hash is attributed the same way
                o = outcome(ctx.identify, hv.encode("utf-8"))
                g.check(o == ("ok", sch), f"attribution-bytes:{label}:{sch}", "bytes form of the hash attributed differently", dict(w, outcome=repr(o)))
        # the EMPTY password: its hash under a wrapper scheme can be the bare prefix ({plaintext} for roundup / ldap plaintext)
        for sch in schemes:
            h = handlers.get(sch)
            if h is None or getattr(h, "is_disabled", False):
                continue
            ch = ctx.handler(sch)
            mr = min_rounds_of(ch) if "rounds" in getattr(ch, "setting_kwds", ()) else None
            cfg = outcome(ch.using, rounds=mr) if mr is not None else ("ok", ch)
            if cfg[0] != "ok":
                continue
            dr = getattr(cfg[1], "default_rounds", None)
            if tier != "thorough" and mr is not None and dr is not None and (dr > 20000 if getattr(cfg[1], "rounds_cost", "linear") == "linear" else dr > 8):
                continue
            kw = {"user": "user17"} if "user" in getattr(ch, "context_kwds", ()) else {}
            o = outcome(cfg[1].hash, "", **kw)
            if o[0] != "ok":
                continue  # a scheme refusing the empty password (C01's business)
            hv = o[1]
            g.case((label, sch, "empty-password", hv))
            w = {"context": label, "schemes": schemes, "scheme": sch, "variant": "empty password", "hash": hv, "kwds": kw}
            o = outcome(ctx.identify, hv)
            got = o[1] if o[0] == "ok" else None
            if got != sch:
                if o[0] == "ok" and ((got, sch) in AMBIGUOUS_BY_DESIGN or (handlers.get(got) is not None and is_catch_all(handlers[got]) and schemes.index(got) < schemes.index(sch))):
                    continue
                if hv == "" or (o[0] == "ok" and got is not None and outcome(ctx.verify, "", hv, **kw) == ("ok", True)):
                    continue  # an empty string / a hash another scheme of the context legitimately claims and verifies
                g.fail(f"attribution-empty:{label}:{sch}->{got}", "hash of the empty password made by a scheme of the context is not attributed to that scheme", dict(w, outcome=repr(o)))
                continue
            o = outcome(ctx.verify, "", hv, **kw)
            g.check(o == ("ok", True), f"verify:empty:{label}:{sch}", "context does not verify the empty password against its own scheme's hash of it", dict(w, outcome=repr(o)))
        # catch-all schemes never shadow: everything listed after one is still attributed to itself (covered above);
        # additionally an unknown-format string is attributed to nothing unless a catch-all is present
        g.case((label, "junk"))
        o = outcome(ctx.identify, "\x01not-a-hash\x02")
        catch = [s for s in schemes if s in handlers and is_catch_all(handlers[s])]
        if not catch:
            g.check(o == ("ok", None), f"junk:{label}", "junk string attributed to a scheme although the context has no catch-all", {"context": label, "outcome": repr(o)})
    amb = "; ".join(f"{a} claims {b} ({AMBIGUOUS_BY_DESIGN[(a, b)]}) in {', '.join(sorted(ls))}" for (a, b), ls in sorted(excluded.items()))
    g.domain = (
        "all exported contexts (passlib.apps *, passlib.hosts *, passlib.apache.htpasswd_context, passlib.ext.django.utils PASSLIB_DEFAULT + "
        "get_preset_config presets + DjangoContextAdapter default) x every scheme of ctx.schemes() x hashes of the registry handler at minimum "
        "rounds (default, every ident, salt_size min/default/max(<=32), 2-4 rounds values incl. sha-crypt implicit rounds=5000 and the same hash "
        "with the rounds field spelled out, scram algs, sun_md5 bare salt, fshp variants, scrypt idents/params, cisco with/without user) + the "
        "handler as configured in the context (quick: only when its policy allows cheap rounds; thorough: also default cost) x right password "
        "(str, bytes) / 2 wrong ones; context kwds (user=) supplied where the scheme needs them; schemes without backend skipped (see skipped). "
        "Excluded as indistinguishable by design (earlier scheme claims later scheme's hashes, earlier one is not a catch-all): "
        + (amb or "none met")
    )
    groups.append(done(g))
    host["catch_all_schemes"] = sorted(n for n, h in handlers.items() if is_catch_all(h))
    host["os_crypt_schemes"] = list(registry.get_supported_os_crypt_schemes())
    host["no_backend"] = sorted(n for n, h in handlers.items() if not usable(h))
    # ---- import order must not matter: the shared os_crypt scheme list is used by hosts.py and apache.py
    import subprocess
    import sys as _sys

    g = Group("import-order-independence", "get_supported_os_crypt_schemes (shared cache)", "fresh interpreters: passlib.hosts imported before / after passlib.apache; scheme lists of htpasswd_context and host_context must be identical")
    prog = "import warnings; warnings.simplefilter('ignore')\n{first}\n{second}\nimport json, passlib.apache as a, passlib.hosts as h, passlib.registry as r\nprint(json.dumps([list(a.htpasswd_context.schemes()), list(h.host_context.schemes()) if hasattr(h, 'host_context') else [], list(r.get_supported_os_crypt_schemes())]))"
    outs = []
    for first, second in (("import passlib.apache", "import passlib.hosts; passlib.hosts.host_context.schemes() if hasattr(passlib.hosts, 'host_context') else None"), ("import passlib.hosts; passlib.hosts.host_context.schemes() if hasattr(passlib.hosts, 'host_context') else None", "import passlib.apache")):
        o = subprocess.run([_sys.executable, "-c", prog.format(first=first, second=second)], capture_output=True, text=True, timeout=120)
        g.case(first[:24])
        outs.append(o.stdout.strip().splitlines()[-1] if o.stdout.strip() else "ERR " + o.stderr[-200:])
    g.check(len(outs) == 2 and outs[0] == outs[1] and not outs[0].startswith("ERR"), "import-order:scheme-lists-differ", "scheme lists depend on whether passlib.hosts or passlib.apache is imported first", {"apache_first": outs[0][:300], "hosts_first": outs[1][:300] if len(outs) > 1 else None})
    groups.append(done(g))
    # ---- the first hash a shipped context hands out in a fresh interpreter belongs to its default scheme and verifies there
    g = Group("first-use-of-every-context", "CryptContext.hash/verify (lazy backend loading)", "fresh interpreter per exported context of passlib.apps / passlib.hosts (default scheme usable on this host; costs as shipped): "
              "the first hash made is attributed to the context's default scheme and verifies the password (and not another one) through the same context")
    prog3 = (
        "import warnings, json, sys; warnings.simplefilter('ignore')\n"
        "import importlib\n"
        "mod = importlib.import_module(sys.argv[1]); ctx = getattr(mod, sys.argv[2])\n"
        "out = {}\n"
        "try:\n"
        "    kw = {'user': 'u'} if 'user' in (getattr(ctx.handler(), 'context_kwds', ()) or ()) else {}\n"
        "    h = ctx.hash('pw', **kw)\n"
        "    out = {'default': ctx.default_scheme(), 'identified': ctx.identify(h), 'ok': ctx.verify('pw', h, **kw), 'wrong': ctx.verify('pw2', h, **kw)}\n"
        "except Exception as e: out = {'error': type(e).__name__ + ': ' + str(e)[:100]}\n"
        "print(json.dumps(out))"
    )
    from concurrent.futures import ThreadPoolExecutor

    targets = []
    import passlib.apps as apps
    import passlib.hosts as hosts
    from passlib.context import CryptContext

    for modname, mod in (("passlib.apps", apps), ("passlib.hosts", hosts)):
        for k, v in sorted(vars(mod).items()):
            if isinstance(v, CryptContext) and not k.startswith("_"):
                try:
                    d = v.default_scheme()
                    if usable(registry.get_crypt_handler(d)) and not getattr(registry.get_crypt_handler(d), "is_disabled", False):
                        targets.append((modname, k))
                except Exception:  # noqa: BLE001
                    pass

    def _run3(t):
        o = subprocess.run([_sys.executable, "-c", prog3, t[0], t[1]], capture_output=True, text=True, timeout=600)
        try:
            return t, json.loads(o.stdout.strip().splitlines()[-1])
        except Exception:  # noqa: BLE001
            return t, {"error": (o.stderr or o.stdout)[-200:]}

    with ThreadPoolExecutor(8) as ex:
        for t, res in ex.map(_run3, targets):
            g.case(t)
            w = {"context": ".".join(t), "child": res}
            if not g.check("error" not in res, f"context-first-use:{t[1]}:error", "first use of the context in a fresh interpreter raised", w):
                continue
            g.check(res["identified"] == res["default"], f"context-first-use:{t[1]}:attribution", "the first hash is not attributed to the default scheme", w)
            g.check(res["ok"] is True and res["wrong"] is False, f"context-first-use:{t[1]}:verify", "the first hash handed out by the context does not verify its password through the context", w)
    groups.append(done(g))
    # ---- a plaintext-like entry given as bytes in a legacy 8-bit encoding is still attributed and verified
    g = Group("legacy-encoded-plaintext", "to_unicode_for_identify / CryptContext.identify", "contexts whose list ends in a catch-all (htpasswd_context, ldap_context, ldap_nocrypt_context, custom [md5_crypt, plaintext]) x passwords "
              "with non-ASCII characters given as latin-1 / cp1252 bytes: identify names the catch-all scheme, verify(bytes, bytes) is True, no exception")
    legacy = []
    try:
        import passlib.apache as _ap
        legacy.append(("apache.htpasswd_context", _ap.htpasswd_context, "plaintext", lambda b: b))
    except Exception:  # noqa: BLE001
        pass
    for nm in ("ldap_context", "ldap_nocrypt_context"):
        if hasattr(apps, nm):
            legacy.append((f"apps.{nm}", getattr(apps, nm), "ldap_plaintext", lambda b: b))
    legacy.append(("custom[md5_crypt,plaintext]", CryptContext(["md5_crypt", "plaintext"]), "plaintext", lambda b: b))
    for label, ctx, want, mk in legacy:
        for pwb in (b"p\xe4ssw\xf6rd", b"caf\xe9", b"\xff\xfe", b"na\xefve \x80uro"):
            g.case((label, pwb.hex()))
            w = {"context": label, "hash_bytes_hex": pwb.hex()}
            o = outcome(ctx.identify, mk(pwb))
            g.check(o == ("ok", want), f"legacy-bytes:{want}:identify", "a legacy-encoded plaintext entry is not attributed to the catch-all scheme", dict(w, outcome=repr(o)[:160]))
            if "encoding" in (getattr(registry.get_crypt_handler(want), "context_kwds", ()) or ()):
                # the scheme reads the entry with the encoding the caller names (e.g. a latin-1 htpasswd file)
                o = outcome(ctx.verify, pwb, mk(pwb), encoding="latin-1")
                g.check(o == ("ok", True), f"legacy-bytes:{want}:verify", "a legacy-encoded plaintext entry does not verify its own bytes", dict(w, outcome=repr(o)[:160]))
                o = outcome(ctx.verify, pwb + b"x", mk(pwb), encoding="latin-1")
                g.check(o == ("ok", False), f"legacy-bytes:{want}:verify-wrong", "another password verifies against a legacy-encoded plaintext entry", dict(w, outcome=repr(o)[:160]))
    groups.append(done(g))
    # ---- legacy spellings are look-up aliases only: they never become registry names
    g = Group("alias-lookups-leave-the-registry-alone", "registry.get_crypt_handler", "fresh interpreter: every registry name looked up twice under its upper-case / hyphenated spelling (before and after the canonical "
              "look-up): list_crypt_handlers() is unchanged, every listed name loads a hasher of that name, apps.master_context still builds")
    prog2 = (
        "import warnings, json; warnings.simplefilter('ignore')\n"
        "from passlib import registry as r\n"
        "before = sorted(r.list_crypt_handlers())\n"
        "bad = []\n"
        "for n in before[::2]:\n"
        "    for spelling in (n.upper().replace('_', '-'), n.replace('_', '-'), n.title()):\n"
        "        for _ in (1, 2):\n"
        "            try: h = r.get_crypt_handler(spelling)\n"
        "            except Exception as e: bad.append([spelling, type(e).__name__]); continue\n"
        "            if h.name != n: bad.append([spelling, h.name])\n"
        "after = sorted(r.list_crypt_handlers())\n"
        "wrong = [x for x in after if getattr(r.get_crypt_handler(x, None), 'name', x) != x]\n"
        "try:\n"
        "    import passlib.apps as apps; apps.master_context.schemes(); ctx = 'ok'\n"
        "except Exception as e: ctx = type(e).__name__ + ': ' + str(e)[:80]\n"
        "print(json.dumps({'added': sorted(set(after) - set(before)), 'removed': sorted(set(before) - set(after)), 'wrong': wrong, 'bad': bad[:5], 'master_context': ctx, 'n': len(before)}))"
    )
    o = subprocess.run([_sys.executable, "-c", prog2], capture_output=True, text=True, timeout=300)
    try:
        res = json.loads(o.stdout.strip().splitlines()[-1])
    except Exception:  # noqa: BLE001
        res = {"error": (o.stderr or o.stdout)[-300:]}
    g.case("alias-sweep")
    g.check("error" not in res, "alias-lookup:crashed", "the alias sweep crashed", res)
    if "error" not in res:
        g.check(not res["added"] and not res["removed"], "alias-lookup:registry-names-changed", "alias look-ups changed list_crypt_handlers()", res)
        g.check(not res["wrong"], "alias-lookup:name-mismatch", "a registry name loads a hasher with a different name", res)
        g.check(res["master_context"] == "ok", "alias-lookup:context-broken", "apps.master_context no longer builds after alias look-ups", res)
        g.check(not res["bad"], "alias-lookup:resolution", "a legacy spelling did not resolve to its canonical hasher", res)
    groups.append(done(g))
    return groups, sorted(set(skipped)), host


if __name__ == "__main__":
    main(build)
