"""Plain-digest and database / network-device formats, written from their public descriptions.
Only hashlib/base64; shares nothing with passlib."""
import base64
import hashlib

H64 = "./0123456789ABCDEFGHIJKLMNOPQRSTUVWXYZabcdefghijklmnopqrstuvwxyz"


def hex_digest(alg, pw):
    return hashlib.new(alg, pw).hexdigest()


def _b64(d):
    return base64.b64encode(d).decode("ascii")


def ldap_md5(pw):
    return "{MD5}" + _b64(hashlib.md5(pw).digest())


def ldap_sha1(pw):
    return "{SHA}" + _b64(hashlib.sha1(pw).digest())


LDAP_SALTED = {"md5": "{SMD5}", "sha1": "{SSHA}", "sha256": "{SSHA256}", "sha512": "{SSHA512}"}


def ldap_salted(alg, pw, salt):
    """RFC 2307 / OpenLDAP: prefix + base64(H(pw + salt) + salt)"""
    return LDAP_SALTED[alg] + _b64(hashlib.new(alg, pw + salt).digest() + salt)


def mssql2000(pw, salt):
    p = pw.encode("utf-16-le")
    return "0x0100" + (salt + hashlib.sha1(p + salt).digest() + hashlib.sha1(pw.upper().encode("utf-16-le") + salt).digest()).hex().upper()


def mssql2005(pw, salt):
    return "0x0100" + (salt + hashlib.sha1(pw.encode("utf-16-le") + salt).digest()).hex().upper()


def mysql323(pw):
    """MySQL < 4.1 hash_password() (sql/password.c): spaces and tabs skipped"""
    nr, add, nr2 = 1345345333, 7, 0x12345671
    for c in pw:
        if c in (0x20, 0x09):
            continue
        nr ^= (((nr & 63) + add) * c) + (nr << 8)
        nr2 += (nr2 << 8) ^ nr
        add += c
    return "%08x%08x" % (nr & 0x7FFFFFFF, nr2 & 0x7FFFFFFF)


def mysql41(pw):
    return "*" + hashlib.sha1(hashlib.sha1(pw).digest()).hexdigest().upper()


def oracle11(pw, salt_hex):
    """'S:' + SHA1(password + salt) + salt, upper-case hex; salt is 10 bytes"""
    return "S:" + hashlib.sha1(pw + bytes.fromhex(salt_hex)).hexdigest().upper() + salt_hex.upper()


def postgres_md5(pw, user):
    return "md5" + hashlib.md5(pw + user).hexdigest()


def htdigest(pw, user, realm):
    """RFC 2617 HA1"""
    return hashlib.md5(user + b":" + realm + b":" + pw).hexdigest()


CISCO7_KEY = "dsfd;kfoA,.iyewrkldJKDHSUBsgvca69834ncxv9873254k;fg87"


def cisco_type7(pw, salt):
    out = "%02d" % salt
    for i, c in enumerate(pw):
        out += "%02X" % (c ^ ord(CISCO7_KEY[(salt + i) % len(CISCO7_KEY)]))
    return out


def cisco_type7_decode(h):
    salt = int(h[:2])
    raw = bytes.fromhex(h[2:])
    return bytes(c ^ ord(CISCO7_KEY[(salt + i) % len(CISCO7_KEY)]) for i, c in enumerate(raw))


def _cisco_encode(digest):
    out = ""
    for i in range(0, 16, 4):
        v = digest[i] | (digest[i + 1] << 8) | (digest[i + 2] << 16)
        for _ in range(4):
            out += H64[v & 63]
            v >>= 6
    return out


def _cisco_user(user):
    if not user:
        return b""
    u = user[:4]
    while len(u) < 4:
        u = (u + user)[:4]
    return u


def cisco_pix(pw, user=b""):
    """only defined for len(pw) <= 16"""
    s = pw
    if user:
        s = s + _cisco_user(user)
    s = s[:16].ljust(16, b"\0")
    return _cisco_encode(hashlib.md5(s).digest())


def cisco_asa(pw, user=b""):
    """only defined for len(pw) <= 32"""
    s = pw
    if user and len(pw) < 28:
        s = s + _cisco_user(user)
    # the prose description says "16 or more", but the vector recorded from an ASA 9.6 device
    # ("0123456789ab" + user "user" -> f.T4BKdzdNkjxQl7, exactly 16 bytes) fixes the threshold at > 16
    size = 32 if len(s) > 16 else 16
    s = s[:size].ljust(size, b"\0")
    return _cisco_encode(hashlib.md5(s).digest())


def django_salted(alg, pw, salt):
    return "%s$%s$%s" % (alg, salt, hashlib.new(alg, salt.encode("ascii") + pw).hexdigest())


def django_pbkdf2(alg, pw, salt, rounds):
    return "pbkdf2_%s$%d$%s$%s" % (alg, rounds, salt, _b64(hashlib.pbkdf2_hmac(alg, pw, salt.encode("ascii"), rounds)))


def selftest():
    assert cisco_type7_decode("0822455D0A16") == b"cisco"
    assert cisco_type7_decode("060506324F41") == b"cisco"
    assert len(CISCO7_KEY) == 53
    assert cisco_asa(b"0123456789ab", b"user") == "f.T4BKdzdNkjxQl7"  # ASA 9.6
    assert cisco_pix(b"1234567890123456") == "feCkwUGktTCAgIbD"  # Cisco PIX 5.0 configuration guide
    assert mysql41(b"mypass") == "*6C8989366EAF75BB670AD8EA7A7FC1176A95CEF4"
    assert mysql323(b"mypass") == "6f8c114b58f2ce9e"
    assert htdigest(b"Circle Of Life", b"Mufasa", b"testrealm@host.com") == "939e7578ed9e3c518a452acee763bce9"
    return True


selftest()
