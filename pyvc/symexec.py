"""pyvc.symexec -- symbolic execution of real Python function bodies into verification conditions.

Path exploration is by re-execution under a decision prefix (no state copying): every symbolic branch,
union resolution, loop rule or raising operation is a ``fork``; a run follows the recorded prefix and,
past it, takes the first feasible option and queues the others.  Obligations are only recorded past
the prefix, so each is generated once.
"""

from __future__ import annotations

import ast
import builtins
import itertools

import z3

from . import extract
from .values import (
    IntSeqSort,
    SBool,
    SClosure,
    SDict,
    SExc,
    SExcClass,
    SInt,
    SList,
    SMap,
    SModule,
    SObj,
    SOpaque,
    SSeq,
    SSet,
    SStr,
    SStub,
    SType,
    SUnion,
    Sym,
    StringSort,
    Unsupported,
    pytype_name,
)


# ---------------------------------------------------------------------------------------------
# control-flow signals
# ---------------------------------------------------------------------------------------------
class ReturnSig(Exception):
    def __init__(self, value):
        self.value = value


class RaiseSig(Exception):
    def __init__(self, exc: SExc, lineno=None):
        self.exc = exc
        self.lineno = lineno


class BreakSig(Exception):
    pass


class ContinueSig(Exception):
    pass


class PathCut(Exception):
    """path ends here (infeasible, or closed by a loop rule)"""


class Env:
    def __init__(self, parent=None, vars=None):
        self.parent = parent
        self.vars = dict(vars or {})
        self.globals_decl = set()
        self.nonlocal_decl = set()

    def lookup(self, name):
        e = self
        while e is not None:
            if name in e.vars:
                return e.vars[name]
            e = e.parent
        raise KeyError(name)

    def has(self, name):
        e = self
        while e is not None:
            if name in e.vars:
                return True
            e = e.parent
        return False

    def set(self, name, value):
        if name in self.nonlocal_decl or name in self.globals_decl:
            e = self.parent
            while e is not None:
                if name in e.vars:
                    e.vars[name] = value
                    return
                e = e.parent
            # module-level global not yet bound
            root = self
            while root.parent is not None:
                root = root.parent
            root.vars[name] = value
            return
        self.vars[name] = value


class Obligation:
    def __init__(self, name, kind, descr, assumptions, goal, lineno=None, inputs=None, hard=False):
        self.name = name
        self.kind = kind
        self.descr = descr
        self.assumptions = assumptions  # list of z3 Bool
        self.goal = goal  # z3 Bool (to prove under assumptions)
        self.lineno = lineno
        self.inputs = inputs or {}
        self.hard = hard

    def smt2(self, logic=None):
        s = z3.Solver()
        for a in self.assumptions:
            s.add(a)
        s.add(z3.Not(self.goal))
        txt = s.to_smt2()
        return txt


# exception hierarchy ---------------------------------------------------------------------------
def _builtin_exc_mro(name):
    cls = getattr(builtins, name, None)
    if isinstance(cls, type) and issubclass(cls, BaseException):
        return [c.__name__ for c in cls.__mro__ if c is not object]
    if name == "binascii.Error" or name == "BinasciiError":
        return ["binascii.Error", "ValueError", "Exception", "BaseException"]
    if name == "struct.error":
        return ["struct.error", "Exception", "BaseException"]
    return None


_exc_cache = {}


def exc_class(name, repo_exc="passlib/exc.py") -> SExcClass:
    """resolve an exception class (or passlib.exc factory function) by name"""
    name = name.split(".")[-1] if name.startswith(("exc.", "uh.exc.", "passlib.exc.")) else name
    key = (extract.REPO, name)
    if key in _exc_cache:
        return _exc_cache[key]
    mro = _builtin_exc_mro(name)
    if mro is None:
        tree, _ = extract.module_ast(repo_exc)
        node = None
        for st in tree.body:
            if isinstance(st, (ast.ClassDef, ast.FunctionDef)) and st.name == name:
                node = st
        if node is None:
            raise Unsupported(f"unknown exception class {name}")
        if isinstance(node, ast.ClassDef):
            mro = [name]
            # linearise left to right (exception classes here have simple diamonds only)
            for b in node.bases:
                bname = ast.unparse(b)
                for m in exc_class(bname).mro:
                    if m not in mro:
                        mro.append(m)
        else:
            # factory: ``return SomeError(...)``
            ret = None
            for sub in ast.walk(node):
                if isinstance(sub, ast.Return) and isinstance(sub.value, ast.Call):
                    ret = ast.unparse(sub.value.func)
            if ret is None:
                raise Unsupported(f"exception factory {name} without return")
            inner = exc_class(ret)
            res = SExcClass(inner.name, inner.mro)
            _exc_cache[key] = res
            return res
    res = SExcClass(name, mro)
    _exc_cache[key] = res
    return res


# class model --------------------------------------------------------------------------------
class ClassRef:
    """a class read from source: attribute lookup through the MRO computed from the parsed bases"""

    _cache = {}

    def __init__(self, relpath, name, resolver=None):
        self.relpath = relpath
        self.name = name
        self.node = extract.find_class(relpath, name)
        self.resolver = resolver or {}

    @classmethod
    def get(cls, relpath, name, resolver=None):
        key = (extract.REPO, relpath, name)
        if key not in cls._cache:
            cls._cache[key] = ClassRef(relpath, name, resolver)
        return cls._cache[key]

    def bases(self):
        out = []
        self.incomplete = getattr(self, "incomplete", False)
        ov = getattr(self, "override_bases", None)
        if ov is not None:
            # a contract models ``cls.__bases__ = ...`` (backend mixins swapped in at run time)
            return list(ov)
        for b in self.node.bases:
            bname = ast.unparse(b)
            if bname in ("object",):
                continue
            ref = resolve_class_name(self.relpath, bname)
            if ref is not None:
                out.append(ref)
            else:
                self.incomplete = True  # a base that is not repository code (or not found): lookups may miss
        return out

    def any_incomplete(self):
        try:
            return any(getattr(c, "incomplete", False) for c in self.mro())
        except Unsupported:
            return True

    def mro(self):
        # C3 linearisation
        def merge(seqs):
            res = []
            seqs = [list(s) for s in seqs if s]
            while seqs:
                for s in seqs:
                    head = s[0]
                    if not any(head.key() in [x.key() for x in t[1:]] for t in seqs):
                        break
                else:
                    raise Unsupported("inconsistent MRO")
                res.append(head)
                seqs = [[x for x in s if x.key() != head.key()] for s in seqs]
                seqs = [s for s in seqs if s]
            return res

        bases = self.bases()
        return [self] + merge([b.mro() for b in bases] + [bases])

    def key(self):
        return (self.relpath, self.name)

    def own_attr(self, attr):
        for st in self.node.body:
            if isinstance(st, ast.FunctionDef) and st.name == attr:
                return ("func", st)
            if isinstance(st, ast.Assign):
                for t in st.targets:
                    if isinstance(t, ast.Name) and t.id == attr:
                        return ("value", st.value)
            if isinstance(st, ast.AnnAssign) and isinstance(st.target, ast.Name) and st.target.id == attr and st.value is not None:
                return ("value", st.value)
        return None

    def find_attr(self, attr, after=None):
        """(owner ClassRef, kind, node) following the MRO; ``after``: start after that class (super())"""
        mro = self.mro()
        if after is not None:
            keys = [c.key() for c in mro]
            if after.key() in keys:
                mro = mro[keys.index(after.key()) + 1 :]
        for c in mro:
            got = c.own_attr(attr)
            if got is not None:
                return c, got[0], got[1]
        return None

    def __repr__(self):
        return f"<class {self.relpath}::{self.name}>"


# where class names used as bases live (module alias -> file)
MODULE_FILES = {
    "uh": "passlib/utils/handlers.py",
    "passlib.utils.handlers": "passlib/utils/handlers.py",
    "ifc": "passlib/ifc.py",
}


def resolve_class_name(relpath, dotted):
    """ClassRef for a class named in ``relpath`` (own definition, imported name, or module.attr)"""
    from .ops import _MODULE_ALIASES, _import_source, _module_file

    parts = dotted.split(".")
    if len(parts) == 1:
        try:
            return ClassRef.get(relpath, parts[0])
        except extract.ExtractError:
            pass
        src = _import_source(relpath, parts[0])
        if src is not None and src[0] == "name":
            try:
                return ClassRef.get(src[1], src[2])
            except extract.ExtractError:
                return resolve_class_name(src[1], src[2]) if src[1] != relpath else None
        return None
    head, attr = parts[0], parts[-1]
    f = None
    if len(parts) == 2:
        src = _import_source(relpath, head)
        if src is not None and src[0] == "module":
            f = src[1]
        elif head in _MODULE_ALIASES:
            f = _MODULE_ALIASES[head]
    else:
        f = _module_file(".".join(parts[:-1]))
        if f is None and head in _MODULE_ALIASES and len(parts) == 3:
            # e.g. uh.ifc.DisabledHash
            sub = _MODULE_ALIASES.get(parts[1])
            f = sub
    if f is None:
        return None
    try:
        return ClassRef.get(f, attr)
    except extract.ExtractError:
        return resolve_class_name(f, attr)


# ---------------------------------------------------------------------------------------------
class Run:
    """one path: decision prefix, path condition, obligations"""

    def __init__(self, explorer, prefix):
        self.x = explorer
        self.prefix = list(prefix)
        self.decisions = []
        self.pc = []
        self.solver = z3.Solver()
        self.solver.set("timeout", getattr(explorer.contract, "prune_timeout_ms", None) or explorer.prune_timeout_ms)
        self.obligs = []
        self.calls = []
        self.writes = []
        self.counter = itertools.count()
        self.resolved = {}
        self.ghost = {}
        self.depth = 0
        self.notes = []

    # -- naming ------------------------------------------------------------------------------
    def fresh(self, base):
        return f"{base}!{next(self.counter)}"

    @property
    def past_prefix(self):
        return len(self.decisions) >= len(self.prefix)

    # -- path condition ----------------------------------------------------------------------
    def assume(self, cond):
        if isinstance(cond, bool):
            if not cond:
                raise PathCut()
            return
        cond = z3.simplify(cond)
        if z3.is_true(cond):
            return
        if z3.is_false(cond):
            raise PathCut()
        self.pc.append(cond)
        self.solver.add(cond)

    def feasible(self, cond=None):
        if cond is None:
            r = self.solver.check()
        else:
            if isinstance(cond, bool):
                return cond
            r = self.solver.check(cond)
        self.x.stats["prune_checks"] += 1
        return r != z3.unsat

    def fork(self, options, label=""):
        """options: list of z3 Bool / bool conditions.  Returns the index taken (condition assumed)."""
        pos = len(self.decisions)
        if pos < len(self.prefix):
            k = self.prefix[pos]
            self.decisions.append(k)
            self.assume(options[k])
            return k
        feas = [k for k, c in enumerate(options) if self.feasible(c)]
        if not feas:
            raise PathCut()
        for alt in feas[1:]:
            self.x.queue.append(self.decisions + [alt])
        k = feas[0]
        self.decisions.append(k)
        self.assume(options[k])
        return k

    def branch(self, cond):
        """Python truth test of a z3 Bool / bool"""
        if isinstance(cond, bool):
            return cond
        cond = z3.simplify(cond)
        if z3.is_true(cond):
            return True
        if z3.is_false(cond):
            return False
        return self.fork([cond, z3.Not(cond)]) == 0

    # -- obligations -------------------------------------------------------------------------
    def oblige(self, kind, goal, descr, lineno=None, hard=False):
        """record ``pc => goal``; afterwards the goal is assumed on this path"""
        if isinstance(goal, bool):
            goal = z3.BoolVal(goal)
        goal_s = z3.simplify(goal)
        if self.past_prefix:
            self.x.stats["obligations_generated"] += 1
            if z3.is_true(goal_s):
                self.x.stats["trivial"] += 1
                self.x.record_trivial(kind, descr, lineno)
            else:
                ob = Obligation(None, kind, descr, list(self.pc), goal, lineno, hard=hard)
                self.obligs.append(ob)
        if not z3.is_true(goal_s):
            try:
                self.assume(goal)
            except PathCut:
                raise


class Explorer:
    """explores all paths of one contract; collects obligations"""

    def __init__(self, contract, registry=None, max_paths=4000, prune_timeout_ms=400):
        self.contract = contract
        self.registry = registry or {}
        self.queue = [[]]
        self.max_paths = max_paths
        self.prune_timeout_ms = prune_timeout_ms
        self.stats = {"paths": 0, "prune_checks": 0, "obligations_generated": 0, "trivial": 0, "cut": 0}
        self.obligations = []
        self.trivial = []
        self.unsupported = None
        self.exits = {"return": 0, "raise": {}}

    def record_trivial(self, kind, descr, lineno):
        self.trivial.append((kind, descr, lineno))

    def explore(self):
        from .interp import Interp

        import time as _time

        n = 0
        t0 = _time.time()
        budget = getattr(self.contract, "time_budget", None) or 120
        while self.queue:
            prefix = self.queue.pop()
            n += 1
            if n > self.max_paths:
                self.unsupported = f"path budget exceeded ({self.max_paths})"
                break
            if _time.time() - t0 > budget:
                self.unsupported = f"exploration time budget exceeded ({budget}s, {n} paths)"
                break
            run = Run(self, prefix)
            interp = Interp(run, self.contract, self.registry)
            try:
                interp.run_contract()
            except PathCut:
                self.stats["cut"] += 1
            except Unsupported as err:
                self.unsupported = str(err)
                break
            self.stats["paths"] += 1
            self.obligations.extend(run.obligs)
        return self


def z3_int_of(v, bv=None):
    if isinstance(v, bool):
        v = int(v)
    if isinstance(v, int):
        return z3.IntVal(v) if bv is None else z3.BitVecVal(v, bv)
    if isinstance(v, SInt):
        return v.e
    if isinstance(v, SBool):
        return z3.If(v.e, z3_int_of(1, bv), z3_int_of(0, bv))
    raise Unsupported(f"not an int: {v!r}")
