"""pyvc.selftest -- deliberate property-breaking edits on a scratch copy must refute a named obligation,
harmless edits must not.  Usage: python3-vt -m pyvc.selftest [--fast] [Cxx ...]

Mutants are declared per property in contracts/cNN.py as
    MUTANTS = [("label", "relpath", "old text", "new text", expect)]     expect in {"refute", "hold"}
The scratch copy lives under $TMPDIR (outside /repo and /verif) and is removed afterwards."""
import importlib
import os
import shutil
import subprocess
import sys
import tempfile

VERIF = os.path.dirname(os.path.dirname(os.path.abspath(__file__)))


def fast():
    import z3

    s = z3.Solver()
    x = z3.Int("x")
    s.add(x > 0, x < 0)
    assert s.check() == z3.unsat
    out = subprocess.run(["/usr/bin/cvc5", "--version"], capture_output=True, text=True)
    assert "cvc5" in out.stdout.lower() or "cvc5" in out.stderr.lower()
    assert os.path.exists("/venv/bin/python")
    print("selftest --fast: z3", z3.get_version_string(), "cvc5 ok, /venv/bin/python ok")


def _run_group(cmd, env, timeout):
    """run in its own process group so that a timeout also removes the solver pool"""
    import signal

    proc = subprocess.Popen(cmd, stdout=subprocess.PIPE, stderr=subprocess.PIPE, text=True, env=env, start_new_session=True)
    try:
        out, err = proc.communicate(timeout=timeout)
    except subprocess.TimeoutExpired:
        try:
            os.killpg(proc.pid, signal.SIGKILL)
        except ProcessLookupError:
            pass
        proc.wait()
        raise
    return subprocess.CompletedProcess(cmd, proc.returncode, out, err)


def run_mutants(pids, label_re=None):
    sys.path.insert(0, VERIF)
    bad = 0
    for pid in pids:
        mod = importlib.import_module(f"contracts.{pid.lower()}")
        muts = getattr(mod, "MUTANTS", [])
        for label, relpath, old, new, expect, *rest in muts:
            only = rest[0] if rest else None
            if label_re and not __import__('re').search(label_re, label):
                continue
            tmp = tempfile.mkdtemp(prefix="pyvc_mut_")
            try:
                dst = os.path.join(tmp, "repo")
                # copy only the python packages (small)
                for pkg in ("passlib", "libpass"):
                    shutil.copytree(os.path.join("/repo", pkg), os.path.join(dst, pkg), ignore=shutil.ignore_patterns("__pycache__"))
                path = os.path.join(dst, relpath)
                src = open(path).read()
                if src.count(old) != 1:
                    print(f"SELFTEST-ERROR {pid} {label}: pattern occurs {src.count(old)} times")
                    bad += 1
                    continue
                open(path, "w").write(src.replace(old, new))
                env = dict(os.environ, PYVC_REPO=dst, PYVC_NO_BOUNDED="1", PYVC_EVIDENCE_DIR=os.path.join(tmp, "ev"))
                cmd = [os.path.join(VERIF, "check"), pid] + (["--only", only] if only else [])
                try:
                    out = _run_group(cmd, env, 3000)
                except subprocess.TimeoutExpired:
                    print(f"FAIL {pid} {label}: check did not finish within 3000 s")
                    bad += 1
                    continue
                refuted = "VIOLATION" in out.stdout
                undecided = "NOTE undecided" in out.stdout and "unsupported" in out.stdout or "solver unknown" in out.stdout
                got = "refute" if refuted else ("undecided" if undecided else "hold")
                ok = got == expect and out.returncode in (0, 1)
                print(f"{'ok  ' if ok else 'FAIL'} {pid} {label}: expect={expect} got={got} rc={out.returncode}", flush=True)
                if not ok:
                    bad += 1
                    print(out.stdout[-1500:])
            finally:
                shutil.rmtree(tmp, ignore_errors=True)
    return bad


if __name__ == "__main__":
    args = sys.argv[1:]
    if "--fast" in args:
        fast()
        sys.exit(0)
    label_re = None
    if "--label" in args:
        i = args.index("--label")
        label_re = args[i + 1]
        del args[i:i + 2]
    sys.exit(1 if run_mutants(args or [f"C{n:02d}" for n in range(1, 21) if os.path.exists(os.path.join(VERIF, "contracts", f"c{n:02d}.py"))], label_re) else 0)
