"""C17 -- every shipped context recognises the hashes of each of its own schemes."""
import ast
import itertools
import time

from pyvc import extract
from pyvc.concrete import load_function
from pyvc.runner import Bounded, Finite

LEVEL = "proof"
EXPLANATION = (
    "Finite, complete checks of the real source: passlib/apache.py::_init_htpasswd_context is executed for EVERY value "
    "of its only external input (the 2^7 sub-tuples of registry.os_crypt_schemes that crypt() may support): the "
    "catch-all 'plaintext' is last, the default is listed, no duplicates; every scheme list literal in passlib/apps.py "
    "and passlib/hosts.py keeps catch-all schemes last; every name in registry._locations resolves to a module whose "
    "source defines a hasher carrying that name. Attribution of generated hashes through every context is covered by the "
    "bounded stand-in."
)
ASSUMPTIONS = [
    "catch-all schemes (identify() accepts arbitrary text): plaintext, ldap_plaintext (from their identify bodies)",
    "get_supported_os_crypt_schemes() returns a sub-tuple of os_crypt_schemes in that order (its body: a filter over the tuple)",
]
A = "passlib/apache.py"
R = "passlib/registry.py"
CATCH_ALL = {"plaintext", "ldap_plaintext"}  # roundup_plaintext requires its "{plaintext}" prefix


def _htpasswd_all_hosts():
    # registry.os_crypt_schemes is ``from passlib.utils import unix_crypt_schemes as os_crypt_schemes``
    reg_src = extract.module_ast(R)[1]
    assert "unix_crypt_schemes as os_crypt_schemes" in reg_src, "registry.os_crypt_schemes is no longer the alias of utils.unix_crypt_schemes"
    os_schemes = extract.module_constant("passlib/utils/__init__.py", "unix_crypt_schemes")
    captured = {}

    class _Registry:
        supported = ()
        bcrypt_backend = True

        @staticmethod
        def get_supported_os_crypt_schemes():
            return _Registry.supported

        @staticmethod
        def has_os_crypt_support(name):
            return name in _Registry.supported

        @staticmethod
        def has_backend(name):
            return _Registry.bcrypt_backend

    def crypt_context(**kw):
        captured.clear()
        captured.update(kw)
        return kw

    # htpasswd_defaults is itself computed by a real function of the host: execute that one too
    init_defaults, info0 = load_function(f"{A}::_init_default_schemes", {"registry": _Registry, "_warn_no_bcrypt": set()})
    ns = {"registry": _Registry, "CryptContext": crypt_context, "htpasswd_defaults": None}
    fn, info = load_function(f"{A}::_init_htpasswd_context", ns)
    failures, cases, samples = [], 0, []
    t0 = time.time()
    for r in range(len(os_schemes) + 1):
        for sub in itertools.combinations(os_schemes, r):
            for has_bcrypt in (True, False):
                _Registry.supported = tuple(sub)
                _Registry.bcrypt_backend = has_bcrypt
                fn.__globals__["htpasswd_defaults"] = init_defaults()
                fn()
                cases += 1
                schemes = list(captured["schemes"])
                if len(samples) < 2 and r in (0, len(os_schemes)):
                    samples.append({"supported": list(sub), "bcrypt_backend": has_bcrypt, "schemes": schemes, "default": captured.get("default")})
                bad = None
                for i, s_ in enumerate(schemes):
                    if s_ in CATCH_ALL and i != len(schemes) - 1:
                        bad = f"catch-all {s_!r} at position {i} shadows {schemes[i + 1:]}"
                if len(set(schemes)) != len(schemes):
                    bad = "duplicate schemes"
                if captured.get("default") not in schemes:
                    bad = f"default {captured.get('default')!r} not among the schemes"
                if not set(sub) <= set(schemes):
                    bad = "a scheme the host's crypt() supports is missing"
                if bad:
                    failures.append({"key": "htpasswd-context-order", "what": bad, "witness": {"supported_os_crypt_schemes": list(sub), "bcrypt_backend": has_bcrypt, "schemes": schemes}})
    return {"cases": cases, "failures": failures[:5], "samples": samples, "s": time.time() - t0, "functions": [dict(info.describe(), contract="_init_htpasswd_context (all 2^7 hosts x bcrypt backend present/absent)"), dict(info0.describe(), contract="_init_default_schemes (same hosts)")]}


def _literal_scheme_lists():
    """every ``schemes=[...]`` / first positional list literal of a (Lazy)CryptContext call in apps.py / hosts.py"""
    failures, cases, samples = [], 0, []
    for relpath in ("passlib/apps.py", "passlib/hosts.py", "passlib/ext/django/utils.py"):
        tree, _ = extract.module_ast(relpath)
        consts = {}
        for node in ast.walk(tree):
            lists = []
            if isinstance(node, ast.Call) and isinstance(node.func, ast.Name) and node.func.id in ("LazyCryptContext", "CryptContext", "dict"):
                for kw in node.keywords:
                    if kw.arg == "schemes":
                        lists.append(kw.value)
                lists += [a for a in node.args[:1]]
            elif isinstance(node, ast.Assign) and isinstance(node.value, (ast.List, ast.BinOp)) and any(isinstance(t, ast.Name) and "schemes" in t.id for t in node.targets):
                lists.append(node.value)
            for lst in lists:
                try:
                    val = extract.const_eval(lst, None, relpath)
                except extract.NotConstant:
                    continue
                if not (isinstance(val, (list, tuple)) and all(isinstance(x, str) for x in val)):
                    continue
                cases += 1
                if len(samples) < 3:
                    samples.append({"file": relpath, "line": lst.lineno, "schemes": list(val)})
                for i, s in enumerate(val):
                    if s in CATCH_ALL and i != len(val) - 1:
                        failures.append({"key": f"catch-all-not-last:{relpath}:{lst.lineno}", "what": f"{s!r} precedes {list(val[i + 1:])}", "witness": {"file": relpath, "line": lst.lineno, "schemes": list(val)}})
    return {"cases": cases, "failures": failures[:5], "samples": samples}


def _registry_names():
    locs = extract.module_constant(R, "_locations")
    failures, cases, samples = [], 0, []
    for name, modname in sorted(locs.items()):
        cases += 1
        relpath = modname.replace(".", "/") + ".py"
        try:
            tree, _ = extract.module_ast(relpath)
        except extract.ExtractError as err:
            failures.append({"key": f"registry:{name}", "what": f"module missing: {err}", "witness": {"name": name, "module": modname}})
            continue
        found = False
        for node in ast.walk(tree):
            if isinstance(node, ast.ClassDef):
                for st in node.body:
                    if isinstance(st, ast.Assign) and any(isinstance(t, ast.Name) and t.id == "name" for t in st.targets) and isinstance(st.value, ast.Constant) and st.value.value == name:
                        found = True
            elif isinstance(node, ast.Call):
                # wrappers / generated classes: uh.PrefixWrapper("name", ...), create_pbkdf2_hash("sha1", ...) etc.
                for a in list(node.args) + [k.value for k in node.keywords]:
                    if isinstance(a, ast.Constant) and a.value == name:
                        found = True
            elif isinstance(node, ast.Assign) and any(isinstance(t, ast.Name) and t.id == name for t in node.targets):
                found = True
        if len(samples) < 3:
            samples.append({"name": name, "module": modname})
        if not found and name.startswith("ldap_") and name[5:] in locs and relpath.endswith("ldap_digests.py"):
            # generated in a loop: g["ldap_" + wname] = PrefixWrapper("ldap_" + wname, wname, prefix="{CRYPT}")
            src = extract.module_ast(relpath)[1]
            found = '"ldap_" + wname' in src and "PrefixWrapper(name, wname" in src.replace("\n", " ")
        if not found:
            failures.append({"key": f"registry:{name}", "what": "no hasher with that name in the module source", "witness": {"name": name, "module": modname}})
    return {"cases": cases, "failures": failures[:5], "samples": samples}


def _os_crypt_cache_immutable():
    """registry.get_supported_os_crypt_schemes() is memoized and shared by hosts.py and apache.py: the cached value must
    be immutable (a tuple), otherwise one consumer's ``out += (...)`` edits the other's scheme list"""
    os_schemes = extract.module_constant("passlib/utils/__init__.py", "unix_crypt_schemes")
    failures, cases, samples = [], 0, []
    for r in range(len(os_schemes) + 1):
        for sub in itertools.combinations(os_schemes, r):
            class _H:
                def __init__(self, ok):
                    self.ok = ok

                def has_backend(self, name):
                    return self.ok

            ns = {"os_crypt_present": True, "os_crypt_schemes": os_schemes, "get_crypt_handler": lambda name, _s=sub: _H(name in _s), "OS_CRYPT": "os_crypt",
                  "warn": lambda *a, **k: None, "exc": type("exc", (), {"PasslibRuntimeWarning": Warning})}
            fn, info = load_function(f"{R}::get_supported_os_crypt_schemes", ns)
            res = fn()
            cases += 1
            if len(samples) < 2:
                samples.append({"supported": list(sub), "result": repr(res)})
            if type(res) is not tuple:
                failures.append({"key": "os-crypt-cache-mutable", "what": f"cached value is a {type(res).__name__}, a consumer can edit it in place", "witness": {"supported": list(sub)}})
            elif res != tuple(sub):
                failures.append({"key": "os-crypt-cache-content", "what": "result is not the supported sub-tuple in order", "witness": {"supported": list(sub), "result": list(res)}})
    # the consumer in hosts.py extends it with +=: with a tuple this creates a new object
    hosts_src = extract.module_ast("passlib/hosts.py")[1]
    return {"cases": cases, "failures": failures[:3], "samples": samples, "functions": [dict(info.describe(), contract="get_supported_os_crypt_schemes (all 2^7 hosts): immutable result")]}


FINITE = [
    Finite("os-crypt-scheme-cache-immutable", _os_crypt_cache_immutable, "registry.get_supported_os_crypt_schemes returns the supported sub-TUPLE (shared memoized value cannot be edited by hosts.py / apache.py)"),
    Finite("htpasswd-context-all-hosts", _htpasswd_all_hosts, "apache._init_htpasswd_context executed for all 2^7 crypt() support sets: catch-all last, default listed, no duplicates"),
    Finite("shipped-scheme-lists", _literal_scheme_lists, "every literal scheme list in apps.py / hosts.py / ext.django keeps catch-all schemes last"),
    Finite("registry-locations", _registry_names, "every name in registry._locations is defined by the module it points to"),
]
# ---- registry look-ups never add names: an alias spelling resolves to the canonical entry and leaves the table as it was -------
import z3  # noqa: E402

from pyvc.contract import Const, Contract  # noqa: E402
from pyvc.values import SDict, SObj, SStub  # noqa: E402


def _reg_setup(loaded):
    def setup(it, args):
        handler = SObj("<sha256_crypt handler>", is_class=True, fields={"name": "sha256_crypt"})
        table = SDict({"sha256_crypt": handler} if loaded else {})
        registered = []

        def register(i, a, k):
            registered.append((i.resolve(a[0]), k.get("_attr")))
            table.items[k.get("_attr") or "sha256_crypt"] = a[0]

        g = it.genv.vars
        g["_handlers"] = table
        g["_locations"] = SDict({"sha256_crypt": "passlib.handlers.sha2_crypt"})
        g["register_crypt_handler"] = SStub(register, "register_crypt_handler")
        g["is_crypt_handler"] = SStub(lambda i, a, k: True, "is_crypt_handler")
        g["__import__"] = SStub(lambda i, a, k: SObj("module " + str(i.resolve(a[0])), fields={"sha256_crypt": handler}), "__import__")
        it.run.ghost.update({"table": table, "handler": handler, "registered": registered})
        return None

    return setup


def _reg_post(it, env):
    g = it.run.ghost
    return z3.BoolVal(it.resolve(env.lookup("result")) is g["handler"] and set(g["table"].items) == {"sha256_crypt"} and all(attr == "sha256_crypt" for _, attr in g["registered"]))


CONTRACTS = []
for _spelling in ("sha256_crypt", "SHA256-CRYPT", "sha256-crypt", "Sha256_Crypt"):
    for _loaded in (True, False):
        CONTRACTS.append(Contract(
            f"get_crypt_handler[{_spelling!r}, {'loaded' if _loaded else 'not yet loaded'}]", "passlib/registry.py::get_crypt_handler",
            params={"name": Const(_spelling), "default": Const(SObj("_UNSET"))},
            setup=_reg_setup(_loaded),
            globals={"warn": SStub(lambda i, a, k: None, "warn"), "_UNSET": SObj("_UNSET sentinel")},
            ensures=[("every spelling resolves to the one canonical entry; the registry (= what list_crypt_handlers() and passlib.hash expose) gains no alias name", _reg_post)],
            descr="canonical and legacy spellings of a registered name, handler loaded or not",
        ))
BOUNDED = [Bounded("c17", "harness/c17.py", descr="every exported context x every scheme x generated hashes", timeout=900)]

MUTANTS = [
    ("registry: os_crypt scheme cache becomes a list", R, "    cache = tuple(\n        name\n        for name in os_crypt_schemes\n        if get_crypt_handler(name).has_backend(OS_CRYPT)\n    )", "    cache = [\n        name\n        for name in os_crypt_schemes\n        if get_crypt_handler(name).has_backend(OS_CRYPT)\n    ]", "refute"),
    ("htpasswd context: plaintext sorted by preference again", A, "    schemes = sorted(\n        set(schemes), key=lambda name: (name == \"plaintext\", preferred.index(name))\n    )\n", "    schemes = sorted(set(schemes), key=preferred.index)\n", "refute"),
    ("htpasswd context: default not among schemes", A, "        default=htpasswd_defaults[\"portable_apache_22\"],", "        default=\"sha1_crypt\",", "refute"),
    ("apps: plaintext first in a list", "passlib/apps.py", "    schemes=[\"bcrypt\", \"phpass\", \"bsdi_crypt\"],", "    schemes=[\"plaintext\", \"bcrypt\", \"phpass\", \"bsdi_crypt\"],", "refute"),
    ("registry: location points to the wrong module", R, "    apr_md5_crypt=\"passlib.handlers.md5_crypt\",", "    apr_md5_crypt=\"passlib.handlers.sha1_crypt\",", "refute"),
    ("get_crypt_handler caches the handler under the alias spelling", "passlib/registry.py", "        name = alt\n", "        orig, name = name, alt\n        if name in _handlers:\n            _handlers[orig] = _handlers[name]\n", "refute", "get_crypt_handler"),
]

# ---- a stored hash given as bytes in a legacy 8-bit encoding still reaches the scheme that owns it -------------------------------
from pyvc.contract import Bytes as _Bytes  # noqa: E402

CONTRACTS.append(Contract(
    "to_unicode_for_identify[any bytes]", "passlib/utils/handlers.py::to_unicode_for_identify",
    params={"hash": _Bytes()},
    raises={},
    ensures=[("every byte string is turned into text for identification (UTF-8 when it is, else byte-for-byte latin-1): no scheme's identify() raises on a plaintext / LDAP-plaintext entry in a legacy encoding",
              lambda it, env: z3.BoolVal(it.kind_of(it.resolve(env.lookup("result"))) == "str"))],
    descr="every byte string (not only ASCII / UTF-8)",
))
from contracts import c03 as _c03  # noqa: E402

# the shipped Django contexts default to django_bcrypt_sha256: its first hash in a fresh process must be the one it verifies (shared with C03)
CONTRACTS += [c for c in _c03.CONTRACTS if c.id == "bcrypt._NoBackend._calc_checksum"]
MUTANTS.append(("to_unicode_for_identify: latin-1 fallback for non-UTF-8 bytes dropped", "passlib/utils/handlers.py", "        except UnicodeDecodeError:\n            return hash.decode(\"latin-1\")", "        except UnicodeDecodeError:\n            raise", "refute", "to_unicode_for_identify"))

# ---- every wrapped scheme of a shipped context claims its own hashes, the hash of the EMPTY password included (bare prefix) ----
from contracts import c01 as _c01pw  # noqa: E402

CONTRACTS += [_c01pw.prefix_identify]
