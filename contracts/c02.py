"""C02 -- every format computes the published algorithm bit for bit."""
from contracts import shacrypt
from pyvc.runner import Bounded, Finite

LEVEL = "other"
EXPLANATION = (
    "Decided by comparison with independent implementations (bounded stand-in): ~85 formats, both directions, against "
    "references written from the published specifications (/verif/specs/ref_*.py), crypt(3), Django, the bcrypt package "
    "and hashlib.scrypt over the length / salt / cost grid of the property statement -- foreign code (libcrypt, OpenSSL) "
    "cannot be put under contract. Proved part (thorough tier, ~8 min): the optimised SHA-crypt routines "
    "passlib/handlers/sha2_crypt.py::_raw_sha2_crypt (sha256 and sha512 variants) and libpass/hashers/sha_crypt.py::"
    "_sha_crypt are verified from their real source, with the hash abstract, to compute Drepper's published algorithm for "
    "EVERY password, salt and round count: digests A (bit walk over len(pwd)), P (password repeated len(pwd) times, both "
    "the one-shot and the fixed-memory branch), S, and the 42-round block schedule / tail against the published "
    "recurrence C(i+1) = H((P if i odd else Ci) + (S if i%3) + (P if i%7) + (Ci if i odd else P)) by per-pair ghost "
    "lock-step; quick tier: the two copies of the schedule and transposition tables are identical (finite)."
)
ASSUMPTIONS = [
    "hash objects: view = bytes absorbed, update appends, digest() = H(view) with a 32..64 byte digest (hashlib contract)",
    "repeat_string and encode_transposed_bytes are uninterpreted on both sides (C12 covers the encoder; tables compared separately)",
    "digest primitives, libcrypt, Django, bcrypt are trusted oracles of the bounded comparison",
]
CONTRACTS = [shacrypt.passlib_contract("C02", False), shacrypt.passlib_contract("C02", True), shacrypt.libpass_contract("C02")]
FINITE = [Finite("sha-crypt-tables-identical", shacrypt.tables_equal, "passlib and libpass carry identical _c_digest_offsets / transposition tables")]
BOUNDED = [Bounded("c02", "harness/c02.py", descr="~85 formats against independent references, crypt(3), Django, bcrypt, hashlib.scrypt", timeout=900)]
