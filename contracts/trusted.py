"""Assumed contracts of externals (trusted base): regex engine, binary codecs (proved separately under C12),
binascii, warnings.  Each model over-approximates: 'returns an unconstrained value of the right type or raises
the documented exception'.  Used by the exception-frame contracts (C08) and parse/render contracts (C07)."""
import z3

from pyvc.symexec import RaiseSig, exc_class
from pyvc.values import SBool, SDict, SExc, SInt, SList, SModule, SObj, SOpaque, SSeq, SStr, SStub, SUnion, Unsupported


def fresh_str(it, base, kind="str"):
    return SStr(z3.String(it.run.fresh(base)), kind)


def fresh_int(it, base, lo=None, hi=None):
    v = z3.Int(it.run.fresh(base))
    if lo is not None:
        it.run.assume(v >= lo)
    if hi is not None:
        it.run.assume(v <= hi)
    return SInt(v)


def may_fail(it, exc_name, label):
    """fork: succeed, or raise exc_name (the external's documented failure mode)"""
    if it.spec:
        return
    ok = z3.Bool(it.run.fresh(f"{label}.ok"))
    if not it.run.branch(ok):
        raise RaiseSig(SExc(exc_class(exc_name)), it.lineno)


# ---- regular expressions -------------------------------------------------------------------------
def optional_groups(pattern):
    """names / indexes of groups that can be unmatched (inside ?, *, {0,n} or an alternation), from the real
    pattern text via the stdlib regex parser; None if the pattern is not available"""
    if not isinstance(pattern, (str, bytes)):
        return None
    try:
        import re._parser as sre
        import re._constants as C
    except ImportError:  # pragma: no cover
        import sre_parse as sre
        import sre_constants as C
    try:
        tree = sre.parse(pattern, 64 if isinstance(pattern, str) and "\n" in pattern and "#" in pattern else 0)
    except Exception:
        try:
            tree = sre.parse(pattern, 64)
        except Exception:
            return None
    names = {v: k for k, v in tree.state.groupdict.items()}
    out = set()

    def walk(items, optional):
        for op, av in items:
            if op is C.SUBPATTERN:
                gid = av[0]
                if gid is not None and optional:
                    out.add(gid)
                    if gid in names:
                        out.add(names[gid])
                walk(av[-1], optional)
            elif op in (C.MAX_REPEAT, C.MIN_REPEAT, getattr(C, "POSSESSIVE_REPEAT", None)):
                walk(av[2], optional or av[0] == 0)
            elif op is C.BRANCH:
                for alt in av[1]:
                    walk(alt, True)
            elif op in (C.ASSERT, C.ASSERT_NOT):
                walk(av[1], optional)
            elif op is getattr(C, "ATOMIC_GROUP", None):
                walk(av, optional)
            elif op is C.GROUPREF_EXISTS:
                walk(av[1], True)
                if av[2]:
                    walk(av[2], True)

    walk(tree, False)
    return out


def _match_object(it, label, pattern=None):
    opt = optional_groups(pattern)

    def group(it2, args, kwargs):
        def one(name):
            # a group that the pattern makes optional may be unmatched (None); unknown pattern: any group may be
            if opt is None or name in opt:
                none = z3.Bool(it2.run.fresh(f"{label}.group({name!r}).unmatched"))
                if it2.run.branch(none):
                    return None
            return fresh_str(it2, f"{label}.group({name!r})")

        if not args:
            return fresh_str(it2, f"{label}.group0")
        if len(args) == 1:
            return one(args[0])
        return tuple(one(a) for a in args)

    def groups(it2, args, kwargs):
        raise Unsupported("match.groups()")

    return SObj(label, fields={"group": SStub(group, "match.group"), "groups": SStub(groups, "match.groups"),
                               "end": SStub(lambda i, a, k: fresh_int(i, f"{label}.end", 0), "match.end"),
                               "start": SStub(lambda i, a, k: fresh_int(i, f"{label}.start", 0), "match.start")})


def _regex_object(pattern_descr):
    def matcher(kind):
        def call(it, args, kwargs):
            s = it.resolve(args[0]) if args else None
            if not isinstance(s, (str, bytes, SStr)):
                raise RaiseSig(SExc(exc_class("TypeError")), it.lineno)
            label = it.run.fresh(f"re.{kind}")
            hit = z3.Bool(label + ".matched")
            if it.run.branch(hit):
                return _match_object(it, label, pattern_descr)
            return None

        return SStub(call, f"regex.{kind}", trusted="re: match() returns None or a match object whose groups are arbitrary strings")

    def sub(it, args, kwargs):
        s = it.resolve(args[1])
        return fresh_str(it, "re.sub", it.kind_of(s) if isinstance(s, (str, bytes, SStr)) else "str")

    return SObj("regex", fields={"match": matcher("match"), "search": matcher("search"), "fullmatch": matcher("fullmatch"), "sub": SStub(sub, "regex.sub"), "pattern": pattern_descr})


def _re_compile(it, args, kwargs):
    return _regex_object(args[0] if args and isinstance(args[0], (str, bytes)) else None)


RE = SModule("re", {"compile": SStub(_re_compile, "re.compile", trusted="re"), "X": 64, "I": 2, "S": 16, "M": 8, "VERBOSE": 64, "IGNORECASE": 2, "DOTALL": 16,
                    "escape": SStub(lambda it, a, k: a[0] if isinstance(a[0], str) else fresh_str(it, "re.escape"), "re.escape")})


# ---- binary codecs (their own contracts: C12) ---------------------------------------------------------
def _engine(name):
    def dec_int(bits):
        def call(it, args, kwargs):
            may_fail(it, "ValueError", f"{name}.decode_int{bits}")
            return fresh_int(it, f"{name}.decode_int{bits}", 0, 2**bits - 1)

        return SStub(call, f"{name}.decode_int{bits}", trusted="C12 contract: int in range or ValueError")

    def enc_int(bits):
        def call(it, args, kwargs):
            may_fail(it, "ValueError", f"{name}.encode_int{bits}")
            r = fresh_str(it, f"{name}.encode_int{bits}", "bytes")
            it.run.assume(z3.Length(r.e) == -(-bits // 6))
            return r

        return SStub(call, f"{name}.encode_int{bits}", trusted="C12 contract")

    def dec_bytes(it, args, kwargs):
        src = it.resolve(args[0])
        if not isinstance(src, (bytes, SStr)) or (isinstance(src, SStr) and src.kind != "bytes"):
            raise RaiseSig(SExc(exc_class("TypeError")), it.lineno)
        may_fail(it, "ValueError", f"{name}.decode_bytes")
        return fresh_str(it, f"{name}.decode_bytes", "bytes")

    def enc_bytes(it, args, kwargs):
        return fresh_str(it, f"{name}.encode_bytes", "bytes")

    def repair(it, args, kwargs):
        src = it.resolve(args[0])
        may_fail(it, "ValueError", f"{name}.check_repair_unused")
        out = fresh_str(it, f"{name}.repaired", it.kind_of(src) if isinstance(src, (str, bytes, SStr)) else "str")
        if isinstance(src, (str, bytes, SStr)):
            it.run.assume(z3.Length(out.e) == z3.Length(it.to_z3(src)))
        return (SBool(z3.Bool(it.run.fresh("repaired?"))), out)

    f = {"decode_bytes": SStub(dec_bytes, f"{name}.decode_bytes"), "encode_bytes": SStub(enc_bytes, f"{name}.encode_bytes"),
         "check_repair_unused": SStub(repair, f"{name}.check_repair_unused"),
         "repair_unused": SStub(lambda it, a, k: repair(it, a, k)[1], f"{name}.repair_unused"),
         "decode_transposed_bytes": SStub(dec_bytes, f"{name}.decode_transposed_bytes"),
         "encode_transposed_bytes": SStub(enc_bytes, f"{name}.encode_transposed_bytes")}
    for b in (6, 12, 24, 30, 64):
        f[f"decode_int{b}"] = dec_int(b)
        f[f"encode_int{b}"] = enc_int(b)
    return SObj(name, fields=f)


def _decoder(name, exc="ValueError", also_type=False):
    def call(it, args, kwargs):
        src = it.resolve(args[0])
        if also_type and not isinstance(src, (str, bytes, SStr)):
            raise RaiseSig(SExc(exc_class("TypeError")), it.lineno)
        may_fail(it, exc, name)
        if also_type:
            may_fail(it, "TypeError", name + ".type")
        return fresh_str(it, name, "bytes")

    return SStub(call, name, trusted=f"{name}: bytes or {exc}")


def _encoder(name):
    def call(it, a, k):
        r = fresh_str(it, name, "bytes")
        it.run.assume(it.all_codes_below(r.e, 128))  # text encoders return ASCII
        return r

    return SStub(call, name, trusted=f"{name}: returns ASCII bytes")


def _int_base(it, args, kwargs):
    """int(x[, base]) for the non-decimal bases used by the parsers: value >= 0 or ValueError"""
    return it.make_int(*args, **kwargs)


COMMON = {
    "re": RE,
    "h64": _engine("h64"), "h64big": _engine("h64big"), "bcrypt64": _engine("bcrypt64"),
    "b64s_decode": _decoder("b64s_decode", also_type=True), "b64s_encode": _encoder("b64s_encode"),
    "ab64_decode": _decoder("ab64_decode", also_type=True), "ab64_encode": _encoder("ab64_encode"),
    "unhexlify": _decoder("unhexlify", "binascii.Error"), "hexlify": _encoder("hexlify"),
    "b64decode": _decoder("b64decode", "binascii.Error"), "b64encode": _encoder("b64encode"),
    "warn": SStub(lambda it, a, k: None, "warn", trusted="warnings.warn does not raise"),
    "log": SObj("log", fields={m: SStub(lambda it, a, k: None, "log") for m in ("debug", "warning", "info", "error")}),
}
