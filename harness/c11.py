"""Bounded stand-in for C11: the pure-Python primitives equal their standards.
DES vs an independent bit-level FIPS 46-3 implementation (specs/ref_des.py), bcrypt core vs the bcrypt
package and crypt(3), MD4 vs an independent RFC 1320 implementation, scrypt (Salsa20/8, BlockMix, ROMix,
whole KDF) vs RFC 7914 reference code and hashlib.scrypt, HMAC / PBKDF1 / PBKDF2 vs RFC 2104 / RFC 2898
reference code and the stdlib, SASLprep vs an RFC 4013 implementation over the stringprep tables."""
import hashlib
import hmac as std_hmac
import os
import struct
import sys
import time
import unicodedata

sys.path.insert(0, os.path.join(os.path.dirname(os.path.abspath(__file__)), ".."))

from common import Group, main, outcome  # noqa: E402

from specs import ref_des as rd  # noqa: E402
from specs import ref_md4 as rm4  # noqa: E402
from specs import ref_oscrypt as oscrypt  # noqa: E402
from specs import ref_saslprep as rsp  # noqa: E402
from specs import ref_scrypt as rs  # noqa: E402

M64 = (1 << 64) - 1
BCRYPT64 = "./ABCDEFGHIJKLMNOPQRSTUVWXYZabcdefghijklmnopqrstuvwxyz0123456789"
STD64 = "ABCDEFGHIJKLMNOPQRSTUVWXYZabcdefghijklmnopqrstuvwxyz0123456789+/"


class TGroup(Group):
    """Group whose reported seconds are its own build time (common.Group measures until the final dump)"""

    def done(self):
        self.elapsed = round(time.time() - self.t0, 2)
        return self

    def out(self):
        d = super().out()
        d["seconds"] = getattr(self, "elapsed", d["seconds"])
        return d


def rbytes(rng, n):
    return bytes(rng.randrange(256) for _ in range(n))


# ---------------------------------------------------------------------------------------------
def des_groups(tier, rng, groups, skipped):
    from passlib.crypto import des as pd

    quick = tier == "quick"
    g = TGroup("des-block", "des_encrypt_int_block", "plain DES: every single-bit key x {zero, random} block, every single-bit block x {zero, weak, random} key, complements, %d random key/block pairs; int, 8-byte and 7-byte key entry points" % (512 if quick else 4096))
    pairs = []
    rk, rb = rng.getrandbits(64), rng.getrandbits(64)
    for i in range(64):
        pairs.append((1 << i, 0))
        pairs.append((1 << i, rb))
        pairs.append((0, 1 << i))
        pairs.append((0x0101010101010101, 1 << i))
        pairs.append((rk, 1 << i))
        pairs.append((M64 ^ (1 << i), M64 ^ (1 << i)))
    pairs += [(0, 0), (M64, M64), (0x133457799BBCDFF1, 0x0123456789ABCDEF), (0xFEFEFEFEFEFEFEFE, 0), (0x1F1F1F1F0E0E0E0E, rb), (0xE0E0E0E0F1F1F1F1, rb)]
    for _ in range(512 if quick else 4096):
        pairs.append((rng.getrandbits(64), rng.getrandbits(64)))
    for key, block in pairs:
        want = rd.des_encrypt_int(key, block)
        g.case(("int", key, block))
        w = {"key": "%016x" % key, "block": "%016x" % block, "want": "%016x" % want}
        o = outcome(pd.des_encrypt_int_block, key, block)
        g.check(o == ("ok", want), "des:int-block", "des_encrypt_int_block differs from FIPS 46-3", dict(w, outcome=repr(o)))
        o = outcome(pd.des_encrypt_block, key.to_bytes(8, "big"), block.to_bytes(8, "big"))
        g.check(o == ("ok", want.to_bytes(8, "big")), "des:bytes-block", "des_encrypt_block (8-byte key) differs from FIPS 46-3", dict(w, outcome=repr(o)))
        # parity bits must not matter
        o = outcome(pd.des_encrypt_int_block, key ^ 0x0101010101010101, block)
        g.check(o == ("ok", want), "des:parity-ignored", "flipping the parity bits of the key changes the result", dict(w, outcome=repr(o)))
        # 7-byte key entry: expand then encrypt
        k7 = rd.shrink_key_8to7(key.to_bytes(8, "big"))
        o = outcome(pd.des_encrypt_block, k7, block.to_bytes(8, "big"))
        g.check(o == ("ok", want.to_bytes(8, "big")), "des:7byte-key", "des_encrypt_block (7-byte key) differs from FIPS 46-3 on the expanded key", dict(w, key7=k7.hex(), outcome=repr(o)))
    groups.append(g.done())

    g = TGroup("des-salt-rounds", "des_encrypt_int_block", "crypt(3) variants: all 24 single-bit salts, salt 0 and 0xffffff, %d random salts; rounds 1..26 (and 25 for every single-bit salt); random keys/blocks" % (64 if quick else 512))
    cases = []
    for bit in range(24):
        cases.append((1 << bit, 1))
        cases.append((1 << bit, 25 if not quick or bit % 4 == 0 else 2))
        cases.append((0xFFFFFF ^ (1 << bit), 1))
    cases += [(0, 25), (0xFFFFFF, 1), (0xFFFFFF, 25), (0xFFF, 25), (0xFFF000, 3)]
    for r in range(1, 27):
        cases.append((0, r))
        cases.append((rng.getrandbits(24), r))
        cases.append((rng.getrandbits(12), r))
    for _ in range(64 if quick else 512):
        cases.append((rng.getrandbits(24), rng.choice((1, 1, 2, 3, 5))))
    if not quick:
        cases += [(rng.getrandbits(24), r) for r in (64, 100, 255, 256, 725)]
    for salt, rounds in cases:
        for key, block in ((rng.getrandbits(64), 0), (rng.getrandbits(64), rng.getrandbits(64))):
            want = rd.des_encrypt_int(key, block, salt, rounds)
            g.case((key, block, salt, rounds))
            w = {"key": "%016x" % key, "block": "%016x" % block, "salt": salt, "rounds": rounds, "want": "%016x" % want}
            o = outcome(pd.des_encrypt_int_block, key, block, salt, rounds)
            g.check(o == ("ok", want), "des:salted-int" if rounds == 1 else "des:salted-rounds-int", "salted / iterated DES differs from the reference", dict(w, outcome=repr(o)))
            o = outcome(pd.des_encrypt_block, key.to_bytes(8, "big"), block.to_bytes(8, "big"), salt, rounds)
            g.check(o == ("ok", want.to_bytes(8, "big")), "des:salted-bytes", "salted / iterated DES (bytes) differs from the reference", dict(w, outcome=repr(o)))
    # iterating equals composing single encryptions
    for _ in range(8 if quick else 64):
        key, block, salt = rng.getrandbits(64), rng.getrandbits(64), rng.getrandbits(24)
        x = block
        for r in range(1, 6):
            x = pd.des_encrypt_int_block(key, x, salt, 1)
            g.case(("compose", key, block, salt, r))
            g.check(pd.des_encrypt_int_block(key, block, salt, r) == x, "des:rounds-compose", "rounds=r differs from r single encryptions", {"key": "%016x" % key, "block": "%016x" % block, "salt": salt, "rounds": r})
    groups.append(g.done())

    g = TGroup("des-key-expand", "expand_des_key", "expand_des_key / shrink_des_key: every single-bit 56-bit key and 64-bit key, all-ones, %d random; bytes and int forms; round trip" % (256 if quick else 4096))
    k56 = [1 << i for i in range(56)] + [0, (1 << 56) - 1] + [rng.getrandbits(56) for _ in range(256 if quick else 4096)]
    for k in k56:
        kb = k.to_bytes(7, "big")
        want = rd.expand_key_7to8(kb)
        g.case(("expand", k))
        w = {"key56": kb.hex(), "want": want.hex()}
        o = outcome(pd.expand_des_key, kb)
        g.check(o == ("ok", want), "des:expand-bytes", "expand_des_key(bytes) is not the 7-bits-per-byte expansion with empty parity", dict(w, outcome=repr(o)))
        o = outcome(pd.expand_des_key, k)
        g.check(o == ("ok", int.from_bytes(want, "big")), "des:expand-int", "expand_des_key(int) differs", dict(w, outcome=repr(o)))
        o = outcome(pd.shrink_des_key, want)
        g.check(o == ("ok", kb), "des:shrink-roundtrip", "shrink_des_key(expand_des_key(k)) != k", dict(w, outcome=repr(o)))
    k64 = [1 << i for i in range(64)] + [0, M64] + [rng.getrandbits(64) for _ in range(256 if quick else 4096)]
    for k in k64:
        kb = k.to_bytes(8, "big")
        want = rd.shrink_key_8to7(kb)
        g.case(("shrink", k))
        w = {"key64": kb.hex(), "want": want.hex()}
        o = outcome(pd.shrink_des_key, kb)
        g.check(o == ("ok", want), "des:shrink-bytes", "shrink_des_key(bytes) does not drop exactly the parity bits", dict(w, outcome=repr(o)))
        o = outcome(pd.shrink_des_key, k)
        g.check(o == ("ok", int.from_bytes(want, "big")), "des:shrink-int", "shrink_des_key(int) differs", dict(w, outcome=repr(o)))
    groups.append(g.done())


# ---------------------------------------------------------------------------------------------
def bcrypt_group(tier, rng, groups, skipped):
    quick = tier == "quick"
    try:
        from passlib.crypto._blowfish import raw_bcrypt
    except Exception as err:  # noqa: BLE001
        skipped.append(f"bcrypt core: passlib.crypto._blowfish not importable: {err}")
        return
    try:
        import bcrypt as _bcrypt
    except Exception as err:  # noqa: BLE001
        _bcrypt = None
        skipped.append(f"bcrypt package oracle unavailable: {err}")
    has_os = oscrypt.available() and oscrypt.supported().get("bcrypt")
    if not has_os:
        skipped.append("crypt(3) bcrypt oracle unavailable on this host")
    if not _bcrypt and not has_os:
        skipped.append("bcrypt core: no oracle at all")
        return

    def salt22():
        import base64

        return base64.b64encode(rbytes(rng, 16)).decode().rstrip("=").translate(str.maketrans(STD64, BCRYPT64))

    g = TGroup("bcrypt-core", "raw_bcrypt", "raw_bcrypt vs the bcrypt package (<=72 bytes) and crypt(3): idents 2a/2b/2y x cost 4..6 x password lengths 0..72 (+73..75,255 against crypt(3)) x random salts" + (" [quick: every length at cost 4, costs 5/6 on 6 lengths]" if quick else ""))
    plan = []
    idents = ("2a", "2b", "2y")
    if quick:
        for n in range(0, 73):
            plan.append((n, idents[n % 3], 4))
        for n in (0, 1, 55, 56, 71, 72):
            plan.append((n, idents[(n + 1) % 3], 5))
        for n in (0, 8, 72):
            plan.append((n, idents[(n + 2) % 3], 6))
        plan += [(73, "2b", 4), (74, "2y", 4), (255, "2b", 4), (100, "2a", 4)]
    else:
        for n in range(0, 73):
            for ident in idents:
                for cost in (4, 5, 6):
                    plan.append((n, ident, cost))
        for n in (73, 74, 75, 100, 255):
            for ident in idents:
                plan.append((n, ident, 4))
    idx = 0
    for n, ident, cost in plan:
        idx += 1
        # NUL cannot be passed through crypt(3); the bcrypt package refuses it as well
        if ident == "2a" and (n > 72 or idx % 2):
            pw = bytes(rng.randrange(1, 128) for _ in range(n))  # crypt_blowfish's $2a$ adds a countermeasure for some 8-bit passwords
        else:
            pw = bytes(rng.randrange(1, 256) for _ in range(n))
        salt = salt22()
        cfg = "$%s$%02d$%s" % (ident, cost, salt)
        refs = []
        if _bcrypt and n <= 72:
            try:
                refs.append((_bcrypt.hashpw(pw, cfg.encode()).decode()[-31:], "bcrypt-package"))
            except Exception:  # noqa: BLE001
                pass
        if has_os and (ident != "2a" or max(pw, default=0) < 0x80):
            r = oscrypt.crypt(pw, cfg)
            if r:
                refs.append((r[-31:], "crypt(3)"))
        if not refs:
            continue
        g.case((pw, ident, cost, salt))
        w = {"password": {"bytes_hex": pw.hex()}, "ident": ident, "salt": salt, "log_rounds": cost, "refs": refs}
        if len({r for r, _ in refs}) > 1:
            g.fail("bcrypt-core:oracle-conflict", "the two oracles disagree", w)
            continue
        o = outcome(raw_bcrypt, pw, ident, salt.encode(), cost)
        g.check(o == ("ok", refs[0][0].encode()), "bcrypt-core:over72" if n > 72 else "bcrypt-core", "raw_bcrypt differs from %s" % "/".join(s for _, s in refs), dict(w, outcome=repr(o)))
    groups.append(g.done())


# ---------------------------------------------------------------------------------------------
def md4_group(tier, rng, groups, skipped):
    from passlib.crypto._md4 import md4

    quick = tier == "quick"
    g = TGroup("md4", "md4", "passlib.crypto._md4.md4 vs an RFC 1320 implementation: every message length 0..300 (thorough 0..1100), every 2-split for lengths <= 130, 3-splits sampled, copy() independence, digest() repeatable and non-finalising")
    top = 300 if quick else 1100
    msgs = {}
    for n in range(0, top + 1):
        msgs[n] = rbytes(rng, n)
    for n, m in msgs.items():
        want = rm4.md4(m)
        g.case(("oneshot", n))
        w = {"message": {"bytes_hex": m.hex()}, "want": want.hex()}
        o = outcome(lambda: md4(m).digest())
        g.check(o == ("ok", want), "md4:oneshot", "md4(m).digest() differs from RFC 1320", dict(w, outcome=repr(o)))
        o = outcome(lambda: md4(m).hexdigest())
        g.check(o == ("ok", want.hex()), "md4:hexdigest", "hexdigest differs", dict(w, outcome=repr(o)))
        h = md4()
        h.update(m)
        g.check(h.digest() == want, "md4:update", "md4().update(m) differs from one-shot", w)
    # RFC 1320 appendix A.5 test suite
    for m, hx in ((b"", "31d6cfe0d16ae931b73c59d7e0c089c0"), (b"a", "bde52cb31de33e46245e05fbdbd6fb24"), (b"abc", "a448017aaf21d8525fc10ae87aa6729d"), (b"message digest", "d9130a8164549fe818874806e1c7014b"),
                  (b"abcdefghijklmnopqrstuvwxyz", "d79e1c308aa5bbcdeea8ed63df412da9"), (b"1234567890" * 8, "e33b4ddc9c38f2199c3e7b164fcc0536")):
        g.case(("rfc", m))
        g.check(md4(m).hexdigest() == hx, "md4:rfc-vector", "RFC 1320 A.5 vector", {"message": m.decode(), "want": hx})
    for n in range(0, 131):
        m = msgs[n]
        want = rm4.md4(m)
        for cut in range(0, n + 1):
            h = md4()
            h.update(m[:cut])
            h.update(m[cut:])
            g.case(("split2", n, cut))
            g.check(h.digest() == want, "md4:split2", "two update() calls differ from one-shot", {"message": {"bytes_hex": m.hex()}, "cut": cut})
    for _ in range(300 if quick else 3000):
        n = rng.randrange(0, top + 1)
        m = msgs[n]
        a = rng.randrange(0, n + 1)
        b = rng.randrange(a, n + 1)
        h = md4(m[:a])
        h.update(m[a:b])
        mid = h.digest()  # must not finalise
        c = h.copy()
        h.update(m[b:])
        g.case(("split3", n, a, b))
        w = {"message": {"bytes_hex": m.hex()}, "cuts": [a, b]}
        g.check(h.digest() == rm4.md4(m), "md4:split3", "three-part hashing differs from one-shot", w)
        g.check(h.digest() == h.digest(), "md4:digest-repeat", "digest() twice differs", w)
        g.check(mid == rm4.md4(m[:b]), "md4:digest-midway", "digest() of the prefix differs / digest() finalised the state", w)
        g.check(c.digest() == rm4.md4(m[:b]), "md4:copy-independent", "copy() was affected by updates to the original", w)
        c.update(b"tail")
        g.check(c.digest() == rm4.md4(m[:b] + b"tail") and h.digest() == rm4.md4(m), "md4:copy-diverge", "copy and original are not independent", w)
    h = md4()
    g.check((h.name, h.digest_size, h.block_size) == ("md4", 16, 64), "md4:attrs", "name/digest_size/block_size", {"got": repr((h.name, h.digest_size, h.block_size))})
    groups.append(g.done())


# ---------------------------------------------------------------------------------------------
def scrypt_groups(tier, rng, groups, skipped):
    quick = tier == "quick"
    from passlib.crypto.scrypt._builtin import ScryptEngine
    from passlib.crypto.scrypt._salsa import salsa20

    g = TGroup("salsa20-8", "salsa20", "Salsa20/8 core vs RFC 7914 section 3: zero, all-ones, single-bit words (512), %d random inputs" % (500 if quick else 5000))
    inputs = [[0] * 16, [0xFFFFFFFF] * 16]
    for i in range(16):
        for b in range(32):
            x = [0] * 16
            x[i] = 1 << b
            inputs.append(x)
    inputs += [[rng.getrandbits(32) for _ in range(16)] for _ in range(500 if quick else 5000)]
    # RFC 7914 section 8 vector
    rfc_in = bytes.fromhex("7e879a214f3ec9867ca940e641718f26baee555b8c61c1b50df846116dcd3b1dee24f319df9b3d8514121e4b5ac5aa3276021d2909c74829edebc68db8b8c25e")
    rfc_out = bytes.fromhex("a41f859c6608cc993b81cacb020cef05044b2181a2fd337dfd7b1c6396682f29b4393168e3c9e6bcfe6bc5b7a06d96bae424cc102c91745c24ad673dc7618f81")
    o = outcome(lambda: struct.pack("<16I", *salsa20(struct.unpack("<16I", rfc_in))))
    g.case("rfc7914-8")
    g.check(o == ("ok", rfc_out), "salsa:rfc-vector", "RFC 7914 section 8 vector", {"outcome": repr(o)})
    for x in inputs:
        want = rs.salsa20_8_words(x)
        g.case(tuple(x))
        o = outcome(lambda: list(salsa20(iter(x))))
        g.check(o == ("ok", want), "salsa", "salsa20() differs from the RFC 7914 reference code", {"input": x, "want": want, "outcome": repr(o)[:300]})
    groups.append(g.done())

    g = TGroup("scrypt-blockmix-romix", "ScryptEngine.smix", "bmix vs scryptBlockMix for r 1..8 (16 random blocks each); smix vs scryptROMix for N in 2..%d x r 1..4" % (64 if quick else 256))
    for r in range(1, 9):
        eng = ScryptEngine(4, r, 1)
        for _ in range(16 if quick else 64):
            b = rbytes(rng, 128 * r)
            src = list(struct.unpack("<%dI" % (32 * r), b))
            tgt = [0] * (32 * r)
            want = rs.block_mix(b, r)
            g.case(("bmix", r, b))
            o = outcome(lambda: (eng.bmix(tuple(src), tgt), struct.pack("<%dI" % (32 * r), *tgt))[1])
            g.check(o == ("ok", want), f"scrypt:bmix:r{1 if r == 1 else 'N'}", "bmix differs from scryptBlockMix", {"r": r, "block": {"bytes_hex": b.hex()}, "outcome": repr(o)[:200]})
    n = 2
    while n <= (64 if quick else 256):
        for r in (1, 2, 3, 4):
            if quick and n > 16 and r > 2:
                continue
            b = rbytes(rng, 128 * r)
            want = rs.romix(b, n, r)
            g.case(("smix", n, r, b))
            o = outcome(lambda: ScryptEngine(n, r, 1).smix(b))
            g.check(o == ("ok", want), "scrypt:smix", "smix differs from scryptROMix", {"n": n, "r": r, "block": {"bytes_hex": b.hex()}, "outcome": repr(o)[:200]})
        n *= 2
    groups.append(g.done())

    if not hasattr(hashlib, "scrypt"):
        skipped.append("scrypt whole-KDF comparison against hashlib.scrypt: not available on this host (RFC 7914 reference code used alone)")
    g = TGroup("scrypt-kdf", "ScryptEngine.run", "ScryptEngine.execute vs hashlib.scrypt: N in 2..2^%d, r 1..8, p 1..4, keylen 1..130, secret/salt lengths 0..200 (sampled: %s)" % (10 if quick else 12, "budgeted by N*r*p" ))
    params = []
    # RFC 7914 section 12 vector 1 and a cheap grid, then samples under a work budget
    params.append((b"", b"", 16, 1, 1, 64))
    for ln in range(1, 7 if quick else 9):
        for r in (1, 2, 3, 8) if quick else range(1, 9):
            for p in (1, 2) if quick else (1, 2, 3, 4):
                if (1 << ln) * r * p > (512 if quick else 4096):
                    continue
                params.append((rbytes(rng, rng.randrange(0, 40)), rbytes(rng, rng.randrange(0, 40)), 1 << ln, r, p, rng.randrange(1, 131)))
    big = [(1 << 10, 1, 1)] if quick else [(1 << 10, 1, 1), (1 << 10, 2, 2), (1 << 11, 1, 1), (1 << 12, 1, 1), (1 << 9, 8, 1), (1 << 7, 8, 4)]
    for n, r, p in big:
        params.append((rbytes(rng, 9), rbytes(rng, 16), n, r, p, 32))
    for keylen in list(range(1, 131)) if not quick else [1, 2, 31, 32, 33, 63, 64, 65, 96, 127, 128, 129, 130]:
        params.append((rbytes(rng, keylen % 50), rbytes(rng, (keylen * 7) % 33), 2 << (keylen % 3), 1 + keylen % 2, 1 + keylen % 3, keylen))
    for slen in (0, 1, 63, 64, 65, 200):
        params.append((rbytes(rng, slen), rbytes(rng, 200 - slen), 4, 1, 1, 32))
    for secret, salt, n, r, p, keylen in params:
        if hasattr(hashlib, "scrypt"):
            try:
                want = hashlib.scrypt(secret, salt=salt, n=n, r=r, p=p, dklen=keylen)
            except ValueError:
                want = rs.scrypt(secret, salt, n, r, p, keylen)
        else:
            want = rs.scrypt(secret, salt, n, r, p, keylen)
        g.case((secret, salt, n, r, p, keylen))
        o = outcome(ScryptEngine.execute, secret, salt, n, r, p, keylen)
        g.check(o == ("ok", want), "scrypt:kdf", "builtin scrypt differs from hashlib.scrypt / RFC 7914", {"secret": {"bytes_hex": secret.hex()}, "salt": {"bytes_hex": salt.hex()}, "n": n, "r": r, "p": p, "keylen": keylen, "want": want.hex(), "outcome": repr(o)[:300]})
    # the public front end with the builtin backend selected
    import passlib.crypto.scrypt as ps

    if ps._has_backend("builtin"):
        prev = ps.backend
        try:
            ps._set_backend("builtin")
            for secret, salt, n, r, p, keylen in params[:12]:
                want = rs.scrypt(secret, salt, n, r, p, keylen)
                g.case(("frontend", secret, salt, n, r, p, keylen))
                o = outcome(ps.scrypt, secret, salt, n, r, p, keylen)
                g.check(o == ("ok", want), "scrypt:frontend-builtin", "passlib.crypto.scrypt.scrypt (builtin backend) differs", {"secret": {"bytes_hex": secret.hex()}, "salt": {"bytes_hex": salt.hex()}, "n": n, "r": r, "p": p, "keylen": keylen, "outcome": repr(o)[:300]})
        finally:
            ps._set_backend(prev)
    groups.append(g.done())


# ---------------------------------------------------------------------------------------------
def ref_hash(alg):
    """(one-shot function, block size, digest size) from a source independent of passlib"""
    if alg == "md4":
        return rm4.md4, 64, 16
    h = hashlib.new(alg)
    return (lambda d: hashlib.new(alg, d).digest()), h.block_size, h.digest_size


def ref_hmac(alg, key, msg):
    f, block, _ = ref_hash(alg)
    if len(key) > block:
        key = f(key)
    key = key + bytes(block - len(key))
    return f(bytes(k ^ 0x5C for k in key) + f(bytes(k ^ 0x36 for k in key) + msg))


def ref_pbkdf2(alg, secret, salt, rounds, keylen):
    _, _, hlen = ref_hash(alg)
    out = b""
    i = 1
    while len(out) < keylen:
        u = ref_hmac(alg, secret, salt + struct.pack(">I", i))
        t = int.from_bytes(u, "big")
        for _ in range(rounds - 1):
            u = ref_hmac(alg, secret, u)
            t ^= int.from_bytes(u, "big")
        out += t.to_bytes(hlen, "big")
        i += 1
    return out[:keylen]


def digest_groups(tier, rng, groups, skipped):
    from passlib.crypto import digest as pd

    quick = tier == "quick"
    algs = []
    for alg in ("md5", "sha1", "sha224", "sha256", "sha384", "sha512", "sha3_256", "sha3_512", "blake2b", "blake2s", "ripemd160", "sm3", "md4"):
        try:
            info = pd.lookup_hash(alg)
            info.const()
            if alg != "md4":
                hashlib.new(alg)
        except Exception as err:  # noqa: BLE001
            skipped.append(f"digest {alg}: not available on this host ({type(err).__name__})")
            continue
        algs.append(alg)

    g = TGroup("hmac", "compile_hmac", "compile_hmac vs RFC 2104 (and the stdlib hmac module): digests %s x key lengths {0,1,block-1,block,block+1,2*block+3,digest_size} x message lengths {0,1,block-1,block,block+1,200}; multipart update in every 2-split of a 70-byte message, finalize() repeatable" % ",".join(algs))
    for alg in algs:
        f, block, ds = ref_hash(alg)
        info = pd.lookup_hash(alg)
        g.check((info.digest_size, info.block_size) == (ds, block), f"hmac:info:{alg}", "lookup_hash sizes differ", {"alg": alg, "got": [info.digest_size, info.block_size], "want": [ds, block]})
        for klen in (0, 1, block - 1, block, block + 1, 2 * block + 3, ds):
            key = rbytes(rng, klen)
            for mlen in (0, 1, block - 1, block, block + 1, 200):
                msg = rbytes(rng, mlen)
                want = ref_hmac(alg, key, msg)
                if alg != "md4":
                    lib = std_hmac.new(key, msg, alg).digest()
                    if lib != want:
                        raise RuntimeError(f"reference HMAC disagrees with the stdlib for {alg}")
                g.case((alg, key, msg))
                w = {"digest": alg, "key": {"bytes_hex": key.hex()}, "msg": {"bytes_hex": msg.hex()}, "want": want.hex()}
                o = outcome(lambda: pd.compile_hmac(alg, key)(msg))
                g.check(o == ("ok", want), f"hmac:{alg}", "compile_hmac(...)(msg) differs from RFC 2104", dict(w, outcome=repr(o)))
        key = rbytes(rng, 20)
        msg = rbytes(rng, 70)
        mk = pd.compile_hmac(alg, key, multipart=True)
        for cut in range(0, 71):
            update, finalize = mk()
            update(msg[:cut])
            mid = finalize()
            update(msg[cut:])
            g.case((alg, "multipart", cut))
            w = {"digest": alg, "key": {"bytes_hex": key.hex()}, "msg": {"bytes_hex": msg.hex()}, "cut": cut}
            g.check(mid == ref_hmac(alg, key, msg[:cut]), f"hmac:multipart-mid:{alg}", "finalize() midway differs from the HMAC of the prefix", w)
            g.check(finalize() == ref_hmac(alg, key, msg) and finalize() == ref_hmac(alg, key, msg), f"hmac:multipart:{alg}", "multipart HMAC differs from one-shot / finalize() not repeatable", w)
        # two streams from one compiled function are independent
        u1, f1 = mk()
        u2, f2 = mk()
        u1(b"abc")
        u2(b"xyz")
        g.check(f1() == ref_hmac(alg, key, b"abc") and f2() == ref_hmac(alg, key, b"xyz"), f"hmac:multipart-independent:{alg}", "two multipart streams share state", {"digest": alg})
        # str key is UTF-8
        o = outcome(lambda: pd.compile_hmac(alg, "k\u00e9y")(b"m"))
        g.check(o == ("ok", ref_hmac(alg, "k\u00e9y".encode(), b"m")), f"hmac:str-key:{alg}", "str key is not taken as UTF-8", {"digest": alg, "outcome": repr(o)})
    groups.append(g.done())

    g = TGroup("pbkdf1", "pbkdf1", "pbkdf1 vs RFC 2898 section 5.1: digests x rounds {1,2,3,4,5,100} x keylen {None,0,1,digest-1,digest} x secret/salt lengths")
    for alg in algs:
        f, block, ds = ref_hash(alg)
        for rounds in (1, 2, 3, 4, 5, 100):
            for keylen in (None, 0, 1, ds - 1, ds):
                secret = rbytes(rng, rng.choice((0, 1, 8, block, block + 1)))
                salt = rbytes(rng, rng.choice((0, 1, 8, 16)))
                t = secret + salt
                for _ in range(rounds):
                    t = f(t)
                want = t if keylen is None else t[:keylen]
                g.case((alg, secret, salt, rounds, keylen))
                o = outcome(pd.pbkdf1, alg, secret, salt, rounds, keylen)
                g.check(o == ("ok", want), f"pbkdf1:{alg}", "pbkdf1 differs from RFC 2898", {"digest": alg, "secret": {"bytes_hex": secret.hex()}, "salt": {"bytes_hex": salt.hex()}, "rounds": rounds, "keylen": keylen, "want": want.hex(), "outcome": repr(o)})
    groups.append(g.done())

    g = TGroup("pbkdf2", "pbkdf2_hmac", "pbkdf2_hmac vs RFC 2898 section 5.2 reference code (and hashlib.pbkdf2_hmac): digests x rounds {1,2,3,10,100%s} x keylen None,1..2*digest+5 x secret lengths around the block size" % ("" if quick else ",1000"))
    rfc6070 = [(b"password", b"salt", 1, 20, "0c60c80f961f0e71f3a9b524af6012062fe037a6"), (b"password", b"salt", 2, 20, "ea6c014dc72d6f8ccd1ed92ace1d41f0d8de8957"), (b"password", b"salt", 4096, 20, "4b007901b765489abead49d926f721d065a429c1"),
               (b"pass\0word", b"sa\0lt", 4096, 16, "56fa6aa75548099dcc37d7f03425e0c3")]
    for secret, salt, rounds, keylen, hx in rfc6070:
        g.case(("rfc6070", secret, rounds))
        o = outcome(pd.pbkdf2_hmac, "sha1", secret, salt, rounds, keylen)
        g.check(o == ("ok", bytes.fromhex(hx)), "pbkdf2:rfc6070", "RFC 6070 vector", {"secret": secret.decode(), "rounds": rounds, "outcome": repr(o)})
    for alg in algs:
        f, block, ds = ref_hash(alg)
        if alg == "md4":
            # hashlib has no md4 here; passlib documents hashlib.pbkdf2_hmac as its only backend
            o = outcome(pd.pbkdf2_hmac, "md4", b"secret", b"salt", 2, 20)
            g.case(("md4", "probe"))
            if o[0] == "ok":
                g.check(o[1] == ref_pbkdf2("md4", b"secret", b"salt", 2, 20), "pbkdf2:md4", "pbkdf2_hmac(md4) differs from the reference", {"outcome": repr(o)})
            else:
                skipped.append(f"pbkdf2_hmac('md4'): refused on this host ({o[1]}: {o[2]}); hashlib lacks md4 and pbkdf2_hmac has no pure-Python path")
            continue
        keylens = [None] + (list(range(1, 2 * ds + 6)) if not quick or ds <= 20 else [1, 2, ds - 1, ds, ds + 1, 2 * ds - 1, 2 * ds, 2 * ds + 1, 2 * ds + 5])
        for i, keylen in enumerate(keylens):
            rounds = (1, 2, 3, 10, 100)[i % 5] if quick or i % 11 else 1000
            secret = rbytes(rng, (0, 1, block - 1, block, block + 1, 2 * block + 3)[i % 6])
            salt = rbytes(rng, (0, 1, 8, 16, 64)[i % 5])
            want = ref_pbkdf2(alg, secret, salt, rounds, ds if keylen is None else keylen)
            lib = hashlib.pbkdf2_hmac(alg, secret, salt, rounds, keylen)
            if lib != want:
                raise RuntimeError(f"reference PBKDF2 disagrees with hashlib for {alg}")
            g.case((alg, secret, salt, rounds, keylen))
            o = outcome(pd.pbkdf2_hmac, alg, secret, salt, rounds, keylen)
            g.check(o == ("ok", want), f"pbkdf2:{alg}", "pbkdf2_hmac differs from RFC 2898", {"digest": alg, "secret": {"bytes_hex": secret.hex()}, "salt": {"bytes_hex": salt.hex()}, "rounds": rounds, "keylen": keylen, "want": want.hex(), "outcome": repr(o)})
        o = outcome(pd.pbkdf2_hmac, alg, "p\u00e4ss", "s\u00e4lt", 2, 10)
        g.check(o == ("ok", ref_pbkdf2(alg, "p\u00e4ss".encode(), "s\u00e4lt".encode(), 2, 10)), f"pbkdf2:str:{alg}", "str secret/salt are not taken as UTF-8", {"digest": alg, "outcome": repr(o)})
    groups.append(g.done())


# ---------------------------------------------------------------------------------------------
def saslprep_groups(tier, rng, groups, skipped, host):
    import stringprep

    from passlib.utils import saslprep

    quick = tier == "quick"

    def ref_outcomes(s):
        """acceptable outcomes.  Two points the RFCs leave open are accepted either way: RFC 3454 pins the
        Unicode 3.2 normaliser while implementations use the current one (5 code points differ), and U+200B is
        in both mapping tables (to SPACE / to nothing) with no stated precedence"""
        outs = []
        for b1_first in (False, True) if "\u200b" in s else (False,):
            for ucd in (unicodedata, unicodedata.ucd_3_2_0):
                try:
                    outs.append(("ok", rsp.saslprep(s, ucd=ucd, b1_first=b1_first)))
                except rsp.Prohibited:
                    outs.append(("reject",))
        return outs

    def key_for(base, s, o, refs):
        """name the witness class: code points unassigned in Unicode 3.2 that a modern NFKC rewrites"""
        if o[0] == "crash":
            return base + ":crash"
        if o[0] == "ok" and all(r == ("reject",) for r in refs) and any(stringprep.in_table_a1(ch) for ch in s):
            try:
                if rsp.saslprep(s, a1_on_output_only=True, b1_first=True) == o[1] or rsp.saslprep(s, a1_on_output_only=True) == o[1]:
                    return base + ":unassigned-3.2-input-accepted"
            except rsp.Prohibited:
                pass
        return base

    def got(s):
        try:
            return ("ok", saslprep(s))
        except ValueError:
            return ("reject",)
        except Exception as err:  # noqa: BLE001
            return ("crash", type(err).__name__, str(err)[:80])

    g = TGroup("saslprep-single", "saslprep", "every code point as a one-character string%s; also embedded as 'a'+c+'b'" % (" [quick: all below U+3000, every member of tables B.1/C.1.2/C.2/C.4..C.9/D.1, surrogates and planes 1..16 with stride 37]" if quick else ""))
    if quick:
        cps = set(range(0x3000))
        for cp in range(0x3000, 0x110000):
            c = chr(cp)
            if cp % 37 == 0 or (stringprep.in_table_a1(c) and not 0xD800 <= cp <= 0xDFFF and unicodedata.normalize("NFKC", c) != c) or stringprep.in_table_b1(c) or stringprep.in_table_c12(c) or stringprep.in_table_c21_c22(c) or stringprep.in_table_c4(c) or stringprep.in_table_c6(c) or stringprep.in_table_c7(c) or stringprep.in_table_c8(c) or stringprep.in_table_c9(c) or stringprep.in_table_d1(c):
                cps.add(cp)
            elif cp % 7 == 0 and 0xD800 <= cp <= 0xDFFF:
                cps.add(cp)
        cps |= {0x2F868, 0x2F874, 0x2F91F, 0x2F95F, 0x2F9BF, 0x10FFFF, 0xE000, 0xF8FF, 0xFFFD, 0xFEFF}
        cps = sorted(cps)
    else:
        cps = range(0x110000)
    ndiff = 0
    for cp in cps:
        c = chr(cp)
        refs = ref_outcomes(c)
        if refs[0] != refs[1]:
            ndiff += 1
        o = got(c)
        g.case(cp)
        g.check(o in refs, key_for("saslprep:single", c, o, refs), "saslprep(chr(cp)) differs from RFC 4013", {"codepoint": "U+%04X" % cp, "got": repr(o), "want": repr(refs[0])})
        if cp % (11 if quick else 3) == 0 or cp < 0x800:
            s = "a" + c + "b"
            o = got(s)
            g.check(o in ref_outcomes(s), key_for("saslprep:embedded", s, o, ref_outcomes(s)), "saslprep('a'+chr(cp)+'b') differs from RFC 4013", {"codepoint": "U+%04X" % cp, "got": repr(o), "want": repr(ref_outcomes(s)[0])})
    host["saslprep_nfkc_unicode32_vs_current_codepoints"] = ndiff
    groups.append(g.done())

    g = TGroup("saslprep-bidi", "saslprep", "all ordered pairs of 64 representative characters (LCat, RandALCat, neutral, digits, mapped-to-space, mapped-to-nothing, combining, prohibited, NFKC-expanding) and all triples of 16 of them; RFC 4013 section 3 examples; type errors")
    reps = (
        list("aZ09 .-_")
        + ["\u00e9", "\u00df", "\u03a9", "\u0436", "\u65e5", "\U00010400"]  # LCat
        + ["\u05d0", "\u05ea", "\u0627", "\u0628", "\u0661", "\u06f1", "\ufb1d", "\ufe8d", "\u200f", "\u0710", "\u07b1"]  # RandALCat (incl. RLM), arabic-indic digits (AN / EN)
        + ["\u00a0", "\u2003", "\u1680", "\u3000", "\u200b"]  # C.1.2 (mapped to space)
        + ["\u00ad", "\u034f", "\u200c", "\u200d", "\u2060", "\ufe00", "\ufeff", "\u1806"]  # B.1 (mapped to nothing)
        + ["\u0301", "\u0308", "\u064b", "\u05b0"]  # combining marks
        + ["\u00aa", "\u2168", "\ufb01", "\u2126", "\u212b", "\uff21", "\u00bd", "\u3392", "\ufdfa"]  # NFKC-expanding (the last one expands to RandALCat text)
        + ["\x00", "\x07", "\x7f", "\u0085", "\u06dd", "\ue000", "\ufffe", "\ufffd", "\u2ff0", "\u0340", "\u202e", "\u206a", "\U000e0001", "\u0378", "\ud800", "\u200e"]  # prohibited / unassigned / LRM
    )
    assert len(reps) >= 64 and len(set(reps)) == len(reps)
    for a in reps:
        for b in reps:
            s = a + b
            o = got(s)
            g.case(s)
            g.check(o in ref_outcomes(s), key_for("saslprep:pair", s, o, ref_outcomes(s)), "saslprep on a two-character string differs from RFC 4013", {"string": [hex(ord(ch)) for ch in s], "got": repr(o), "want": repr(ref_outcomes(s)[0])})
    small = ["a", "1", " ", "\u05d0", "\u0627", "\u0661", "\u00ad", "\u00a0", "\u0301", "\ufdfa", "\u2168", "\x07", "\u200f", "\u200e", "\u00e9", "\ufb1d"]
    for a in small:
        for b in small:
            for c in small:
                s = a + b + c
                o = got(s)
                g.case(s)
                g.check(o in ref_outcomes(s), key_for("saslprep:triple", s, o, ref_outcomes(s)), "saslprep on a three-character string differs from RFC 4013", {"string": [hex(ord(ch)) for ch in s], "got": repr(o), "want": repr(ref_outcomes(s)[0])})
    # RFC 4013 section 3
    for s, want in (("I\u00adX", ("ok", "IX")), ("user", ("ok", "user")), ("USER", ("ok", "USER")), ("\u00aa", ("ok", "a")), ("\u2168", ("ok", "IX")), ("\u0007", ("reject",)), ("\u06271", ("reject",)), ("", ("ok", ""))):
        o = got(s)
        g.case(("rfc4013", s))
        g.check(o == want, "saslprep:rfc-example", "RFC 4013 section 3 example", {"string": [hex(ord(ch)) for ch in s], "got": repr(o), "want": repr(want)})
    for bad in (b"abc", None, 5):
        o = outcome(saslprep, bad)
        g.case(("type", repr(bad)))
        g.check(o[0] == "exc" and o[1] == "TypeError", "saslprep:type", "non-str input not refused with TypeError", {"input": repr(bad), "outcome": repr(o)})
    # random longer strings over the representatives
    for _ in range(500 if quick else 20000):
        s = "".join(rng.choice(reps) for _ in range(rng.randrange(1, 9)))
        o = got(s)
        g.case(s)
        g.check(o in ref_outcomes(s), key_for("saslprep:random", s, o, ref_outcomes(s)), "saslprep on a random string differs from RFC 4013", {"string": [hex(ord(ch)) for ch in s], "got": repr(o), "want": repr(ref_outcomes(s)[0])})
    groups.append(g.done())


def build(tier, rng):
    groups, skipped, host = [], [], {"python": sys.version.split()[0], "unidata": unicodedata.unidata_version}
    des_groups(tier, rng, groups, skipped)
    bcrypt_group(tier, rng, groups, skipped)
    md4_group(tier, rng, groups, skipped)
    scrypt_groups(tier, rng, groups, skipped)
    digest_groups(tier, rng, groups, skipped)
    saslprep_groups(tier, rng, groups, skipped, host)
    return groups, skipped, host


if __name__ == "__main__":
    main(build)
