NOTES = "Contract-based deductive verification of the real code (see DESIGN.md). Exit codes: 0 held, 1 violation (+VIOLATION line), 3 checker error."
NOT_APPLICABLE = {
    "C19": "quantifies over thread schedules; function-modular contracts over sequential semantics cannot express or decide interleavings, and no installed deductive tool for Python adds them (DESIGN.md section 6, C19)",
}
CHECKS = {
    "C06": dict(
        category="proof",
        technique="contracts + loop invariants on getrandbytes/getrandstr discharged by z3/cvc5 (pyvc); bijection lemma; bounded exhaustive stand-in",
        text="getrandbytes/getrandstr are proved, for every count and every value of the single rng draw, to return exactly the base-256/base-L digits of that draw (loop invariants over the real source); the digit step map is proved bijective, so a uniform draw yields a uniform output of the declared size and alphabet. Salt/key generators are checked to delegate to these helpers.",
        note="trusted: pyvc VC generator, z3/cvc5, rng range contracts (random.Random), induction over n of the digits bijection argued on paper (step mechanised); float-based entropy->length in passlib.pwd is bounded only",
    ),
    "C11": dict(
        category="proof",
        technique="ghost lock-step contracts on MD4 compression and Salsa20/8 (BV64 + no-overflow obligations), DES key conversion, scrypt.validate, discharged by z3; bounded stand-in vs independent references for DES/bcrypt/ROMix/HMAC/PBKDF/SASLprep",
        text="MD4's compression function and Salsa20/8 are proved equal to RFC 1320 / RFC 7914 for every state and block by per-step cut points over the real source; DES 7<->8 byte key conversion, scrypt parameter validation are proved for all integers. The table-driven DES rounds, the bcrypt core, ROMix, HMAC/PBKDF1/2 and SASLprep are compared with independent references on stated bounds (never counted as proved).",
        note="trusted: pyvc, z3/cvc5, struct unpack model, RFC transcriptions in /verif/specs; digests from hashlib; bounded parts are bounded",
    ),
    "C12": dict(
        category="proof",
        technique="contracts on the real chunk codecs and integer codecs executed symbolically per shape, round-trip lemmas over the 24-bit group definition, z3/cvc5; bounded exhaustive stand-in",
        text="Every chunk encoder/decoder of Base64Engine (and libpass' copies) is proved equal to the 24-bit group definition for all byte values on every shape chunks<=2 x tail, integer codecs (12/24/30/64 bit, both bit orders) for all integers including refusals, and decode.encode = id as lemmas; the real engines are additionally run on every 1-/2-byte group and compared with stdlib base64.",
        note="trusted: pyvc, z3/cvc5, stream-map meta-rule (per-iteration independence) for chunk counts > 2, abstract charmap with dec(enc(i)) = i; stdlib wrappers (b64s/ab64/b32) bounded only",
    ),
    "C13": dict(
        category="proof",
        technique="contracts on TOTP._generate / generate / normalize_token discharged by z3/cvc5 (dynamic truncation, decimal rendering abstraction); bounded stand-in vs RFC reference",
        text="TOTP._generate is proved to return RFC 4226's dynamic truncation of the HMAC value modulo 10^digits, zero padded to exactly `digits` characters, for every counter, every digest of 20..64 bytes and digits 6..10; generate() uses counter floor(time/period) and reports the validity interval. Key text forms, float/datetime times and HMAC itself are covered by the bounded stand-in / C11.",
        note="trusted: pyvc incl. the decimal-rendering meta-rule, z3/cvc5, struct model, HMAC abstract",
    ),
    "C14": dict(
        category="proof",
        technique="contracts on TOTP.match/_find_match with loop invariant (earliest match) and an uninterpreted counter->token map, discharged by z3; exhaustive small-domain stand-in",
        text="For all integer time/skew/window/period/last_counter and any token function, match() is proved to search exactly the stated counter range, return the earliest matching counter later than the last used one, raise UsedTokenError/InvalidTokenError/MalformedTokenError exactly in the stated cases and fill TotpMatch correctly; accepted counters strictly increase when fed back.",
        note="trusted: pyvc, z3 (quantifier instantiation for the 'no earlier match' invariant), consteq == equality; induction over the history argued from the proved two-call step",
    ),
    "C01": dict(
        category="other",
        technique='contracts checked on the real hash/verify over a stated finite grid (bounded stand-in); proof part pending',
        text="Every registered hasher (+ prefix wrappers, disabled hashers, libpass hashers) is run over a grid of passwords x settings x context keywords: ASCII result, identify, verify True for text and bytes, False for >= 20 near misses outside the tabulated equivalences. bounded stand-in: the property's contracts are evaluated on the real functions over the finite domains stated in the evidence (coverage.bounded); labelled bounded, never counted as proved",
        note='trusted: digest primitives, equivalence table transcribed from the format documentation; collision resistance for the negative direction',
    ),
    "C02": dict(
        category="other",
        technique='comparison with independent reference implementations written from the published specifications, crypt(3), Django, bcrypt, hashlib.scrypt (bounded stand-in)',
        text='Both directions (passlib output == reference output; reference/crypt(3)/Django strings verify under passlib) for ~85 formats over the length/salt/cost grid of the property statement. Foreign code (libcrypt, OpenSSL, bcrypt) cannot be put under contract, so this property is decided by the bounded comparison.',
        note='trusted: the references in /verif/specs (self-tested against RFC vectors / crypt(3)), hashlib, legacycrypt, Django, bcrypt',
    ),
    "C03": dict(
        category="other",
        technique='every ordered pair of loadable backends compared on enumerated inputs; switching sequences (bounded stand-in)',
        text='Each advertised backend the host demonstrably supports must be reported, selectable and agree with every other backend and with an independent oracle; backend switching sequences must not disturb other hashers. Equality with libcrypt/OpenSSL/bcrypt-C is foreign code, hence bounded.',
        note='trusted: host probes (crypt(3) test vectors), independent oracles',
    ),
    "C04": dict(
        category="other",
        technique='contracts on rounds-policy arithmetic, verify_and_update, identify_record, libpass CryptContext discharged by z3 (pyvc) + generated configurations vs a policy oracle',
        text="Rounds clipping, variation range, fresh-cost-never-stale, needs_update arithmetic, verify_and_update's outcome shape, first-claimant identification (<= 3 schemes) and the libpass context are verified from the real source for all integers / None combinations; refuted obligations correspond to recorded known findings (bsdi_crypt odd rounds, duplicate libpass scheme), so the run is reported at level 'other'. Context-level option inheritance is compared with a policy oracle on ~3000 generated configurations.",
        note='trusted: pyvc, z3, rng.randint range contract, float vary_rounds bounded only',
    ),
    "C05": dict(
        category="other",
        technique='contracts checked on the real hashers over boundary-length multi-byte passwords, 4095/4096/4097 and NUL positions (bounded stand-in); proof part pending',
        text="Truncating hashers x truncate_error on/off (hasher and context level) x byte lengths limit-1/limit/limit+1 built from 1-4 byte characters x str/bytes; every hasher at 4095/4096/4097; NUL at every position <= 16 for crypt-compatible formats. bounded stand-in: the property's contracts are evaluated on the real functions over the finite domains stated in the evidence (coverage.bounded); labelled bounded, never counted as proved",
        note='trusted: digest primitives; PASSLIB_MAX_PASSWORD_SIZE unset (4096)',
    ),
    "C07": dict(
        category="other",
        technique='parse/render round trips over generated hashes of every hasher, libpass inspect/PHC records (bounded stand-in); proof part pending',
        text="from_string/to_string fixpoints, parsed settings == settings used, canonical forms (hex case, padding bits), config-only forms, prefix wrappers, libpass inspect_* and PHC records over generated field values. bounded stand-in: the property's contracts are evaluated on the real functions over the finite domains stated in the evidence (coverage.bounded); labelled bounded, never counted as proved",
        note='trusted: regex engine, stdlib codecs',
    ),
    "C08": dict(
        category="other",
        technique='single-edit neighbours of valid hashes and arbitrary strings through identify/verify/needs_update of every hasher and CryptContext (bounded stand-in); proof part pending',
        text="~100k mutants (substitution from a hostile alphabet, deletion, insertion, truncation, separators, numbers) x str/bytes: identify never raises, verify/needs_update answer or raise ValueError/TypeError, an altered digest or setting never verifies unless it decodes to the same bits. bounded stand-in: the property's contracts are evaluated on the real functions over the finite domains stated in the evidence (coverage.bounded); labelled bounded, never counted as proved",
        note='trusted: second-preimage resistance of the digests',
    ),
    "C09": dict(
        category="other",
        technique='contracts on norm_integer and HasRounds.using (all None/int/string combinations, frame: no write outside the fresh subclass) discharged by z3/cvc5 (pyvc) + option grids on all hashers',
        text="norm_integer (strict refusal / relaxed clamping) and HasRounds.using are verified from the real source: aliases exclusive, hard limits respected, policy invariant established, parent class never written. The inductive form (derive from derived) is refuted in the witness class of the recorded known finding, so the run is reported at level 'other'. All other using() overrides are exercised by the bounded stand-in.",
        note='trusted: pyvc, z3/cvc5, MinimalHandler.using returns a fresh subclass, int(str) model',
    ),
    "C10": dict(
        category="other",
        technique='export/import equality and failed-change invariance on generated configurations, raising hasher at k-th call (bounded stand-in); proof part pending',
        text="to_dict/to_string/copy/update round trips compared on exported configuration and decisions; 35 kinds of invalid change at every position and a custom hasher raising at call k: state identical afterwards. bounded stand-in: the property's contracts are evaluated on the real functions over the finite domains stated in the evidence (coverage.bounded); labelled bounded, never counted as proved",
        note='trusted: configparser',
    ),
    "C15": dict(
        category="other",
        technique='round trips through uri/json/dict over hostile labels and class defaults; corrupted sources (bounded stand-in); proof part pending',
        text="8 TOTP classes x keys x algorithms x digits x periods x hostile labels/issuers x three formats x three load paths; corrupted sources must raise ValueError. Wallet AES path skipped (cryptography not installed). bounded stand-in: the property's contracts are evaluated on the real functions over the finite domains stated in the evidence (coverage.bounded); labelled bounded, never counted as proved",
        note='trusted: urllib quoting, json',
    ),
    "C16": dict(
        category="other",
        technique='all operation sequences up to a bound over small alphabets vs an independent reader (bounded stand-in); proof part pending',
        text="Both file classes: every operation sequence of length <= 2-3 (quick) over 19-35 operations from 5 initial files, sampled longer sequences, autosave, encodings, str/bytes; after each step an independent reader must see exactly the model's users once each. bounded stand-in: the property's contracts are evaluated on the real functions over the finite domains stated in the evidence (coverage.bounded); labelled bounded, never counted as proved",
        note='trusted: the 10-line independent reader in /verif/specs/ht_reader.py',
    ),
    "C17": dict(
        category="other",
        technique='every exported context x every scheme x generated hashes; registry names (bounded stand-in); proof part pending',
        text="34 shipped contexts: a hash of each scheme (all idents/variants) is attributed to that scheme and verifies; all 76 registry names load a hasher of that name and passlib.hash.<name> is the same object. bounded stand-in: the property's contracts are evaluated on the real functions over the finite domains stated in the evidence (coverage.bounded); labelled bounded, never counted as proved",
        note='trusted: host crypt() determines the host-dependent lists',
    ),
    "C18": dict(
        category="proof",
        technique='contracts on unix_disabled / django_disabled (identify, verify, hash, disable, enable) and CryptContext verify/enable/disable/is_enabled discharged by cvc5/z3 string theory (pyvc) + lemma enable(disable(h)) == h',
        text='For arbitrary strings: a disabled string is identified, never verifies for any password, disabling twice stays disabled, enable returns exactly the embedded original and refuses a bare marker; CryptContext.verify(hash=None) is False after exactly one dummy verification; context enable/disable/is_enabled delegate as stated. Contexts x originals x sequences are additionally swept by the bounded stand-in.',
        note='trusted: pyvc, cvc5/z3, MAX_PASSWORD_SIZE == 4096, ASCII model of bytes hashes',
    ),
    "C20": dict(
        category="other",
        technique='cross verification passlib <-> libpass on grids, identify-own-format, needs_update, libpass context (bounded stand-in; libpass context contracts are proved under C04)',
        text="Six formats x passwords x non-empty salts x costs: each direction of verification, equal digests, independent oracle, identify exactly own format, needs_update, scheme lists of length 1..3. bounded stand-in: the property's contracts are evaluated on the real functions over the finite domains stated in the evidence (coverage.bounded); labelled bounded, never counted as proved",
        note='trusted: bcrypt, hashlib, base64',
    ),
}
