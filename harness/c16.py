"""Bounded stand-in for C16: htpasswd/htdigest files stay a faithful user database under any edit history.

The real HtpasswdFile / HtdigestFile are driven through operation sequences; next to them runs a model that is
nothing but the property statement: a dict key -> (hash, password last set), the lines of the text last loaded, and
the set of keys touched since.  After every step the exported text is read back by specs/ht_reader.py (independent
of passlib) and compared with the model; expected hashes come from hashlib (plaintext, {SHA}, htdigest MD5).
"""
import base64
import hashlib
import itertools
import logging
import os
import shutil
import sys
import tempfile

from common import Group, main, outcome

try:
    from specs.ht_reader import read_lines, read_records
except ImportError:  # manual run with PYTHONPATH=/repo only
    sys.path.insert(0, os.path.dirname(os.path.dirname(os.path.abspath(__file__))))
    from specs.ht_reader import read_lines, read_records

logging.disable(logging.CRITICAL)  # the library logs a warning per duplicate line

USERS = ["alice", "bõb"]
REALMS = ["realm1", "réalm two"]
PW_ASCII = ["pw1", "Pw2 x"]
PW_WIDE = ["pw1", "pä2"]


def done(g):
    res = g.out()
    g.out = lambda: res
    return g


class Cfg:
    """one configuration of the object under test"""

    def __init__(self, cls, scheme, encoding, autosave, as_bytes, initial, default_realm=False):
        self.cls, self.scheme, self.encoding, self.autosave = cls, scheme, encoding, autosave
        self.as_bytes, self.initial, self.default_realm = as_bytes, initial, default_realm
        self.nfields = 2 if cls == "htpasswd" else 3
        # non-ASCII passwords only where str and bytes spellings agree by construction (see group encoding-consistency)
        self.passwords = PW_ASCII if (cls == "htpasswd" and encoding != "utf-8") else PW_WIDE

    def ident(self):
        return (self.cls, self.scheme, self.encoding, self.autosave, self.as_bytes, self.initial, self.default_realm)

    def wit(self):
        return {"class": self.cls, "scheme": self.scheme, "encoding": self.encoding, "autosave": self.autosave, "bytes_args": self.as_bytes, "initial": self.initial, "default_realm": REALMS[0] if self.default_realm else None}

    def enc(self, text):
        return text.encode(self.encoding)

    def arg(self, text):
        return self.enc(text) if self.as_bytes else text

    def keys(self):
        if self.cls == "htpasswd":
            return [(u,) for u in USERS]
        return [(u, r) for u in USERS for r in REALMS]

    def bkey(self, key):
        return tuple(self.enc(k) for k in key)

    # ---- oracle hashes (hashlib only) ----
    def set_hash_value(self, key, pw):
        """hash text handed to set_hash / written into initial files for password pw"""
        if self.cls == "htdigest":
            return hashlib.md5(b":".join(self.bkey(key) + (self.enc(pw),))).hexdigest().encode()
        if self.scheme in ("plaintext", "deprecated"):
            return self.enc(pw)
        return b"{SHA}" + base64.b64encode(hashlib.sha1(self.enc(pw)).digest())

    def set_password_value(self, key, pw):
        """hash set_password must store, or None when salted (then learnt from the export)"""
        if self.cls == "htdigest":
            return self.set_hash_value(key, pw)
        if self.scheme == "plaintext":
            return self.enc(pw)
        if self.scheme in ("ldap_sha1", "deprecated"):
            return b"{SHA}" + base64.b64encode(hashlib.sha1(self.enc(pw)).digest())
        return None

    def salted_prefix(self):
        return {"default": b"$apr1$", "md5_crypt": b"$1$"}.get(self.scheme)

    def is_deprecated(self, h):
        return self.scheme == "deprecated" and not h.startswith(b"{SHA}")

    def initial_bytes(self):
        ks = self.keys()
        p = self.passwords

        def rec(key, pw):
            return ":".join(key) + ":" + self.set_hash_value(key, pw).decode(self.encoding)

        a, b, c = ks[0], ks[-1], ks[1] if len(ks) > 2 else None
        extra = [rec(c, p[1])] if c else []
        name = self.initial
        if name == "empty":
            lines = []
        elif name == "comments":
            lines = ["# top comment", rec(a, p[0])] + extra + ["# middle: comment with colons :", "#" + rec(b, p[0]), rec(b, p[1]), "# trailing comment"]
        elif name == "blank":
            lines = ["", rec(a, p[0]), "", "   ", rec(b, p[1])] + extra
        elif name == "dup":
            lines = [rec(a, p[0]), rec(b, p[1])] + extra + [rec(a, p[1]), "# after dup", rec(b, p[1])]
        elif name == "nonl":
            # the last line is a comment without a final newline
            lines = ["# top", rec(a, p[0])] + extra + [rec(b, p[1])]
            return ("".join(line + "\n" for line in lines) + "# last line, no newline").encode(self.encoding)
        elif name == "crlf":
            text = "\r\n".join(["# crlf file", rec(a, p[0]), "", rec(b, p[1])] + extra) + "\r\n"
            return text.encode(self.encoding)
        else:
            raise KeyError(name)
        return "".join(line + "\n" for line in lines).encode(self.encoding)

    def external_bytes(self):
        """what another process writes into the file (op 'touch_lic')"""
        k = self.keys()[-1]
        return ("# written by someone else\n" + ":".join(k) + ":" + self.set_hash_value(k, self.passwords[0]).decode(self.encoding) + "\n").encode(self.encoding)


class Model:
    """the property's view of the database"""

    def __init__(self, cfg):
        self.cfg = cfg
        self.recs = {}  # key(bytes tuple) -> [hash bytes, password str|None]
        self.order = []  # ('skip', line) | ('rec', key) of the text last loaded (first occurrences only)
        self.dups = []  # (key, hash) lines of that text that repeat an earlier key
        self.touched = set()
        self.known = {}  # hash bytes -> password, for salted hashes learnt from the export

    def password_of(self, key, h):
        cfg = self.cfg
        skey = tuple(k.decode(cfg.encoding) for k in key)
        for pw in cfg.passwords:
            if h in (cfg.set_hash_value(skey, pw), cfg.set_password_value(skey, pw)):
                return pw
        return self.known.get(h)

    def load(self, data):
        self.recs, self.order, self.dups, self.touched = {}, [], [], set()
        for it in read_lines(data, self.cfg.nfields):
            if it[0] == "skip":
                self.order.append(it)
            elif it[1] in self.recs:
                self.dups.append((it[1], it[2]))
            else:
                self.recs[it[1]] = [it[2], self.password_of(it[1], it[2])]
                self.order.append(("rec", it[1]))


def strip_blank_tail(items):
    items = list(items)
    while items and items[-1][0] == "skip" and not items[-1][1].strip():
        items.pop()
    return items


def ops_for(cfg):
    ops = []
    for key in cfg.keys():
        for pw in cfg.passwords:
            ops += [("set_password", key, pw), ("set_hash", key, pw), ("check_password", key, pw)]
        ops.append(("delete", key))
    if cfg.cls == "htdigest":
        ops += [("delete_realm", r) for r in REALMS]
    ops += [("to_string",), ("save_load",), ("load",), ("load_if_changed",), ("touch_lic",)]
    return ops


class Env:
    def __init__(self):
        self.dir = tempfile.mkdtemp(prefix="c16-")
        self.path = os.path.join(self.dir, "users.db")
        self.contexts = {}

    def close(self):
        shutil.rmtree(self.dir, ignore_errors=True)

    def context_kw(self, cfg):
        from passlib.context import CryptContext

        if cfg.cls == "htdigest":
            return {}
        if cfg.scheme == "default":
            return {}
        if cfg.scheme not in self.contexts:
            from passlib.apache import htpasswd_context

            self.contexts[cfg.scheme] = {
                # what HtpasswdFile(default_scheme="plaintext") builds on every construction, built once
                # (the default_scheme= keyword itself is used by the refused-names / encoding / injection groups)
                "plaintext": lambda: htpasswd_context.copy(default="plaintext"),
                "ldap_sha1": lambda: CryptContext(["ldap_sha1", "ldap_md5"]),
                "deprecated": lambda: CryptContext(["ldap_sha1", "plaintext"], deprecated=["plaintext"]),
                "md5_crypt": lambda: CryptContext(["md5_crypt", "ldap_sha1"]),
            }[cfg.scheme]()
        return {"context": self.contexts[cfg.scheme]}

    def construct(self, cfg):
        from passlib.apache import HtdigestFile, HtpasswdFile

        kw = dict(encoding=cfg.encoding, autosave=cfg.autosave)
        kw.update(self.context_kw(cfg))
        if cfg.cls == "htdigest":
            if cfg.default_realm:
                kw["default_realm"] = cfg.arg(REALMS[0])
            return HtdigestFile(self.path, **kw)
        return HtpasswdFile(self.path, **kw)


def call(f, cfg, name, key, *rest):
    """call f.<name>(user[, realm], *rest) with the configuration's argument style"""
    args = [cfg.arg(key[0])]
    if cfg.cls == "htdigest" and not (cfg.default_realm and key[1] == REALMS[0]):
        args.append(cfg.arg(key[1]))
    return getattr(f, name)(*args, *rest)


def run(g, env, cfg, seq):
    """drive one sequence; returns False after the first failure of this run"""
    C = cfg.cls
    wit0 = dict(cfg.wit(), ops=[list(map(str, [o[0]] + ["/".join(x) if isinstance(x, tuple) else x for x in o[1:]])) for o in seq])
    with open(env.path, "wb") as fh:
        fh.write(cfg.initial_bytes())
    o = outcome(env.construct, cfg)
    if not g.check(o[0] == "ok", f"{C}:construct:raises:{o[1] if o[0] != 'ok' else ''}", "constructor raised on a well-formed file", dict(wit0, outcome=repr(o))):
        return False
    f = o[1]
    m = Model(cfg)
    m.load(cfg.initial_bytes())

    def read_disk():
        with open(env.path, "rb") as fh:
            return fh.read()

    def compare(text, w, what):
        """exported/saved text against the model; what in ('export', 'saved')"""
        o = outcome(read_records, text, cfg.nfields)
        if not g.check(o[0] == "ok", f"{C}:{what}:malformed", f"{what} text is not a well-formed {C} file", dict(w, text=repr(text), outcome=repr(o))):
            return False
        pairs = o[1]
        want = sorted((k, v[0]) for k, v in m.recs.items())
        ok = True
        if sorted(pairs) != want:
            rest = list(pairs)
            for d in m.dups:
                if d in rest:
                    rest.remove(d)
            w2 = dict(w, text=repr(text), model=repr(want))
            if sorted(rest) == want:
                gone = [d for d in m.dups if d[0] not in m.recs]
                if gone:
                    g.fail(f"{C}:{what}:deleted-user-resurrected-by-duplicate-line", "a deleted user is back in the text (with the hash of a duplicate source line)", w2)
                else:
                    g.fail(f"{C}:{what}:duplicate-line-retained", "a user occurs twice in the text (duplicate source line written back)", w2)
            else:
                g.fail(f"{C}:{what}:mismatch", "text does not parse back to exactly the current users and hashes, once each", w2)
                ok = False  # (the two duplicate-line findings above do not stop the run: the rest of the model still applies)
        # untouched lines keep their order
        seen = set()
        got = []
        for it in read_lines(text, cfg.nfields):
            if it[0] == "skip":
                got.append(it)
            elif it[1] not in seen:
                seen.add(it[1])
                if it[1] not in m.touched:
                    got.append(("rec", it[1]))
        exp = [it for it in m.order if it[0] == "skip" or it[1] not in m.touched]
        if not g.check(strip_blank_tail(got) == strip_blank_tail(exp), f"{C}:{what}:layout", "untouched records / comments / blank lines not in their original order", dict(w, text=repr(text), expected=repr(exp))):
            ok = False
        return ok

    def observe(step, op):
        w = dict(wit0, step=step, op=str(op))
        o = outcome(f.to_string)
        if not g.check(o[0] == "ok" and isinstance(o[1], bytes), f"{C}:to_string:raises:{o[1] if o[0] != 'ok' else 'type'}", "to_string() raised / did not return bytes", dict(w, outcome=repr(o)[:300])):
            return False
        text = o[1]
        # salted scheme: learn the fresh hash of the key just set (must be new and of the configured format)
        if op and op[0] == "set_password" and m.recs[cfg.bkey(op[1])][0] is None:
            found = [h for k, h in read_records(text, cfg.nfields) if k == cfg.bkey(op[1])] if outcome(read_records, text, cfg.nfields)[0] == "ok" else []
            h = found[0] if found else b""
            fresh = h.startswith(cfg.salted_prefix()) and h not in m.known
            g.check(fresh, f"{C}:set_password:hash-format", "stored hash is not a fresh hash of the default scheme", dict(w, stored=repr(h)))
            m.recs[cfg.bkey(op[1])][0] = h
            m.known[h] = op[2]
        ok = compare(text, w, "export")
        if cfg.autosave and op and op[0] in ("set_password", "set_hash", "delete", "delete_realm", "check_password") and op[-1] != "nochange":
            g.check(read_disk() == text, f"{C}:autosave:disk-differs", "autosave: file on disk differs from the exported text after a change", dict(w, disk=repr(read_disk()), text=repr(text))) or (ok := False)
        # check_password: True exactly for the password last set, None for unknown users
        for key in cfg.keys():
            bk = cfg.bkey(key)
            for pw in cfg.passwords:
                if bk in m.recs:
                    h, last = m.recs[bk]
                    want = pw == last
                    if want and cfg.is_deprecated(h):
                        continue  # would upgrade the stored hash: only done as an explicit operation
                else:
                    want = None
                o = outcome(call, f, cfg, "check_password", key, cfg.arg(pw))
                if not g.check(o == ("ok", want), f"{C}:check_password:{want}", "check_password is not True exactly for the password last set / None for an unknown user", dict(w, user="/".join(key), password=pw, want=want, outcome=repr(o))):
                    ok = False
        o = outcome(f.to_string)
        g.check(o == ("ok", text), f"{C}:check_password:side-effect", "check_password without upgrade changed the exported text", dict(w, before=repr(text), after=repr(o)[:300])) or (ok := False)
        return ok

    if not observe(-1, None):
        return False
    for i, op in enumerate(seq):
        name = op[0]
        w = dict(wit0, step=i, op=str(op))
        if name in ("set_password", "set_hash", "delete", "check_password"):
            key, bk = op[1], cfg.bkey(op[1])
            if name == "set_password":
                o = outcome(call, f, cfg, name, key, cfg.arg(op[2]))
                m.recs[bk] = [cfg.set_password_value(key, op[2]), op[2]]
                m.touched.add(bk)
            elif name == "set_hash":
                hv = cfg.set_hash_value(key, op[2])
                o = outcome(call, f, cfg, name, key, hv if cfg.as_bytes else hv.decode(cfg.encoding))
                m.recs[bk] = [hv, op[2]]
                m.touched.add(bk)
            elif name == "delete":
                o = outcome(call, f, cfg, name, key)
                if bk not in m.recs:
                    op = op + ("nochange",)
                m.recs.pop(bk, None)
                m.touched.add(bk)
            else:
                o = outcome(call, f, cfg, name, key, cfg.arg(op[2]))
                want = None if bk not in m.recs else (op[2] == m.recs[bk][1])
                if o[0] == "ok":
                    g.check(o[1] is want, f"{C}:check_password:{want}", "check_password is not True exactly for the password last set / None for an unknown user", dict(w, want=want, outcome=repr(o)))
                if want and cfg.is_deprecated(m.recs[bk][0]):
                    m.recs[bk][0] = cfg.set_password_value(key, op[2])  # the upgraded hash must be stored
                    m.touched.add(bk)
                    stored = outcome(lambda: next((h for k, h in read_records(f.to_string(), cfg.nfields) if k == bk), None))  # first line wins
                    g.check(stored == ("ok", m.recs[bk][0]), f"{C}:check_password:upgrade-not-stored", "successful check_password against a deprecated hash did not store the upgraded hash", dict(w, stored=repr(stored), want=repr(m.recs[bk][0])))
                else:
                    op = op + ("nochange",)
        elif name == "delete_realm":
            o = outcome(f.delete_realm, cfg.arg(op[1]))
            for bk in [k for k in m.recs if k[1] == cfg.enc(op[1])]:
                del m.recs[bk]
                m.touched.add(bk)
        elif name == "to_string":
            o = outcome(f.to_string)
        elif name == "save_load":
            o = outcome(f.save)
            if o[0] == "ok":
                disk = read_disk()
                if not compare(disk, w, "saved"):
                    return False
                o = outcome(f.load)
                m.load(disk)
        elif name == "load":
            o = outcome(f.load)
            m.load(read_disk())
        elif name == "load_if_changed":
            o = outcome(f.load_if_changed)  # nobody else wrote the file: in-memory state stays
        elif name == "touch_lic":
            st = os.stat(env.path)
            with open(env.path, "wb") as fh:
                fh.write(cfg.external_bytes())
            os.utime(env.path, (st.st_atime, int(st.st_mtime) + 7))
            o = outcome(f.load_if_changed)
            m.load(cfg.external_bytes())
        else:
            raise KeyError(name)
        if not g.check(o[0] == "ok", f"{C}:{name}:raises:{o[1] if o[0] != 'ok' else ''}", "operation raised on valid arguments", dict(w, outcome=repr(o))):
            return False
        if not observe(i, op):
            return False
    return True


INITIALS = ["empty", "comments", "blank", "dup", "crlf", "nonl"]


def build(tier, rng):
    from passlib.apache import HtdigestFile, HtpasswdFile

    quick = tier == "quick"
    env = Env()
    groups = []
    try:
        # ------------------------------------------------------------- exhaustive short sequences
        for cls, schemes in (("htpasswd", ["plaintext", "deprecated"]), ("htdigest", ["htdigest"])):
            g = Group(
                f"{cls}-sequences-exhaustive",
                f"{'HtpasswdFile' if cls == 'htpasswd' else 'HtdigestFile'} (_CommonFile._records/_source)",
                f"every operation sequence of length <= 2 over {{set_password, set_hash, delete, check_password"
                f"{', delete_realm' if cls == 'htdigest' else ''}, to_string, save+load, load, load_if_changed, external write + load_if_changed}} on 2 users"
                f"{' x 2 realms' if cls == 'htdigest' else ''} x 2 passwords, from 6 initial files (empty, comments, blank lines, duplicate users, CRLF, trailing comment without final newline) x "
                f"schemes {schemes} x autosave (quick: alternating over scheme/file; thorough: on and off); plus every sequence of length 3 from the 'comments' file (htdigest: reduced alphabet; thorough: all 5 files, full "
                "alphabet (htdigest: full for 'comments' and 'dup', reduced for the others), and length 4 (htpasswd) / 3 (htdigest) on a reduced alphabet with autosave from 'comments' and 'dup') in the first scheme; encodings utf-8/latin-1 and str/bytes arguments alternate over configurations.  After every step: independent "
                "reader of to_string() == model (once each), layout of untouched lines, check_password for all users x passwords, disk == export under autosave",
            )
            n = 0
            for si, scheme in enumerate(schemes):
                for ii, initial in enumerate(INITIALS):
                    # quick: autosave alternates over (scheme, file); thorough: both values everywhere
                    for autosave in ((si + ii) % 2 == 1,) if quick else (False, True):
                        n += 1
                        cfg = Cfg(cls, scheme, "utf-8" if n % 2 else "latin-1", autosave, n % 3 == 0, initial, default_realm=(n % 4 == 1))
                        ops = ops_for(cfg)
                        for length in (1, 2):
                            for seq in itertools.product(ops, repeat=length):
                                g.case((cfg.ident(), seq))
                                run(g, env, cfg, seq)
            # length 3 (quick: 'comments' file, htdigest on a reduced alphabet; thorough: all files), length 4 on a reduced alphabet (thorough)
            def reduced(cfg):
                """one realm pair less, set_hash/check_password with the first password only, no pure observers"""
                out = []
                for o in ops_for(cfg):
                    if o[0] in ("to_string", "load", "load_if_changed"):
                        continue
                    if len(o) > 1 and isinstance(o[1], tuple) and o[1] == (USERS[1], REALMS[1]):
                        continue
                    if o[0] in ("set_hash", "check_password") and o[2] != cfg.passwords[0]:
                        continue
                    out.append(o)
                return out

            plans = []
            for initial in ["comments"] if quick else INITIALS:
                cfg = Cfg(cls, schemes[0], "utf-8", False, False, initial)
                full = [o for o in ops_for(cfg) if o[0] != "to_string"]
                small = cls == "htdigest" and (quick or initial not in ("comments", "dup"))
                plans.append((cfg, reduced(cfg) if small else full, 3))
            if not quick:
                for initial in ("comments", "dup"):
                    cfg = Cfg(cls, schemes[0], "utf-8", True, False, initial)
                    plans.append((cfg, reduced(cfg), 4 if cls == "htpasswd" else 3))
            for cfg, ops, length in plans:
                for seq in itertools.product(ops, repeat=length):
                    g.case((cfg.ident(), seq))
                    run(g, env, cfg, seq)
            groups.append(done(g))

        # ------------------------------------------------------------- sampled long sequences over all configurations
        maxlen = 5 if quick else 7
        for cls, schemes in (("htpasswd", ["plaintext", "ldap_sha1", "deprecated"]), ("htdigest", ["htdigest"])):
            g = Group(
                f"{cls}-sequences-sampled",
                f"{'HtpasswdFile' if cls == 'htpasswd' else 'HtdigestFile'} (_CommonFile._records/_source)",
                f"random operation sequences of length {maxlen} (all prefixes checked) over the same operations, for every configuration in schemes {schemes} x "
                f"encoding utf-8/latin-1 x autosave on/off x str/bytes arguments x 6 initial files"
                f"{' x default_realm set/unset' if cls == 'htdigest' else ''}: {'20' if quick else '60'} sequences each; same observations after every step",
            )
            per = 20 if quick else 60
            for scheme in schemes:
                for encoding in ("utf-8", "latin-1"):
                    for autosave in (False, True):
                        for as_bytes in (False, True):
                            for initial in INITIALS:
                                for dr in (False, True) if cls == "htdigest" else (False,):
                                    cfg = Cfg(cls, scheme, encoding, autosave, as_bytes, initial, dr)
                                    ops = ops_for(cfg)
                                    for _ in range(per):
                                        seq = tuple(rng.choice(ops) for _ in range(maxlen))
                                        g.case((cfg.ident(), seq))
                                        run(g, env, cfg, seq)
            groups.append(done(g))

        # ------------------------------------------------------------- salted default context
        g = Group(
            "htpasswd-default-context",
            "HtpasswdFile (default htpasswd_context)",
            f"HtpasswdFile with the shipped htpasswd_context (apr_md5_crypt, salted) and a custom md5_crypt context: {'100' if quick else '400'} random sequences of "
            f"length {maxlen} over the 6 initial files ({{SHA}} hashes from hashlib), autosave/encoding/argument style drawn at random; a fresh $apr1$/$1$ hash must "
            "be stored by set_password and verify exactly its password afterwards",
        )
        for n in range(100 if quick else 400):
            cfg = Cfg("htpasswd", "default" if n % 4 else "md5_crypt", rng.choice(["utf-8", "latin-1"]), rng.random() < 0.5, rng.random() < 0.5, INITIALS[n % 6])
            ops = ops_for(cfg)
            seq = tuple(rng.choice(ops) for _ in range(maxlen))
            g.case((cfg.ident(), seq))
            run(g, env, cfg, seq)
        groups.append(done(g))

        # ------------------------------------------------------------- deprecated scheme upgrade
        g = Group(
            "htpasswd-deprecated-upgrade",
            "HtpasswdFile.check_password",
            "context [ldap_sha1, plaintext(deprecated)]: every user of each initial file (plaintext hashes) x right/wrong password x autosave on/off x str/bytes: "
            "check_password(right) is True and the stored hash becomes the {SHA} hash of that password (in memory, and on disk under autosave); a wrong password or a "
            "non-deprecated hash leaves the text unchanged; a second check_password changes nothing",
        )
        for initial in INITIALS[1:]:
            for autosave in (False, True):
                for as_bytes in (False, True):
                    for enc in ("utf-8", "latin-1"):
                        cfg = Cfg("htpasswd", "deprecated", enc, autosave, as_bytes, initial)
                        for key in cfg.keys():
                            for pw in cfg.passwords:
                                seq = (("check_password", key, pw), ("check_password", key, pw), ("save_load",), ("check_password", key, pw))
                                g.case((cfg.ident(), seq))
                                run(g, env, cfg, seq)
        groups.append(done(g))

        # ------------------------------------------------------------- malformed input
        g = Group(
            "malformed-input",
            "_CommonFile._load_lines/_parse_record",
            "files with one malformed line (no separator, too many / too few fields) at the first, middle and last position, LF and CRLF: constructor with path, "
            "from_string, load_string and load(path) must raise ValueError; load_string/load on an object that already holds users leaves it unchanged",
        )
        for cls, klass, good, bads in (
            ("htpasswd", HtpasswdFile, ["alice:h1", "bob:h2"], ["nocolonhere", "a:b:c", "alice:realm:hash:x"]),
            ("htdigest", HtdigestFile, ["alice:r:h1", "bob:r:h2"], ["nocolonhere", "alice:hash", "a:b:c:d"]),
        ):
            for bad in bads:
                for pos in range(3):
                    for eol in ("\n", "\r\n"):
                        lines = list(good)
                        lines.insert(pos, bad)
                        data = (eol.join(lines) + eol).encode()
                        w = {"class": cls, "data": repr(data)}
                        with open(env.path, "wb") as fh:
                            fh.write(data)
                        g.case((cls, data))
                        o = outcome(klass, env.path)
                        g.check(o[0] == "exc" and o[3] and o[1] != "TypeError", f"{cls}:malformed:constructor", "malformed file accepted by the constructor / wrong exception", dict(w, outcome=repr(o)[:200]))
                        o = outcome(klass.from_string, data)
                        g.check(o[0] == "exc" and o[3] and o[1] != "TypeError", f"{cls}:malformed:from_string", "malformed text accepted by from_string / wrong exception", dict(w, outcome=repr(o)[:200]))
                        f = klass.from_string((eol.join(good) + eol).encode())
                        before = f.to_string()
                        for how, fn in (("load_string", lambda: f.load_string(data)), ("load", lambda: f.load(env.path))):
                            o = outcome(fn)
                            g.check(o[0] == "exc" and o[3] and o[1] != "TypeError", f"{cls}:malformed:{how}", "malformed text accepted / wrong exception", dict(w, outcome=repr(o)[:200]))
                            g.check(f.to_string() == before, f"{cls}:malformed:{how}:state", "failed load changed the users held in memory", dict(w, before=repr(before), after=repr(f.to_string())))
        groups.append(done(g))

        # ------------------------------------------------------------- refused names
        g = Group(
            "refused-names",
            "_CommonFile._encode_field",
            "user (both classes) and realm (HtdigestFile: argument and default_realm) containing ':' '\\n' '\\r' '\\t' '\\0' at start/middle/end, or longer than 255 "
            "bytes (256 ASCII; 128 two-byte characters under utf-8; 256 latin-1 characters), as str and bytes, through set_password, set_hash, delete, "
            "check_password, get_hash (+ delete_realm, users): ValueError and an unchanged database; 255-byte names are accepted and round-trip",
        )
        bad_names = []
        for ch in ":\n\r\t\0":
            bad_names += [ch + "name", "na" + ch + "me", "name" + ch, ch]
        for enc in ("utf-8", "latin-1"):
            long_bad = ["x" * 256, "x" * 1000, "é" * 128 if enc == "utf-8" else "é" * 256]
            long_ok = ["x" * 255, "é" * 127 if enc == "utf-8" else "é" * 255]
            for as_bytes in (False, True):

                def A(x, enc=enc, as_bytes=as_bytes):
                    return x.encode(enc) if as_bytes else x

                hp = HtpasswdFile.from_string(b"# keep\nalice:secret\n", default_scheme="plaintext", encoding=enc)
                hd = HtdigestFile.from_string(b"# keep\nalice:realm1:" + hashlib.md5(b"alice:realm1:secret").hexdigest().encode() + b"\n", encoding=enc)
                for name in bad_names + long_bad:
                    calls = [
                        ("htpasswd", hp, "set_password(user)", lambda: hp.set_password(A(name), "pw")),
                        ("htpasswd", hp, "set_hash(user)", lambda: hp.set_hash(A(name), "hash")),
                        ("htpasswd", hp, "delete(user)", lambda: hp.delete(A(name))),
                        ("htpasswd", hp, "check_password(user)", lambda: hp.check_password(A(name), "pw")),
                        ("htpasswd", hp, "get_hash(user)", lambda: hp.get_hash(A(name))),
                        ("htdigest", hd, "set_password(user)", lambda: hd.set_password(A(name), A("realm1"), "pw")),
                        ("htdigest", hd, "set_password(realm)", lambda: hd.set_password(A("alice"), A(name), "pw")),
                        ("htdigest", hd, "set_hash(user)", lambda: hd.set_hash(A(name), A("realm1"), "0" * 32)),
                        ("htdigest", hd, "set_hash(realm)", lambda: hd.set_hash(A("alice"), A(name), "0" * 32)),
                        ("htdigest", hd, "delete(user)", lambda: hd.delete(A(name), A("realm1"))),
                        ("htdigest", hd, "delete(realm)", lambda: hd.delete(A("alice"), A(name))),
                        ("htdigest", hd, "check_password(user)", lambda: hd.check_password(A(name), A("realm1"), "pw")),
                        ("htdigest", hd, "check_password(realm)", lambda: hd.check_password(A("alice"), A(name), "pw")),
                        ("htdigest", hd, "get_hash(user)", lambda: hd.get_hash(A(name), A("realm1"))),
                        ("htdigest", hd, "get_hash(realm)", lambda: hd.get_hash(A("alice"), A(name))),
                        ("htdigest", hd, "delete_realm(realm)", lambda: hd.delete_realm(A(name))),
                        ("htdigest", hd, "users(realm)", lambda: hd.users(A(name))),
                    ]
                    for cls, obj, label, fn in calls:
                        before = obj.to_string()
                        o = outcome(fn)
                        kind = "long" if len(name) > 100 else "char"
                        w = {"class": cls, "call": label, "name": name if len(name) < 20 else f"{name[0]!r}*{len(name)}", "encoding": enc, "bytes_args": as_bytes}
                        g.case((cls, label, name, enc, as_bytes))
                        g.check(o[0] == "exc" and o[3] and o[1] != "TypeError", f"{cls}:refuse:{kind}:{label}", "forbidden name not refused with ValueError", dict(w, outcome=repr(o)[:160]))
                        g.check(obj.to_string() == before, f"{cls}:refuse:{kind}:{label}:state", "refused call changed the database", dict(w, after=repr(obj.to_string())[:200]))
                    # default_realm carrying the forbidden value
                    d2 = HtdigestFile.from_string(hd.to_string(), encoding=enc, default_realm=A(name))
                    for label, fn in (("set_password", lambda: d2.set_password(A("alice"), "pw")), ("delete", lambda: d2.delete(A("alice"))), ("check_password", lambda: d2.check_password(A("alice"), "pw"))):
                        o = outcome(fn)
                        g.case(("htdigest", "default_realm", label, name, enc, as_bytes))
                        g.check(o[0] == "exc" and o[3] and o[1] != "TypeError" and d2.to_string() == hd.to_string(), f"htdigest:refuse:default_realm:{label}", "forbidden default_realm not refused with ValueError", {"call": label, "name": name[:20], "len": len(name), "encoding": enc, "outcome": repr(o)[:160]})
                for name in long_ok:
                    g.case(("ok", name, enc, as_bytes))
                    w = {"name": f"{name[0]!r}*{len(name)}", "encoding": enc, "bytes_args": as_bytes}
                    p2 = HtpasswdFile(default_scheme="plaintext", encoding=enc)
                    o = outcome(lambda: (p2.set_password(A(name), "secret-pw"), p2.check_password(A(name), "secret-pw"), read_records(p2.to_string(), 2))[1:])
                    g.check(o == ("ok", (True, [((name.encode(enc),), b"secret-pw")])), "htpasswd:accept:255", "255-byte user name not accepted / not round-tripped", dict(w, outcome=repr(o)[:200]))
                    d3 = HtdigestFile(encoding=enc)
                    o = outcome(lambda: (d3.set_password(A(name), A(name), "pw"), d3.check_password(A(name), A(name), "pw"), [k for k, _ in read_records(d3.to_string(), 3)])[1:])
                    g.check(o == ("ok", (True, [(name.encode(enc), name.encode(enc))])), "htdigest:accept:255", "255-byte user/realm not accepted / not round-tripped", dict(w, outcome=repr(o)[:200]))
        groups.append(done(g))

        # ------------------------------------------------------------- encoding consistency of passwords
        g = Group(
            "encoding-consistency",
            "HtpasswdFile.set_password/check_password (encoding)",
            "non-ASCII password x file encoding utf-8/latin-1 x scheme (plaintext, ldap_sha1, apr_md5_crypt) x password given as str or as bytes in the file's "
            "encoding, independently for set_password and check_password: check_password must be True for the password last set (same text, whatever the "
            "spelling), False for another one; HtdigestFile likewise",
        )
        from passlib.context import CryptContext

        pw, other = "päss", "påss"
        for enc in ("utf-8", "latin-1"):
            for scheme, kw in (("plaintext", {"default_scheme": "plaintext"}), ("ldap_sha1", {"context": CryptContext(["ldap_sha1"])}), ("apr_md5_crypt", {}), ("htdigest", None)):
                for set_bytes in (False, True):
                    for chk_bytes in (False, True):
                        w = {"scheme": scheme, "encoding": enc, "set_as_bytes": set_bytes, "check_as_bytes": chk_bytes, "password": pw}
                        g.case((scheme, enc, set_bytes, chk_bytes))
                        sp = pw.encode(enc) if set_bytes else pw
                        cp = pw.encode(enc) if chk_bytes else pw
                        op = other.encode(enc) if chk_bytes else other
                        if kw is None:
                            f = HtdigestFile(encoding=enc)
                            o = outcome(lambda: (f.set_password("alice", "realm1", sp), f.check_password("alice", "realm1", cp), f.check_password("alice", "realm1", op))[1:])
                            cls = "htdigest"
                        else:
                            f = HtpasswdFile(encoding=enc, **kw)
                            o = outcome(lambda: (f.set_password("alice", sp), f.check_password("alice", cp), f.check_password("alice", op))[1:])
                            cls = "htpasswd"
                        key = f"{cls}:nonascii-password:{scheme}:{enc}:set-{'bytes' if set_bytes else 'str'}:check-{'bytes' if chk_bytes else 'str'}"
                        g.check(o == ("ok", (True, False)), key, "check_password is not True for the (non-ASCII) password last set", dict(w, outcome=repr(o)[:200]))
        groups.append(done(g))

        # ------------------------------------------------------------- separators smuggled in through other fields
        g = Group(
            "field-injection",
            "HtpasswdFile.set_hash/_render_record",
            "values that are not names but end up in the line: set_hash with a hash containing a newline / ':' (both classes), set_password under the plaintext "
            "scheme with a password containing ':' or a newline, a user name starting with '#': afterwards the exported text must still parse back to exactly the "
            "users held (or the call must be refused)",
        )
        probes = [
            ("htpasswd", "set_hash:newline", lambda f: f.set_hash("alice", "hash\nmallory:evil")),
            ("htpasswd", "set_hash:colon", lambda f: f.set_hash("alice", "ha:sh")),
            ("htpasswd", "set_password:plaintext-colon", lambda f: f.set_password("alice", "pa:ss")),
            ("htpasswd", "set_password:plaintext-newline", lambda f: f.set_password("alice", "pass\nmallory:evil")),
            ("htpasswd", "user:leading-hash-sign", lambda f: f.set_password("#alice", "pw")),
            ("htdigest", "set_hash:newline", lambda f: f.set_hash("alice", "realm1", "0" * 32 + "\nmallory:realm1:" + "1" * 32)),
            ("htdigest", "set_hash:colon", lambda f: f.set_hash("alice", "realm1", "0" * 16 + ":" + "0" * 15)),
            ("htdigest", "user:leading-hash-sign", lambda f: f.set_password("#alice", "realm1", "pw")),
        ]
        for cls, label, fn in probes:
            f = HtpasswdFile(default_scheme="plaintext") if cls == "htpasswd" else HtdigestFile()
            nf = 2 if cls == "htpasswd" else 3
            o = outcome(fn, f)
            g.case((cls, label))
            text = f.to_string()
            held = sorted((u.encode(),) if cls == "htpasswd" else (u.encode(), b"realm1") for u in (f.users() if cls == "htpasswd" else f.users("realm1")))
            back = outcome(read_records, text, nf)
            okay = back[0] == "ok" and sorted(k for k, _ in back[1]) == held
            refused = o[0] == "exc" and o[3] and not held
            g.check(okay or refused, f"{cls}:inject:{label}", "exported text no longer parses back to exactly the users held", {"class": cls, "probe": label, "call_outcome": repr(o)[:120], "text": repr(text), "users_held": repr(held), "read_back": repr(back)[:200]})
        groups.append(done(g))

        # ---------------- export to another path leaves the bound file's bookkeeping alone ----------------------
        g = Group("export-to-another-path", "_CommonFile.save(path) / load_if_changed", "htpasswd and htdigest objects bound to a file, autosave off: unsaved edit, save(other path), load_if_changed() -> nothing reloaded, the unsaved edit is still held and the exported file parses back to it; then save() and load_if_changed() -> nothing reloaded; then the bound file is rewritten behind the object's back with an older and a newer mtime -> reloaded")
        for cls in ("htpasswd", "htdigest"):
            bound = os.path.join(env.dir, f"bound-{cls}.db")
            other = os.path.join(env.dir, f"export-{cls}.db")
            with open(bound, "wb") as fh:
                fh.write(b"old:realm1:0123456789abcdef0123456789abcdef\n" if cls == "htdigest" else b"old:plainpw\n")
            f = HtdigestFile(bound, default_realm="realm1") if cls == "htdigest" else HtpasswdFile(bound, default_scheme="plaintext")
            g.case((cls, "export"))
            f.set_password("newuser", "pw2")
            f.save(other)
            o = outcome(f.load_if_changed)
            users = sorted(f.users())
            g.check(o == ("ok", False) and users == ["newuser", "old"], f"{cls}:export:unsaved-edit-lost", "after save(other path) the next load_if_changed() re-read the untouched bound file and dropped the unsaved edit", {"class": cls, "load_if_changed": repr(o), "users": users})
            g.check(f.check_password("newuser", "pw2") is True, f"{cls}:export:check", "the password set before the export is no longer known", {"class": cls})
            back = outcome(read_records, open(other, "rb").read(), 3 if cls == "htdigest" else 2)
            g.check(back[0] == "ok" and sorted(k[0] for k, _ in back[1]) == [b"newuser", b"old"], f"{cls}:export:content", "exported file does not hold the current users", {"class": cls, "read_back": repr(back)[:200]})
            g.case((cls, "save"))
            f.save()
            o = outcome(f.load_if_changed)
            g.check(o == ("ok", False), f"{cls}:save:reloaded", "load_if_changed() re-reads the file the object has just saved itself", {"class": cls, "outcome": repr(o)})
            for delta, label in ((-100, "older"), (100, "newer")):
                g.case((cls, label))
                with open(bound, "ab") as fh:
                    fh.write(b"x%d:realm1:0123456789abcdef0123456789abcdef\n" % delta if cls == "htdigest" else b"x%d:pw\n" % delta)
                t = os.path.getmtime(bound) + delta
                os.utime(bound, (t, t))
                o = outcome(f.load_if_changed)
                g.check(o == ("ok", True) and f"x{delta}" in f.users(), f"{cls}:changed:{label}", "a bound file rewritten behind the object's back is not re-read", {"class": cls, "outcome": repr(o), "users": sorted(f.users())})
        groups.append(done(g))
    finally:
        env.close()
    host = {"tmpdir_removed": not os.path.exists(env.dir)}
    return groups, [], host


if __name__ == "__main__":
    main(build)
