"""SHA-crypt (Drepper) as a spec, and the contract builder for passlib's _raw_sha2_crypt and libpass' _sha_crypt.

Published algorithm (https://www.akkadia.org/drepper/SHA-crypt.txt), with H abstract:
  B   = H(pwd + salt + pwd)
  A   = H(pwd + salt + B repeated to len(pwd) + for each bit of len(pwd), low to high: B if set else pwd)
  P   = H(pwd repeated len(pwd) times) repeated to len(pwd)
  S   = H(salt repeated 16 + A[0] times)[:len(salt)]
  C0  = A;  C(i+1) = H((P if i odd else Ci) + (S if i % 3) + (P if i % 7) + (Ci if i odd else P)),  i = 0 .. rounds-1
  out = transposed hash64 encoding of C(rounds)
"""
import z3

from pyvc.contract import Bool, Bytes, Const, Contract, Int, Loop, Obj, Str
from pyvc.values import SInt, SList, SModule, SObj, SStr, SStub

S = z3.StringSort()
Hf = z3.Function("H", S, S)
RTL = z3.Function("repeat_to_len", S, z3.IntSort(), S)
WALK = z3.Function("bitwalk", S, S, z3.IntSort(), S)
CF = z3.Function("C", S, S, S, z3.IntSort(), S)
ENC = z3.Function("encode_transposed", S, z3.IntSort(), S)  # digest, identity of the transposition table
D = z3.Int("digest_size")


def H(it, x):
    r = Hf(x)
    it.run.assume(z3.Length(r) == D)
    return r


def rtl(it, s, n):
    r = RTL(s, n)
    it.run.assume(z3.Implies(z3.Length(s) > 0, z3.Length(r) == z3.If(n > 0, n, 0)))
    return r


def walk(it, db, pwd, i):
    w = WALK(db, pwd, i)
    it.run.assume(w == z3.If(i <= 0, z3.StringVal(""), z3.Concat(z3.If(i % 2 == 1, db, pwd), WALK(db, pwd, i / 2))))
    return w


def C(it, da, dp, ds, i):
    """C(i) with one unfolding of the recurrence at i (C(i) in terms of C(i-1))"""
    c = CF(da, dp, ds, i)
    j = i - 1
    prev = CF(da, dp, ds, j)
    step = Hf(z3.Concat(z3.If(j % 2 == 1, dp, prev), z3.If(j % 3 != 0, ds, z3.StringVal("")), z3.If(j % 7 != 0, dp, z3.StringVal("")), z3.If(j % 2 == 1, prev, dp)))
    it.run.assume(c == z3.If(i <= 0, da, step))
    it.run.assume(z3.Length(c) == D)
    return c


def table_id(t):
    import zlib
    return zlib.crc32(repr(tuple(t)).encode())


def hash_ctor(it):
    def make(it2, a, k):
        view = a[0] if a else b""
        o = SObj(it2.run.fresh("hashobj"), fresh=True, fields={"view": view if isinstance(view, SStr) else SStr(it2.to_z3(view), "bytes")})

        def update(it3, aa, kk):
            o.fields["view"] = SStr(z3.Concat(it3.to_z3(o.fields["view"]), it3.to_z3(aa[0])), "bytes")

        def digest(it3, aa, kk):
            return SStr(H(it3, it3.to_z3(o.fields["view"])), "bytes")

        o.fields.update({"update": SStub(update, "hash.update"), "digest": SStub(digest, "hash.digest")})
        return o

    return SStub(make, "hash constructor", trusted="hash object: view = bytes absorbed; update appends; digest() = H(view)")


def spec_terms(it, pwd, salt):
    """(da, dp, ds) of the published algorithm for byte strings pwd, salt (z3 String terms)"""
    n = z3.Length(pwd)
    B = H(it, z3.Concat(pwd, salt, pwd))
    da = H(it, z3.Concat(pwd, salt, rtl(it, B, n), walk(it, B, pwd, n)))
    rp = it.to_z3(it.str_repeat(SStr(pwd, "bytes"), it.wrap_int(n)))
    dp = rtl(it, H(it, rp), n)
    first = z3.StrToCode(z3.SubString(da, 0, 1))
    rs = it.to_z3(it.str_repeat(SStr(salt, "bytes"), it.wrap_int(16 + first)))
    ds = z3.SubString(H(it, rs), 0, z3.Length(salt))
    return da, dp, ds


def build(cid, target, names, params, globals_, prop, replay=None):
    """names: pwd, plen, db, ctx (hash object variable of digest A), salt (variable holding the salt BYTES at loop time)"""
    pwd, plen, db, ctx = names["pwd"], names["plen"], names["db"], names["ctx"]
    fn = target.split("::")[-1]

    def rep_spec(it, args, kwargs):
        return it.str_repeat(it.resolve(args[0]), it.resolve(args[1]))

    def walk_spec(it, args, kwargs):
        return SStr(walk(it, it.to_z3(args[0]), it.to_z3(args[1]), it.to_z3(args[2], "int")), "bytes")

    def rtl_spec(it, args, kwargs):
        return SStr(rtl(it, it.to_z3(args[0]), it.to_z3(args[1], "int")), "bytes")

    def C_spec(it, args, kwargs):
        return SStr(C(it, it.to_z3(args[0]), it.to_z3(args[1]), it.to_z3(args[2]), it.to_z3(args[3], "int")), "bytes")

    def pair_cut(base_expr):
        def cut(it, env, k):
            da, dp, ds = (it.to_z3(env.lookup(v)) for v in ("da", "dp", "ds"))
            n = it.to_z3(it.spec_eval(base_expr, env), "int")
            # two rounds of the published recurrence
            C(it, da, dp, ds, n + 2 * k + 1)
            want = C(it, da, dp, ds, n + 2 * k + 2)
            it.run.oblige("ghost-lock-step", it.to_z3(env.lookup("dc")) == want, f"pair {k} of the optimised schedule == published rounds n+{2 * k}, n+{2 * k + 1} (n = {base_expr})", it.lineno)
            env.set("dc", SStr(want, "bytes"))
            it.run.ghost["pairs_done"] = it.run.ghost.get("pairs_done", 0) + 1

        return cut

    def setup(it, args):
        it.run.assume(z3.And(D >= 32, D <= 64))
        it.run.ghost["D"] = D
        return None

    def post_digests(it, env):
        p = it.to_z3(env.lookup(names["pwd_param"]))
        sl = it.to_z3(env.lookup(names["salt_param"]))
        da, dp, ds = spec_terms(it, p, sl)
        return z3.And(it.to_z3(env.lookup("final_da")) == da, it.to_z3(env.lookup("final_dp")) == dp, it.to_z3(env.lookup("final_ds")) == ds)

    def post_digests_at_loop(it, env):
        p = it.to_z3(env.lookup("old_" + names["pwd_param"]))
        sl = it.to_z3(env.lookup("old_" + names["salt_param"]))
        da, dp, ds = spec_terms(it, p, sl)
        return z3.And(it.to_z3(env.lookup("da")) == da, it.to_z3(env.lookup("dp")) == dp, it.to_z3(env.lookup("ds")) == ds)

    def post(it, env):
        da, dp, ds = (it.to_z3(env.lookup(v)) for v in ("final_da", "final_dp", "final_ds"))
        r = it.to_z3(env.lookup(names["rounds_param"]), "int")
        want = ENC(C(it, da, dp, ds, r), z3.IntVal(names["map_id"](it, env)))
        return it.to_z3(env.lookup("result")) == want

    def enc_stub(it, a, k):
        table = it.resolve(a[1])
        tid = table_id(tuple(it.static_items_req(table)))
        r = SStr(ENC(it.to_z3(a[0]), z3.IntVal(tid)), "bytes")
        it.run.assume(it.all_codes_below(r.e, 128))
        return r

    g = dict(globals_)
    g["repeat_string"] = SStub(lambda it, a, k: SStr(rtl(it, it.to_z3(a[0]), it.to_z3(a[1], "int")), "bytes"), "repeat_string", trusted="repeat_string(s, n): uninterpreted on both sides (its 2-line body is not part of this contract)")
    engine = SObj("h64", fields={"encode_transposed_bytes": SStub(enc_stub, "encode_transposed_bytes", trusted="C12: transposed encoding, uninterpreted here; tables compared separately")})
    g["h64"] = engine
    g["h64_engine"] = engine
    B_at_loop = f"{db}"
    return Contract(
        cid, target,
        params=params,
        setup=setup,
        globals=g,
        specs={"rep": rep_spec, "walk": walk_spec, "rtl": rtl_spec, "C": C_spec},
        requires=names.get("requires", []),
        raises=names.get("raises", {}),
        loops={
            f"{fn}#0": Loop(invariant=[f"{ctx}.view + walk({db}, {pwd}, i) == {pwd} + {names['salt']} + rtl({db}, {plen}) + walk({db}, {pwd}, {plen})", "i >= 0"], modifies=["i", f"{ctx}.view"], decreases="i"),
            f"{fn}#1": Loop(invariant=[f"tmp_ctx.view == rep({pwd}, {plen} - i)", f"0 <= i", f"i < {plen}"], modifies=["i", "tmp_ctx.view"], decreases="i"),
            f"{fn}#2": Loop(invariant=[f"dc == C(da, dp, ds, 42 * ({names['rounds']} // 42 - blocks))", f"0 <= blocks <= {names['rounds']} // 42",
                                       f"tail == {names['rounds']} % 42", lambda it, env: z3.And(z3.Length(it.to_z3(env.lookup("da"))) == D, D >= 32, D <= 64)],
                            modifies=["blocks", "dc"], decreases="blocks", forget=True, cut_vars=[],
                            entry_asserts=[("digests A, P, S are the published ones (bit walk over len(pwd), repeated password / salt)", post_digests_at_loop)]),
            f"{fn}#3": Loop(ghost_step=pair_cut(f"42 * ({names['rounds']} // 42 - blocks)")),
            f"{fn}#4": Loop(ghost_step=pair_cut(f"{names['rounds']} - tail")),
        },
        ensures=[("result == transposed encoding (with this variant's table) of C(rounds) of the published round schedule", post)],
        max_paths=400, time_budget=300, prune_timeout_ms=100, max_depth=6, prefer="cvc5", tier="thorough", timeout_ms=600000, replay=replay,
        prop=prop,
        descr="every password (no NUL), every salt <= 16 bytes, every rounds in [1000, 999999999]; H abstract with 32..64 byte digests",
    )


def passlib_contract(prop, USE512=False):
    from pyvc import extract
    ctor = hash_ctor(None)
    want_map = table_id(extract.module_constant("passlib/handlers/sha2_crypt.py", "_512_transpose_map" if USE512 else "_256_transpose_map"))
    c = _passlib(prop, USE512, ctor)
    return c


def _passlib(prop, USE512, ctor):
    from pyvc import extract
    want = table_id(extract.module_constant("passlib/handlers/sha2_crypt.py", "_512_transpose_map" if USE512 else "_256_transpose_map"))
    return build(
        f"passlib._raw_sha2_crypt[use_512={USE512}]", "passlib/handlers/sha2_crypt.py::_raw_sha2_crypt",
        names={"pwd": "pwd", "plen": "pwd_len", "db": "db", "ctx": "a_ctx", "salt": "salt", "rounds": "rounds", "pwd_param": "pwd", "salt_param": "salt", "rounds_param": "rounds",
               "map_id": lambda it, env, _w=want: _w,
               "requires": ["1000 <= rounds <= 999999999", "len(salt) < 17", "b'\\x00' not in pwd", lambda it, env: it.all_codes_below(it.to_z3(env.lookup("salt")), 128)]},
        params={"pwd": Bytes(), "salt": Str(), "rounds": Int(), "use_512": Const(USE512)},
        globals_={"hashlib": SModule("hashlib", {"sha256": ctor, "sha512": ctor})},
        prop=prop, replay=_replay("passlib", USE512),
    )


def libpass_contract(prop):
    return build(
        "libpass._sha_crypt", "libpass/hashers/sha_crypt.py::_sha_crypt",
        names={"pwd": "secret", "plen": "secret_len", "db": "initial", "ctx": "sha", "salt": "salt", "rounds": "rounds", "pwd_param": "secret", "salt_param": "salt", "rounds_param": "rounds",
               "map_id": lambda it, env: table_id((7, 7, 7)),
               "requires": ["1000 <= rounds <= 999999999", "len(salt) < 17"]},
        params={"secret": Bytes(), "salt": Bytes(), "rounds": Int(), "hash_method": Const(hash_ctor(None)), "transpose_map": Const((7, 7, 7))},
        globals_={},
        prop=prop, replay=_replay("libpass"),
    )


_REF = r"""
import hashlib
from passlib.handlers.sha2_crypt import _raw_sha2_crypt
from libpass.hashers.sha_crypt import _sha_crypt, _256_transpose_map, _512_transpose_map
P256 = [(0, 10, 20), (21, 1, 11), (12, 22, 2), (3, 13, 23), (24, 4, 14), (15, 25, 5), (6, 16, 26), (27, 7, 17), (18, 28, 8), (9, 19, 29)]
P512 = [(0, 21, 42), (22, 43, 1), (44, 2, 23), (3, 24, 45), (25, 46, 4), (47, 5, 26), (6, 27, 48), (28, 49, 7), (50, 8, 29), (9, 30, 51), (31, 52, 10),
        (53, 11, 32), (12, 33, 54), (34, 55, 13), (56, 14, 35), (15, 36, 57), (37, 58, 16), (59, 17, 38), (18, 39, 60), (40, 61, 19), (62, 20, 41)]
def ref(pwd, salt, rounds, use_512):
    hf = hashlib.sha512 if use_512 else hashlib.sha256
    H = lambda b: hf(b).digest()
    n = len(pwd); B = H(pwd + salt + pwd); D = len(B)
    walk = b""; i = n
    while i > 0:
        walk += B if i & 1 else pwd; i >>= 1
    a = H(pwd + salt + (B * (n // D + 1))[:n] + walk)
    dp = (H(pwd * n) * (n // D + 1))[:n]
    ds = H(salt * (16 + a[0]))[:len(salt)]
    c = a
    for i in range(rounds):
        c = H((dp if i & 1 else c) + (ds if i % 3 else b"") + (dp if i % 7 else b"") + (c if i & 1 else dp))
    itoa = "./0123456789ABCDEFGHIJKLMNOPQRSTUVWXYZabcdefghijklmnopqrstuvwxyz"
    out = ""
    for x, y, z in (P512 if use_512 else P256):
        v = (c[x] << 16) | (c[y] << 8) | c[z]
        for _ in range(4): out += itoa[v & 63]; v >>= 6
    if use_512:
        v = c[63]; k = 2
    else:
        v = (c[31] << 8) | c[30]; k = 3
    for _ in range(k): out += itoa[v & 63]; v >>= 6
    return out
"""


def _search(values):
    out = []
    for rounds in (1000, 1001, 1041, 1042, 1043, 1085, 2003):
        for pwd in ("a", "password", "x" * 31, "y" * 32, "z" * 33, "w" * 64, "q" * 65, "p" * 97, "\u00e9\u00ff"):
            for salt in ("", "b", "saltsaltsaltsalt"):
                out.append(dict(values, pwd=pwd, salt=salt, rounds=rounds))
    return out[:: 2]


def _replay(kind, use_512=False):
    from pyvc.replay import py_replay
    if kind == "passlib":
        call = f"r = (_raw_sha2_crypt(V['pwd'].encode('latin-1'), V['salt'], V['rounds'], {use_512}), ref(V['pwd'].encode('latin-1'), V['salt'].encode('ascii'), V['rounds'], {use_512}))"
    else:
        call = ("r = [(_sha_crypt(V['pwd'].encode('latin-1'), V['salt'].encode('ascii'), V['rounds'], hf, tm), ref(V['pwd'].encode('latin-1'), V['salt'].encode('ascii'), V['rounds'], u))"
                " for hf, tm, u in ((hashlib.sha256, _256_transpose_map, False), (hashlib.sha512, _512_transpose_map, True))]\nr = (tuple(x[0] for x in r), tuple(x[1] for x in r))")
    return py_replay(_REF, call, "exc is None and r[0] == r[1]", {"pwd": "a", "salt": "b", "rounds": 1000}, search=_search)


def tables_equal():
    """the two copies of the schedule / transposition tables are identical (finite)"""
    from pyvc import extract
    fails = []
    cases = 0
    for name in ("_c_digest_offsets", "_256_transpose_map", "_512_transpose_map"):
        a = extract.module_constant("passlib/handlers/sha2_crypt.py", name)
        b = extract.module_constant("libpass/hashers/sha_crypt.py", name)
        cases += len(a)
        if tuple(a) != tuple(b):
            fails.append({"key": f"sha-crypt-table:{name}", "what": "passlib and libpass copies differ", "witness": {"table": name}})
    return {"cases": cases, "failures": fails, "samples": [{"table": "_c_digest_offsets", "first": list(extract.module_constant("passlib/handlers/sha2_crypt.py", "_c_digest_offsets")[0])}]}
