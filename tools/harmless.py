#!/usr/bin/env python3
"""Semantics-preserving edits of functions under contract: each is applied to a scratch copy of /repo and the property's quick check
must still exit 0 (an obligation may become undecided -- a reshaped loop -- but nothing may be reported as a violation).
Usage: harmless.py [--jobs N] [label regex]"""
import concurrent.futures as cf, os, re, shutil, subprocess, sys
V = os.path.dirname(os.path.dirname(os.path.abspath(__file__)))
EDITS = [
    ("C06", "getrandstr: loop counter renamed", "passlib/utils/__init__.py",
     "        i = 0\n        while i < count:\n            yield charset[value % letters]\n            value //= letters\n            i += 1\n",
     "        pos = 0\n        while pos < count:\n            yield charset[value % letters]\n            value //= letters\n            pos += 1\n"),
    ("C06", "getrandstr: floor division written with divmod", "passlib/utils/__init__.py",
     "            yield charset[value % letters]\n            value //= letters\n", "            value, digit = divmod(value, letters)\n            yield charset[digit]\n"),
    ("C14", "_find_match: comparison operands swapped", "passlib/totp.py", "        if end <= start:\n            raise InvalidTokenError\n", "        if start >= end:\n            raise InvalidTokenError\n"),
    ("C09", "norm_integer: comparison operands swapped", "passlib/utils/handlers.py", "    if value < min:\n", "    if min > value:\n"),
    ("C16", "_set_record: condition rewritten with De Morgan", "passlib/apache.py", "        if not existing and (_RECORD, key) not in self._source:\n", "        if not (existing or (_RECORD, key) in self._source):\n"),
    ("C18", "unix_disabled.enable: slice written with a variable", "passlib/handlers/misc.py", "                orig = hash[len(prefix) :]\n", "                n = len(prefix)\n                orig = hash[n:]\n"),
    ("C07", "render_mc2: list built in two steps", "passlib/utils/handlers.py", "        parts = [ident, salt, sep, checksum]\n", "        parts = [ident, salt]\n        parts += [sep, checksum]\n"),
    ("C04", "needs_update: operands of `or` kept, parenthesised", "passlib/context.py", "        return record.deprecated or record.needs_update(hash, secret=secret)", "        return bool(record.deprecated) or record.needs_update(hash, secret=secret)"),
    ("C11", "pbkdf1: loop variable named", "passlib/crypto/digest.py", "    for _ in range(rounds):\n        block = const(block).digest()", "    for _round in range(rounds):\n        block = const(block).digest()"),
    ("C02", "md5-crypt: blocks counted upwards", "passlib/handlers/md5_crypt.py", "    blocks = 23\n    while blocks:\n        for even, odd in data:\n            dc = md5(odd + md5(dc + even).digest()).digest()\n        blocks -= 1\n",
     "    for _block in range(23):\n        for even, odd in data:\n            dc = md5(odd + md5(dc + even).digest()).digest()\n"),
    ("C10", "_init_options: try/except written with setdefault chain that keeps last-wins", "passlib/context.py",
     "                    else:\n                        option_map[key] = value", "                    else:\n                        option_map.update({key: value})"),
    ("C12", "check_repair_unused: tail computed with modulo", "passlib/utils/binary.py", "        tail = len(source) & 3\n", "        tail = len(source) % 4\n"),
    ("C03", "set_backend: early return condition reordered", "passlib/utils/handlers.py", "        if (name == \"any\" and cls.__backend) or (name and name == cls.__backend):", "        if (name and name == cls.__backend) or (name == \"any\" and cls.__backend):"),
    ("C15", "_from_parsed_uri: membership test written with dict.get", "passlib/totp.py", "            if k in params:\n                raise cls._uri_parse_error(f\"duplicate parameter ({k!r})\")", "            if k in params.keys():\n                raise cls._uri_parse_error(f\"duplicate parameter ({k!r})\")"),
    ("C13", "normalize_time: isinstance checks merged", "passlib/totp.py", "        if isinstance(time, int):\n            return time\n        if isinstance(time, float):\n            return int(time)\n", "        if isinstance(time, (int, float)):\n            return int(time)\n"),
    ("C05", "_check_truncate_policy callers unchanged; validate_secret comparison flipped", "passlib/utils/handlers.py", "    if len(secret) > MAX_PASSWORD_SIZE:\n", "    if MAX_PASSWORD_SIZE < len(secret):\n"),
    ("C08", "bcrypt.needs_update untouched; parse_mc2 local renamed", "passlib/utils/handlers.py", "        salt, chk = parts\n        return salt, chk or None\n", "        salt_part, chk = parts\n        return salt_part, chk or None\n"),
    ("C01", "GenericHandler.verify: local renamed", "passlib/utils/handlers.py", "        chk = self.checksum\n        if chk is None:\n            raise exc.MissingDigestError(cls)\n        return consteq(self._calc_checksum(secret), chk)", "        stored = self.checksum\n        if stored is None:\n            raise exc.MissingDigestError(cls)\n        return consteq(self._calc_checksum(secret), stored)"),
    ("C17", "_init_htpasswd_context: local renamed", "passlib/apache.py", "preferred", "wanted"),
    ("C13", "_decode_bytes: cleaning and encoding in two statements", "passlib/totp.py", "    key = _clean_re.sub(\"\", key).encode(\"utf-8\")  # strip whitespace & hypens\n", "    key = _clean_re.sub(\"\", key)\n    key = key.encode(\"utf-8\")\n"),
    ("C16", "save: recursion replaced by the same two statements", "passlib/apache.py", "            self.save(self._path)\n            self._mtime = os.path.getmtime(self._path)\n", "            with open(self._path, \"wb\") as fh:\n                fh.writelines(self._iter_lines())\n            self._mtime = os.path.getmtime(self._path)\n"),
    ("C18", "unix_disabled.using: guard written positively", "passlib/handlers/misc.py", "            if not cls.identify(marker):\n                raise ValueError(f\"invalid marker: {marker!r}\")\n            subcls.default_marker = marker\n", "            if cls.identify(marker):\n                subcls.default_marker = marker\n            else:\n                raise ValueError(f\"invalid marker: {marker!r}\")\n"),
    ("C02", "msdcc2: user name folded in a statement of its own", "passlib/handlers/windows.py", "        user = to_unicode(user, \"utf-8\", param=\"user\").lower().encode(\"utf-16-le\")\n        tmp = md4(md4(secret).digest() + user).digest()\n        return pbkdf2_hmac", "        user = to_unicode(user, \"utf-8\", param=\"user\").lower()\n        user = user.encode(\"utf-16-le\")\n        tmp = md4(md4(secret).digest() + user).digest()\n        return pbkdf2_hmac"),
    ("C02", "grub_pbkdf2_sha512: keyword arguments", "passlib/handlers/pbkdf2.py", "pbkdf2_hmac(\"sha512\", secret, self.salt, self.rounds, 64)", "pbkdf2_hmac(\"sha512\", secret, self.salt, rounds=self.rounds, keylen=64)"),
    ("C01", "safe_crypt: decoded text kept in a second variable", "passlib/utils/__init__.py", "            try:\n                secret = secret.decode(\"utf-8\")\n            except UnicodeDecodeError:\n                return None\n", "            try:\n                text = secret.decode(\"utf-8\")\n            except UnicodeDecodeError:\n                return None\n            secret = text\n"),
    ("C17", "PrefixWrapper.identify: prefix read once", "passlib/utils/handlers.py", "        hash = to_unicode_for_identify(hash)\n        if not hash.startswith(self.prefix):\n            return False\n", "        hash = to_unicode_for_identify(hash)\n        prefix = self.prefix\n        if not hash.startswith(prefix):\n            return False\n"),
    ("C04", "bcrypt_sha256 update check: class read once", "passlib/handlers/bcrypt.py", "        if self.version < type(self).version:\n            return True\n", "        configured = type(self).version\n        if self.version < configured:\n            return True\n"),
    ("C15", "to_dict: wallet test nested", "passlib/totp.py", "        if encrypt is None:\n            wallet = self.wallet\n            encrypt = wallet and wallet.has_secrets\n", "        if encrypt is None:\n            wallet = self.wallet\n            encrypt = wallet.has_secrets if wallet else wallet\n"),
    ("C20", "libpass validate_rounds: chained comparison", "libpass/_utils/validation.py", "    if rounds < min or rounds > max:\n", "    if not (min <= rounds <= max):\n"),
    ("C06", "libpass salt length: logarithm in a variable", "libpass/_salt.py", "    length = math.ceil(entropy_bits / math.log2(len(chars)))\n", "    bits_per_symbol = math.log2(len(chars))\n    length = math.ceil(entropy_bits / bits_per_symbol)\n"),
    ("C20", "libpass needs_update (pbkdf2): early return rewritten", "libpass/hashers/pbkdf2.py", "        if not hash_info:\n            return True\n        return hash_info.rounds != self._rounds", "        if hash_info is None:\n            return True\n        return self._rounds != hash_info.rounds"),
]
args = sys.argv[1:]
jobs = 4
if "--jobs" in args: i = args.index("--jobs"); jobs = int(args[i + 1]); del args[i:i + 2]
pat = args[0] if args else None

def one(e):
    pid, label, rel, old, new = e
    scr = f"/tmp/hl_{abs(hash(label)) % 10**8}"
    shutil.rmtree(scr, ignore_errors=True)
    subprocess.run(f"rsync -a --exclude .git /repo/ {scr}/", shell=True)
    try:
        p = os.path.join(scr, rel); s = open(p).read()
        n = s.count(old)
        if n == 0:
            return e, "PATTERN-MISSING", ""
        open(p, "w").write(s.replace(old, new))
        r = subprocess.run(f"cd {scr} && PYTHONPATH={scr} /venv/bin/python -c 'import passlib.hash, passlib.apache, passlib.totp, libpass.hashers.pbkdf2'", shell=True, capture_output=True, text=True)
        if r.returncode:
            return e, "EDIT-BREAKS-IMPORT", r.stderr[-200:]
        env = dict(os.environ, PYVC_REPO=scr, PYVC_EVIDENCE_DIR=scr + "_ev", PYVC_WORKERS=str(max(2, 16 // jobs)))
        c = subprocess.run(["./check", pid], cwd=V, env=env, capture_output=True, text=True, timeout=3600)
        viol = [l for l in c.stdout.splitlines() if l.startswith("VIOLATION")]
        und = [l for l in c.stdout.splitlines() if l.startswith("NOTE undecided")]
        return e, ("ok" if c.returncode == 0 and not viol else "FALSE-ALARM"), f"rc={c.returncode} undecided={len(und)} " + (viol[0][:160] if viol else (und[0][:140] if und else ""))
    finally:
        shutil.rmtree(scr, ignore_errors=True); shutil.rmtree(scr + "_ev", ignore_errors=True)

todo = [e for e in EDITS if not pat or re.search(pat, e[1]) or re.search(pat, e[0])]
bad = 0
with cf.ThreadPoolExecutor(jobs) as ex:
    for e, verdict, info in ex.map(one, todo):
        print(f"{verdict:12s} {e[0]} {e[1]}: {info}", flush=True)
        bad += verdict != "ok"
sys.exit(1 if bad else 0)
