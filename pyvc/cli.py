"""./check entry point.  Exit 0 held / 1 violation / 3 checker error (never with a VIOLATION line)."""
import argparse
import json
import os
import sys
import traceback


def main():
    ap = argparse.ArgumentParser()
    ap.add_argument("pid")
    ap.add_argument("--tier", default=os.environ.get("VERIF_TIER", "quick"))
    ap.add_argument("--only")
    ap.add_argument("--replay")
    ap.add_argument("-v", action="store_true")
    a = ap.parse_args()
    seed = int(os.environ.get("VERIF_SEED", "0") or 0)
    if a.replay:
        doc = json.load(open(a.replay))
        print(json.dumps(doc, indent=1)[:4000])
        a.only = a.only or None
    from pyvc.runner import run_property

    try:
        rc = run_property(a.pid, a.tier, seed, a.only, a.v)
    except Exception:
        traceback.print_exc()
        print("CHECKER-ERROR: driver crashed")
        rc = 3
    sys.exit(rc)


if __name__ == "__main__":
    main()
