"""bigcrypt (HP-UX / Digital Unix): the digest is the chain of traditional crypt() digests of the 8-byte segments,
each segment salted with the first two characters of the previous segment's digest.

  seg(0)   = crypt(secret[0:8], salt)
  seg(k)   = crypt(secret[8k:8k+8], seg(k-1)[0:2])       for 8k < len(secret)
  checksum = seg(0) + seg(1) + ... ;  number of segments = max(1, ceil(len(secret) / 8))

crypt() itself (the DES core) is abstract here: an uninterpreted function R(key bytes, 2 salt bytes) -> 11 characters that
only reads the first 8 bytes of its key (that is _raw_des_crypt's contract, compared with FIPS 46-3 by the stand-in)."""
import z3

from pyvc.contract import Bytes, Contract, Loop, Obj, Str
from pyvc.values import SStr, SStub

D = "passlib/handlers/des_crypt.py"
S = z3.StringSort()
R = z3.Function("raw_des_crypt", S, S, S)
BIG = z3.Function("bigcrypt_chain", S, S, z3.IntSort(), S)


def r(it, key, salt):
    v = R(key, salt)
    it.run.assume(z3.Length(v) == 11)
    # crypt(3) reads at most 8 key bytes
    it.run.assume(v == R(z3.SubString(key, 0, 8), salt))
    return v


def big(it, s, salt, j):
    b = BIG(s, salt, j)
    prev = BIG(s, salt, j - 1)
    it.run.assume(b == z3.If(j <= 1, R(z3.SubString(s, 0, 8), salt), z3.Concat(prev, R(z3.SubString(s, 8 * (j - 1), 8), z3.SubString(prev, z3.Length(prev) - 11, 2)))))
    it.run.assume(z3.Length(b) == 11 * z3.If(j <= 1, 1, j))
    it.run.assume(z3.Length(R(z3.SubString(s, 0, 8), salt)) == 11)
    it.run.assume(z3.Implies(j > 1, z3.Length(prev) == 11 * z3.If(j - 1 <= 1, 1, j - 1)))
    return b


def _raw(it, a, k):
    v = SStr(r(it, it.to_z3(a[0]), it.to_z3(a[1])), "bytes")
    it.run.assume(it.all_codes_below(v.e, 128))
    return v


def _big_spec(it, args, kwargs):
    return SStr(big(it, it.to_z3(args[0]), it.to_z3(args[1]), it.to_z3(args[2], "int")), "bytes")


def contract(prop):
    return Contract(
        "bigcrypt._calc_checksum", f"{D}::bigcrypt._calc_checksum",
        params={"self": Obj(fields={"salt": Str()}), "secret": Bytes()},
        globals={"_raw_des_crypt": SStub(_raw, "_raw_des_crypt", trusted="traditional crypt(): abstract function of (first 8 key bytes, 2 salt bytes) -> 11 hash64 characters")},
        specs={"chain": _big_spec},
        requires=["len(self.salt) == 2", lambda it, env: it.all_codes_below(it.to_z3(env.lookup("self").fields["salt"]), 128)],
        loops={"_calc_checksum#0": Loop(
            invariant=["idx % 8 == 0", "idx >= 8", "idx == 8 or idx - 8 < end", "end == len(secret)", "chk == chain(secret, self.salt.encode('ascii'), idx // 8)",
                       lambda it, env: it.all_codes_below(it.to_z3(env.lookup("chk")), 128)],
            modifies=["idx", "chk", "next"], decreases="end - idx + 8")},
        ensures=[("checksum == chain of max(1, ceil(len/8)) crypt() segments, each salted by the previous segment's first two characters",
                  "result.encode('ascii') == chain(secret, self.salt.encode('ascii'), 1 if len(secret) <= 8 else (len(secret) + 7) // 8)")],
        prop=prop, prefer="cvc5",
        descr="every password (bytes), every 2-character salt; DES core abstract",
    )
