"""C06, continued: passlib.pwd refuses sources with duplicate elements (a duplicate skews the distribution and
over-states the entropy) -- every time, whatever the validation cache holds."""
import z3

from pyvc.contract import Const, Contract, Obj, Str
from pyvc.values import SBool, SInt, SList, SObj, SSet, SStr, SStub

P = "passlib/pwd.py"


def _setup(n):
    def setup(it, args):
        elems = [SStr(z3.String(f"elem{i}"), "str") for i in range(n)]
        source = tuple(elems)
        in_cache = z3.Bool("source in cache (on entry)")
        added = []

        def contains(i, a, k):
            return SBool(in_cache)

        def add(i, a, k):
            added.append(i.resolve(a[0]))

        cache = SObj("_ensure_unique_cache", fields={"__contains__": SStub(contains, "source in cache"), "add": SStub(add, "cache.add")})
        it.genv.vars["_ensure_unique_cache"] = cache
        distinct = z3.And(*[elems[i].e != elems[j].e for i in range(n) for j in range(i)]) if n > 1 else z3.BoolVal(True)
        # cache invariant on entry: only validated (duplicate-free) sources are members
        it.run.assume(z3.Implies(in_cache, distinct))
        it.run.ghost.update({"added": added, "distinct": distinct})

        def set_(i, a, k):
            """set(x) of a static sequence of symbolic strings: one representative per equality class (forks)"""
            if not a:
                return SSet([])
            items = i.static_items_req(i.resolve(a[0]))
            reps = []
            for x in items:
                dup = False
                for r in reps:
                    if i.run.branch(i.to_z3(x) == i.to_z3(r)):
                        dup = True
                        break
                if not dup:
                    reps.append(x)
            return SSet(reps)

        it.genv.vars["set"] = SStub(set_, "set()")
        it.genv.vars["repr"] = SStub(lambda i, a, k: SStr(z3.String(i.run.fresh("repr")), "str"), "repr()")
        it.genv.vars["sorted"] = SStub(lambda i, a, k: SList(i.static_items_req(i.resolve(a[0]))), "sorted()")
        args["source"] = source
        return None

    return setup


def _post(it, env):
    g = it.run.ghost
    return z3.And(g["distinct"], *[z3.BoolVal(True) for _ in g["added"]])


def _added_only_valid(it, env):
    g = it.run.ghost
    # whatever was recorded as validated is duplicate-free
    return z3.Implies(z3.BoolVal(bool(g["added"])), g["distinct"])


CONTRACTS = []
for n in (1, 2, 3):
    CONTRACTS.append(Contract(
        f"pwd._ensure_unique[{n} elements]", f"{P}::_ensure_unique",
        params={"source": Const(None), "param": Const("chars")},
        setup=_setup(n),
        globals={"contextlib": SObj("contextlib", fields={"suppress": SStub(lambda i, a, k: SObj("suppress"), "contextlib.suppress")})},
        raises={"ValueError": lambda it, env: z3.And(z3.Not(it.run.ghost["distinct"]), _added_only_valid(it, env))},
        ensures=[("accepted only when all elements are distinct", _post), ("only a duplicate-free source is recorded as validated (cache invariant kept)", _added_only_valid)],
        descr=f"every tuple of {n} strings, any cache content satisfying the invariant",
    ))

MUTANTS = [
    ("pwd._ensure_unique: source cached before the duplicate scan", P,
     "    try:\n        if source in cache:\n            return True\n    except TypeError:\n        hashable = False\n",
     "    try:\n        if source in cache:\n            return True\n        cache.add(source)\n    except TypeError:\n        hashable = False\n", "refute", "_ensure_unique"),
    ("pwd._ensure_unique: duplicates tolerated when only one element repeats", P, "len(set(source)) == len(source)", "len(set(source)) >= len(source) - 1", "refute", "_ensure_unique"),
]
