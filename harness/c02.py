"""Bounded stand-in for C02: every format's output equals an independent implementation of its published
specification (specs/ref_*.py, crypt(3), Django, the bcrypt package, hashlib.scrypt), and strings made by
those oracles verify under passlib.  Both directions on a grid of password lengths / byte contents /
salt sizes / costs."""
import base64
import hashlib
import hmac as std_hmac
import os
import sys
import time

# the pure-Python bcrypt backend is only offered when this is set before passlib is imported
os.environ.setdefault("PASSLIB_BUILTIN_BCRYPT", "enabled")

sys.path.insert(0, os.path.join(os.path.dirname(os.path.abspath(__file__)), ".."))

from common import Group, main, outcome  # noqa: E402

from specs import ref_crypt as rc  # noqa: E402
from specs import ref_des as rd  # noqa: E402
from specs import ref_md4 as rm4  # noqa: E402
from specs import ref_misc as rmisc  # noqa: E402
from specs import ref_oscrypt as oscrypt  # noqa: E402
from specs import ref_pbkdf2 as rp  # noqa: E402
from specs import ref_saslprep as rsp  # noqa: E402

LENGTHS = [0, 1, 7, 8, 9, 15, 16, 17, 55, 56, 63, 64, 65, 72, 73, 95, 96, 97, 127, 128, 129, 255, 256]
H64 = rc.H64
BCRYPT64 = "./ABCDEFGHIJKLMNOPQRSTUVWXYZabcdefghijklmnopqrstuvwxyz0123456789"
STD64 = "ABCDEFGHIJKLMNOPQRSTUVWXYZabcdefghijklmnopqrstuvwxyz0123456789+/"
TEXT_POOL = "abcXYZ019 !~\t" + "\u00e9\u00fc\u00f1\u00e4\u00f6\u03a9\u0436\u65e5\u20ac\U0001f600"
OEM_POOL = "abcxyzABC019 !~" + "\u00e9\u00fc\u00f1\u00e4\u00f6"
# SASLprep-relevant: NBSP (mapped to space), soft hyphen (mapped to nothing), feminine ordinal / roman numeral / ohm sign (NFKC)
SASL_POOL = "abcXYZ019 !~" + "\u00e9\u00aa\u00a0\u00ad\u2168\u2126\u65e5"


def pw_bytes(rng, n, variant):
    """byte passwords without NUL: variant 0 random over 1..255, variant 1 a walk over all 255 values,
    variant 2 high-bit-only bytes (never valid UTF-8 when n>0)"""
    if variant == 0:
        return bytes(rng.randrange(1, 256) for _ in range(n))
    if variant == 1:
        start = rng.randrange(255)
        return bytes((start + i) % 255 + 1 for i in range(n))
    return bytes(rng.randrange(0x80, 0x100) for _ in range(n))


def pw_text(rng, n, pool=TEXT_POOL):
    return "".join(rng.choice(pool) for _ in range(n))


def utf8_pw(rng, n, pool=TEXT_POOL):
    """exactly n bytes of valid UTF-8 with multi-byte characters"""
    out = b""
    while len(out) < n:
        c = rng.choice(pool).encode("utf-8")
        out += c if len(out) + len(c) <= n else b"a"
    return out


def is_utf8(b):
    try:
        b.decode("utf-8")
        return True
    except UnicodeDecodeError:
        return False


def rstr(rng, n, chars=H64):
    return "".join(rng.choice(chars) for _ in range(n))


def rbytes(rng, n):
    return bytes(rng.randrange(256) for _ in range(n))


def bcrypt_salt(rng):
    raw = rbytes(rng, 16)
    return base64.b64encode(raw).decode().rstrip("=").translate(str.maketrans(STD64, BCRYPT64))


def pbkdf2(alg, pw, salt, rounds, keylen):
    """own RFC 2898 code for cheap costs, the stdlib for the fixed expensive ones"""
    if rounds <= 1200:
        return rp.pbkdf2(alg, pw, salt, rounds, keylen)
    return hashlib.pbkdf2_hmac(alg, pw, salt, rounds, keylen)


class TGroup(Group):
    """Group whose reported seconds are its own build time (common.Group measures until the final dump)"""

    def done(self):
        self.elapsed = round(time.time() - self.t0, 2)
        return self

    def out(self):
        d = super().out()
        d["seconds"] = getattr(self, "elapsed", d["seconds"])
        return d


class Fmt:
    """one format: how to configure passlib, how to compute the reference string"""

    def __init__(self, name, ref, salts=None, costs=None, using=None, ctxs=None, pw="bytes", lengths=None, osc=None, max_len=None, pool=None, handler=None, hash_cost=None, hash_ok=None, tag=None, extra=None):
        self.name = name
        self.ref = ref  # ref(pw, salt, cost, ctx) -> str
        self.salts = salts  # callable(rng, tier) -> list, or None
        self.costs = costs  # callable(tier) -> list, or None
        self.using = using or (lambda salt, cost: {k: v for k, v in (("salt", salt), ("rounds", cost)) if v is not None})
        self.ctxs = ctxs or [{}]
        self.pw = pw
        self.lengths = lengths
        self.osc = osc  # osc(salt, cost) -> crypt(3) setting string, or None
        self.max_len = max_len
        self.pool = pool
        self.handler = handler or name
        # hash_cost: the cost passlib is specified to record when asked for `cost` (bsdi_crypt: even rounds are
        # bumped to the next odd value, upstream's documented weak-key avoidance); verify still uses `cost`
        self.hash_cost = hash_cost
        # hash_ok(salt, cost): False when the configuration cannot be requested through using() (verify only)
        self.hash_ok = hash_ok
        self.tag = tag or (lambda salt, cost: "")  # key suffix naming a witness class
        self.extra = extra or []  # explicit (length, salt, cost) cases always evaluated


def plan(fmt, tier, rng):
    """(pw, salt, cost, ctx) cases: every length with salts/costs cycling, every salt and every cost at
    least once, a full salts x costs cross on one short length (capped)"""
    lengths = list(fmt.lengths or LENGTHS)
    if tier != "quick" and not fmt.lengths:
        lengths = lengths + [4096]
    if fmt.max_len is not None:
        lengths = [n for n in lengths if n <= fmt.max_len]
    salts = fmt.salts(rng, tier) if fmt.salts else [None]
    costs = fmt.costs(tier) if fmt.costs else [None]
    variants = [0, 1, 2] if tier == "quick" else [0, 1, 2, 0, 1, 2]
    out = []
    idx = 0

    def mkpw(n, variant):
        if fmt.pw == "bytes":
            return pw_bytes(rng, n, variant)
        if fmt.pw == "ascii":
            return pw_text(rng, n, "abcxyzABC0123456789!~ ")
        return pw_text(rng, n, fmt.pool or TEXT_POOL)

    for n in lengths:
        for v in variants:
            out.append((mkpw(n, v), salts[idx % len(salts)], costs[idx % len(costs)], fmt.ctxs[idx % len(fmt.ctxs)]))
            idx += 1
    base = [n for n in (9, 17, 8) if n in lengths or fmt.max_len is None or n <= fmt.max_len][:1] or [lengths[-1]]
    n0 = base[0]
    for s in salts:
        out.append((mkpw(n0, 0), s, costs[idx % len(costs)], fmt.ctxs[idx % len(fmt.ctxs)]))
        idx += 1
    for c in costs:
        out.append((mkpw(n0, 1), salts[idx % len(salts)], c, fmt.ctxs[idx % len(fmt.ctxs)]))
        idx += 1
    for c in fmt.ctxs:
        out.append((mkpw(n0, 0), salts[idx % len(salts)], costs[idx % len(costs)], c))
        idx += 1
    for n, s, c in fmt.extra:
        out.append((mkpw(n, 0), s, c, fmt.ctxs[0]))
    if fmt.pw == "bytes" and 255 in lengths:
        out.append((bytes(range(1, 256)), salts[0], costs[0], fmt.ctxs[0]))
    return out


def as_bytes(pw):
    return pw.encode("utf-8") if isinstance(pw, str) else pw


def wit(fmt, pw, salt, cost, ctx, **extra):
    w = {"hasher": fmt.name, "secret": pw if isinstance(pw, str) else {"bytes_hex": pw.hex()}, "salt": salt if not isinstance(salt, bytes) else {"bytes_hex": salt.hex()}, "cost": cost, "ctx": ctx}
    w.update(extra)
    return w


# ---------------------------------------------------------------------------------------------
def sizes_str(lo, hi, chars=H64, extra=()):
    def gen(rng, tier):
        return [rstr(rng, n, chars) for n in list(range(lo, hi + 1)) + list(extra)]

    return gen


def sizes_bytes(sizes):
    def gen(rng, tier):
        return [rbytes(rng, n) for n in sizes]

    return gen


PB_SIZES = list(range(0, 18)) + [19, 20, 21, 31, 32, 33, 63, 64, 65, 127, 128, 129, 1024]
SHA_ROUNDS_Q = list(range(1000, 1043)) + [1083, 1084, 1085, 1024, 2048, 5000]
SHA_ROUNDS_T = list(range(1000, 1127)) + [2048, 4096, 4999, 5000, 5001, 8192]


def formats():
    F = []
    # ---- DES family ------------------------------------------------------------------------
    all2 = lambda rng, tier: ["..", "./", "/.", "zz", "z.", ".z", "09", "AZ", "az"] + [rstr(rng, 2) for _ in range(8 if tier == "quick" else 64)]  # noqa: E731
    F.append(Fmt("des_crypt", lambda pw, s, c, x: rd.des_crypt(pw, s), salts=all2, osc=lambda s, c: s))
    F.append(Fmt("bsdi_crypt", lambda pw, s, c, x: rd.bsdi_crypt(pw, s, c), salts=lambda rng, tier: ["....", "zzzz", "/...", "./..", "../.", ".../"] + [rstr(rng, 4) for _ in range(8 if tier == "quick" else 48)],
                 costs=lambda tier: [1, 2, 3, 4, 5, 7, 8, 15, 16, 17, 25, 26, 63, 64, 65, 127] + ([] if tier == "quick" else [255, 256, 725, 1001, 4097]),
                 osc=lambda s, c: "_" + rd.h64_le_str(c, 4) + s, hash_cost=lambda c: c | 1))
    F.append(Fmt("bigcrypt", lambda pw, s, c, x: rd.bigcrypt(pw, s), salts=all2, lengths=[0, 1, 7, 8, 9, 15, 16, 17, 55, 56, 63, 64, 65, 72, 73, 127, 128]))
    F.append(Fmt("crypt16", lambda pw, s, c, x: rd.crypt16(pw, s), salts=all2, lengths=[0, 1, 7, 8, 9, 15, 16, 17, 55, 64]))
    # ---- md5 / sha crypt ----------------------------------------------------------------------
    F.append(Fmt("md5_crypt", lambda pw, s, c, x: rc.md5_crypt(pw, s), salts=sizes_str(0, 8), osc=lambda s, c: "$1$" + s + "$"))
    F.append(Fmt("apr_md5_crypt", lambda pw, s, c, x: rc.apr_md5_crypt(pw, s), salts=sizes_str(0, 8)))
    F.append(Fmt("sha256_crypt", lambda pw, s, c, x: rc.sha256_crypt(pw, s, c), salts=sizes_str(0, 16), costs=lambda tier: SHA_ROUNDS_Q if tier == "quick" else SHA_ROUNDS_T,
                 osc=lambda s, c: "$5$%s%s$" % ("" if c == 5000 else "rounds=%d$" % c, s)))
    F.append(Fmt("sha512_crypt", lambda pw, s, c, x: rc.sha512_crypt(pw, s, c), salts=sizes_str(0, 16), costs=lambda tier: SHA_ROUNDS_Q if tier == "quick" else SHA_ROUNDS_T,
                 osc=lambda s, c: "$6$%s%s$" % ("" if c == 5000 else "rounds=%d$" % c, s)))
    F.append(Fmt("sha1_crypt", lambda pw, s, c, x: rc.sha1_crypt(pw, s, c), salts=sizes_str(0, 64), costs=lambda tier: [1, 2, 3, 4, 41, 42, 43, 1000, 1024],
                 osc=lambda s, c: ("$sha1$%d$%s$" % (c, s)) if s else None))
    F.append(Fmt("phpass", lambda pw, s, c, x: rc.phpass(pw, s, c[0], c[1]), salts=sizes_str(8, 8, extra=(8, 8, 8)), costs=lambda tier: [(7, "$P$"), (8, "$P$"), (7, "$H$"), (9, "$H$"), (10, "$P$")] + ([] if tier == "quick" else [(11, "$P$"), (13, "$H$")]),
                 using=lambda s, c: {"salt": s, "rounds": c[0], "ident": c[1]}))
    F.append(Fmt("sun_md5_crypt", lambda pw, s, c, x: rc.sun_md5_crypt(pw, s, c[0], c[1]), salts=sizes_str(0, 16, extra=(32,)),
                 costs=lambda tier: [(0, False), (0, True), (1, False), (2, True), (42, False), (1000, True)] + ([] if tier == "quick" else [(41, True), (43, False), (4096, False), (65536, False)]),
                 using=lambda s, c: {"salt": s, "rounds": c[0]}, hash_ok=lambda s, c: not c[1],  # bare_salt cannot be requested via using()
                 osc=lambda s, c: ("$md5$" if c[0] == 0 else "$md5,rounds=%d$" % c[0]) + s + ("" if c[1] else "$"),
                 lengths=[0, 1, 8, 15, 16, 17, 55, 56, 64, 65, 128, 256],
                 tag=lambda s, c: ":empty-bare-salt" if s == "" and c[1] else "", extra=[(9, "", (0, True)), (9, "", (2, True)), (9, "", (0, False)), (9, "a", (0, True))]))
    # ---- pbkdf2 family ------------------------------------------------------------------------
    pb_costs = lambda tier: [1, 2, 3, 4, 41, 42, 43, 1000, 1024] + ([] if tier == "quick" else [6400, 29000])  # noqa: E731
    for alg in ("sha1", "sha256", "sha512"):
        F.append(Fmt("pbkdf2_" + alg, lambda pw, s, c, x, alg=alg: "%s%d$%s$%s" % ("$pbkdf2$" if alg == "sha1" else "$pbkdf2-%s$" % alg, c, rp.ab64(s), rp.ab64(pbkdf2(alg, pw, s, c, rp.DIGEST_SIZE[alg]))),
                     salts=sizes_bytes(PB_SIZES), costs=pb_costs))
        F.append(Fmt("ldap_pbkdf2_" + alg, lambda pw, s, c, x, alg=alg: "%s%d$%s$%s" % ("{PBKDF2}" if alg == "sha1" else "{PBKDF2-%s}" % alg.upper(), c, rp.ab64(s), rp.ab64(pbkdf2(alg, pw, s, c, rp.DIGEST_SIZE[alg]))),
                     salts=sizes_bytes(PB_SIZES), costs=pb_costs))
    F.append(Fmt("atlassian_pbkdf2_sha1", lambda pw, s, c, x: "{PKCS5S2}" + base64.b64encode(s + pbkdf2("sha1", pw, s, 10000, 32)).decode(), salts=sizes_bytes([16, 16, 16, 16])))
    F.append(Fmt("cta_pbkdf2_sha1", lambda pw, s, c, x: rp.cta_pbkdf2_sha1(pw, s, c), salts=sizes_bytes(PB_SIZES), costs=lambda tier: [1, 2, 3, 9, 10, 15, 16, 17, 255, 256, 1000]))
    F.append(Fmt("dlitz_pbkdf2_sha1", lambda pw, s, c, x: rp.dlitz_pbkdf2_sha1(pw, s, c), salts=sizes_str(0, 17, extra=(32, 64, 1024)), costs=lambda tier: [1, 2, 3, 9, 10, 15, 16, 17, 255, 256, 399, 400, 401, 1000]))
    F.append(Fmt("grub_pbkdf2_sha512", lambda pw, s, c, x: rp.grub_pbkdf2_sha512(pw, s, c), salts=sizes_bytes(PB_SIZES), costs=pb_costs))
    F.append(Fmt("fshp", lambda pw, s, c, x: rp.fshp(pw, s, c[0], c[1]), salts=sizes_bytes(list(range(0, 18)) + [32, 64, 128]),
                 costs=lambda tier: [(r, v) for v in (0, 1, 2, 3) for r in (1, 2, 3, 480)], using=lambda s, c: {"salt": s, "rounds": c[0], "variant": c[1]}))

    def scram_ref(pw, s, c, x):
        return rp.scram(rsp.saslprep(pw).encode("utf-8"), s, c[0], c[1])

    F.append(Fmt("scram", scram_ref, salts=sizes_bytes(list(range(0, 18)) + [32, 64, 1024]), pw="text", pool=SASL_POOL,
                 costs=lambda tier: [(r, a) for a in (["sha-1"], ["sha-1", "sha-256"], ["sha-1", "sha-256", "sha-512"], ["sha-1", "md5"]) for r in (1, 2, 3, 1000)],
                 using=lambda s, c: {"salt": s, "rounds": c[0], "algs": ",".join(c[1])}))
    # ---- plain digests ----------------------------------------------------------------------
    for alg in ("md5", "sha1", "sha256", "sha512"):
        F.append(Fmt("hex_" + alg, lambda pw, s, c, x, alg=alg: hashlib.new(alg, pw).hexdigest()))
    F.append(Fmt("hex_md4", lambda pw, s, c, x: rm4.md4(pw).hex()))
    F.append(Fmt("ldap_md5", lambda pw, s, c, x: rmisc.ldap_md5(pw)))
    F.append(Fmt("ldap_sha1", lambda pw, s, c, x: rmisc.ldap_sha1(pw)))
    F.append(Fmt("ldap_hex_md5", lambda pw, s, c, x: "{MD5}" + hashlib.md5(pw).hexdigest()))
    F.append(Fmt("ldap_hex_sha1", lambda pw, s, c, x: "{SHA}" + hashlib.sha1(pw).hexdigest()))
    for alg in ("md5", "sha1", "sha256", "sha512"):
        F.append(Fmt("ldap_salted_" + alg, lambda pw, s, c, x, alg=alg: rmisc.ldap_salted(alg, pw, s), salts=sizes_bytes(list(range(4, 17)))))
    # ---- windows -----------------------------------------------------------------------------
    F.append(Fmt("nthash", lambda pw, s, c, x: rm4.nthash(pw), pw="text"))
    F.append(Fmt("bsd_nthash", lambda pw, s, c, x: "$3$$" + rm4.nthash(pw), pw="text"))  # libxcrypt widens bytes instead of decoding UTF-8: not used as an oracle
    users = [{"user": u} for u in ("Administrator", "a", "\u00c9ric", "USER.name", "")]
    F.append(Fmt("msdcc", lambda pw, s, c, x: rm4.msdcc(pw, x["user"]), pw="text", ctxs=users))
    F.append(Fmt("msdcc2", lambda pw, s, c, x: rm4.msdcc2(pw, x["user"]), pw="text", ctxs=users, lengths=[0, 1, 8, 13, 14, 15, 27, 28, 64, 128]))
    F.append(Fmt("lmhash", lambda pw, s, c, x: rd.lmhash(pw.upper().encode("cp437")), pw="text", pool=OEM_POOL, lengths=[0, 1, 6, 7, 8, 13, 14, 15, 16, 28, 64]))
    # ---- databases ------------------------------------------------------------------------------
    F.append(Fmt("mssql2000", lambda pw, s, c, x: rmisc.mssql2000(pw, s), pw="text", pool="abcXYZ019 !~\u00e9\u00fc\u00f1\u0436\u03a9\u65e5", salts=sizes_bytes([4] * 6)))
    F.append(Fmt("mssql2005", lambda pw, s, c, x: rmisc.mssql2005(pw, s), pw="text", salts=sizes_bytes([4] * 6)))
    F.append(Fmt("mysql323", lambda pw, s, c, x: rmisc.mysql323(pw)))
    F.append(Fmt("mysql41", lambda pw, s, c, x: rmisc.mysql41(pw)))
    F.append(Fmt("oracle10", lambda pw, s, c, x: rd.oracle10(pw, x["user"]), pw="text", pool="abcxyzXYZ019_#$\u00e9\u00fc\u0436", ctxs=[{"user": u} for u in ("scott", "SYSTEM", "a", "\u00e9ric")], lengths=[0, 1, 3, 4, 5, 7, 8, 9, 15, 16, 17, 30, 64]))
    F.append(Fmt("oracle11", lambda pw, s, c, x: rmisc.oracle11(pw, s), salts=lambda rng, tier: [rstr(rng, 20, "0123456789ABCDEF") for _ in range(6)]))
    F.append(Fmt("postgres_md5", lambda pw, s, c, x: rmisc.postgres_md5(pw, x["user"].encode("utf-8")), ctxs=[{"user": u} for u in ("postgres", "", "\u00e9ric", "u" * 63)]))
    F.append(Fmt("htdigest", lambda pw, s, c, x: rmisc.htdigest(pw, x["user"].encode("utf-8"), x["realm"].encode("utf-8")), ctxs=[{"user": "Mufasa", "realm": "testrealm@host.com"}, {"user": "\u00e9", "realm": "r"}, {"user": "u", "realm": ""}]))
    # ---- cisco ------------------------------------------------------------------------------------
    F.append(Fmt("cisco_type7", lambda pw, s, c, x: rmisc.cisco_type7(pw, s), salts=lambda rng, tier: list(range(0, 53)) if tier != "quick" else list(range(0, 16)) + [52]))
    cusers = [{"user": u} for u in ("", "a", "ab", "abc", "abcd", "admin", "\u00e9r")]
    F.append(Fmt("cisco_pix", lambda pw, s, c, x: rmisc.cisco_pix(pw, x["user"].encode("utf-8")), ctxs=cusers, lengths=list(range(0, 17)), pw="ascii"))
    F.append(Fmt("cisco_asa", lambda pw, s, c, x: rmisc.cisco_asa(pw, x["user"].encode("utf-8")), ctxs=cusers, lengths=list(range(0, 33)), pw="ascii"))
    # ---- django (own trivial references; Django itself is a second oracle in its own group) ------
    F.append(Fmt("django_salted_md5", lambda pw, s, c, x: rmisc.django_salted("md5", pw, s), salts=sizes_str(0, 16, chars="0123456789abcdefXYZ")))
    F.append(Fmt("django_salted_sha1", lambda pw, s, c, x: rmisc.django_salted("sha1", pw, s), salts=sizes_str(0, 16, chars="0123456789abcdefXYZ")))
    F.append(Fmt("django_pbkdf2_sha1", lambda pw, s, c, x: "pbkdf2_sha1$%d$%s$%s" % (c, s, base64.b64encode(pbkdf2("sha1", pw, s.encode(), c, 20)).decode()), salts=sizes_str(1, 16, chars="0123456789abcdefXYZ"), costs=lambda tier: [1, 2, 3, 1000]))
    F.append(Fmt("django_pbkdf2_sha256", lambda pw, s, c, x: "pbkdf2_sha256$%d$%s$%s" % (c, s, base64.b64encode(pbkdf2("sha256", pw, s.encode(), c, 32)).decode()), salts=sizes_str(1, 16, chars="0123456789abcdefXYZ"), costs=lambda tier: [1, 2, 3, 1000]))
    F.append(Fmt("django_des_crypt", lambda pw, s, c, x: "crypt$%s$%s" % (s, rd.des_crypt(pw, s[:2])), salts=sizes_str(2, 6)))
    return F


NO_ALGORITHM = ["plaintext", "ldap_plaintext", "roundup_plaintext", "unix_disabled", "django_disabled"]


def run_format(fmt, tier, rng, groups, skipped, crypt_ok):
    from passlib import hash as H

    try:
        h = getattr(H, fmt.handler)
    except Exception as err:  # noqa: BLE001
        skipped.append(f"{fmt.name}: handler not loadable: {type(err).__name__}: {err}")
        return
    use_os = fmt.osc is not None and crypt_ok.get(fmt.name)
    cases = plan(fmt, tier, rng)
    for be in available_backends(h, skipped):
        if be is not None:
            h.set_backend(be)
        sfx = "" if be is None else ":" + be
        g = TGroup("ref:" + fmt.name + sfx, fmt.name, "%spassword lengths %s%s x salts (every size) x costs; hash(pw)==reference and verify(pw, reference)" % ("backend %s; " % be if be else "", fmt.lengths or LENGTHS, "" if tier == "quick" or fmt.lengths else "+4096"))
        for pw, salt, cost, ctx in cases:
            pwb = as_bytes(pw)
            try:
                want = fmt.ref(pw if fmt.pw == "text" else pwb, salt, cost, ctx)
            except Exception as err:  # noqa: BLE001 -- a crash of the reference is a harness problem, not a verdict
                raise RuntimeError(f"reference for {fmt.name} crashed: {err!r} on {wit(fmt, pw, salt, cost, ctx)}") from err
            kw = fmt.using(salt, cost)
            g.case((fmt.name, pwb, repr(salt), repr(cost), repr(sorted(ctx.items()))))
            want_hash = want
            if fmt.hash_cost and fmt.hash_cost(cost) != cost:
                want_hash = fmt.ref(pw if fmt.pw == "text" else pwb, salt, fmt.hash_cost(cost), ctx)
            if fmt.hash_ok is None or fmt.hash_ok(salt, cost):
                o = outcome(lambda: (h.using(**kw) if kw else h).hash(pw, **ctx))
                if o[0] != "ok":
                    g.fail(f"hash-exc:{fmt.name}{sfx}:{o[1]}", "hash() raised on an admissible input", wit(fmt, pw, salt, cost, ctx, backend=be, outcome=list(o)))
                else:
                    g.check(o[1] == want_hash, f"hash:{fmt.name}{sfx}", "hash differs from the independent implementation of the specification", wit(fmt, pw, salt, cost, ctx, backend=be, got=o[1], want=want_hash))
            o = outcome(h.verify, pw, want, **ctx)
            g.check(o == ("ok", True), f"verify:{fmt.name}{sfx}{fmt.tag(salt, cost)}", "string produced by the independent implementation does not verify", wit(fmt, pw, salt, cost, ctx, backend=be, string=want, outcome=list(o)))
            if use_os:
                setting = fmt.osc(salt, cost)
                if setting is None or b"\0" in pwb:
                    continue
                os_hash = oscrypt.crypt(pwb, setting)
                if os_hash is None:
                    continue
                g.check(os_hash == want, f"oscrypt-vs-ref:{fmt.name}", "crypt(3) and the reference disagree (harness oracle conflict)", wit(fmt, pw, salt, cost, ctx, os=os_hash, ref=want))
                o = outcome(h.verify, pw, os_hash, **ctx)
                g.check(o == ("ok", True), f"verify-oscrypt:{fmt.name}{sfx}{fmt.tag(salt, cost)}", "string produced by crypt(3) does not verify", wit(fmt, pw, salt, cost, ctx, backend=be, string=os_hash, outcome=list(o)))
        groups.append(g.done())
    restore_backend(h)


def available_backends(h, skipped):
    """[None] for single-implementation handlers, else every backend this host can load (each is tested)"""
    names = getattr(h, "backends", None)
    if not names or not hasattr(h, "set_backend"):
        return [None]
    out = []
    for b in names:
        o = outcome(h.has_backend, b)
        if o == ("ok", True):
            out.append(b)
        else:
            skipped.append(f"{h.name}: backend {b} not available on this host")
    if not out:
        skipped.append(f"{h.name}: no backend at all")
    return out


def restore_backend(h):
    if getattr(h, "backends", None) and hasattr(h, "set_backend"):
        try:
            h.set_backend("default")
        except Exception:  # noqa: BLE001
            pass


# ---------------------------------------------------------------------------------------------
def bcrypt_groups(tier, rng, groups, skipped, crypt_ok):
    from passlib import hash as H

    try:
        import bcrypt as _bcrypt
    except Exception as err:  # noqa: BLE001
        _bcrypt = None
        skipped.append(f"bcrypt package oracle unavailable: {err}")
    has_os = crypt_ok.get("bcrypt")
    if not _bcrypt and not has_os:
        skipped.append("bcrypt, bcrypt_sha256, django_bcrypt*, ldap_bcrypt: no independent oracle on this host")
        return
    try:
        H.bcrypt.get_backend()
    except Exception as err:  # noqa: BLE001
        skipped.append(f"bcrypt: passlib has no backend: {err}")
        return

    def oracle(pwb, ident, cost, salt):
        """(string, source) from the bcrypt package (<=72 bytes) and crypt(3) (any length)"""
        cfg = "$%s$%02d$%s" % (ident, cost, salt)
        res = []
        if _bcrypt and len(pwb) <= 72:
            try:
                res.append((_bcrypt.hashpw(pwb, cfg.encode()).decode(), "bcrypt-package"))
            except Exception:  # noqa: BLE001
                pass
        if has_os and (ident != "2a" or max(pwb, default=0) < 0x80):  # see mkpw below
            r = oscrypt.crypt(pwb, cfg)
            if r:
                res.append((r, "crypt(3)"))
        return res

    def mkpw(n, ident, idx):
        # crypt_blowfish's $2a$ deliberately deviates for some 8-bit passwords (sign-extension countermeasure):
        # 7-bit passwords wherever crypt(3) is the only oracle or is the backend under test
        if ident == "2a" and (n > 72 or idx % 2):
            return bytes(rng.randrange(1, 128) for _ in range(n))
        if idx % 4 == 0:
            return utf8_pw(rng, n)  # the os_crypt backend only takes UTF-8 passwords
        return pw_bytes(rng, n, idx % 3)

    lengths = LENGTHS + ([] if tier == "quick" else list(range(66, 80)) + [4096])
    idx = 0
    cases = []
    for n in lengths:
        for ident in ("2a", "2b", "2y"):
            for cost in (4,) if tier == "quick" and n not in (0, 8, 72, 73) else (4, 5, 6):
                idx += 1
                cases.append((mkpw(n, ident, idx), ident, cost, bcrypt_salt(rng)))
    for be in available_backends(H.bcrypt, skipped):
        H.bcrypt.set_backend(be)
        g = TGroup("ref:bcrypt:" + be, "bcrypt", "backend %s; idents 2a/2b/2y x cost 4..6 x password lengths %s x random salts; bcrypt package (<=72 bytes) and crypt(3)%s" % (be, LENGTHS, " [builtin: cost 4, every third case]" if be == "builtin" and tier == "quick" else ""))
        for i, (pw, ident, cost, salt) in enumerate(cases):
            n = len(pw)
            if be == "builtin" and (cost > 4 or (tier == "quick" and i % 3) or n > 256):
                continue
            if be == "os_crypt" and ((ident == "2a" and max(pw, default=0) >= 0x80) or not is_utf8(pw)):
                continue  # documented limits of that backend (crypt_blowfish $2a$ countermeasure; crypt() wrapper is UTF-8 only)
            refs = oracle(pw, ident, cost, salt)
            if not refs:
                continue
            g.case(("bcrypt", pw, ident, cost, salt))
            w = {"hasher": "bcrypt", "backend": be, "secret": {"bytes_hex": pw.hex()}, "ident": ident, "rounds": cost, "salt": salt}
            if len({r for r, _ in refs}) > 1:
                g.fail("oracle-conflict:bcrypt", "bcrypt package and crypt(3) disagree", dict(w, refs=refs))
                continue
            want = refs[0][0]
            over = ":over72" if n > 72 else ""
            o = outcome(lambda: H.bcrypt.using(salt=salt, rounds=cost, ident=ident).hash(pw))
            if o[0] != "ok":
                g.fail(f"hash-exc:bcrypt:{be}:{o[1]}{over}", "hash() raised", dict(w, outcome=list(o)))
            else:
                g.check(o[1] == want, f"hash:bcrypt:{be}{over}", "hash differs from %s" % refs[0][1], dict(w, got=o[1], want=want))
            o = outcome(H.bcrypt.verify, pw, want)
            g.check(o == ("ok", True), f"verify:bcrypt:{be}{over}", "oracle string does not verify", dict(w, string=want, outcome=list(o)))
        groups.append(g.done())
    restore_backend(H.bcrypt)

    # the legacy $2$ variant: the key is the password cycled WITHOUT the NUL terminator that $2a$ appends first, so
    # $2$(pw) == $2a$(pw cycled to >= 72 bytes) with the prefix swapped (only 72 key bytes are read)
    if _bcrypt:
        g = TGroup("ref:bcrypt:$2$", "bcrypt", "ident $2$ x password lengths 1..80 (every length) x 2 salts, cost 4: equals the bcrypt package's $2a$ digest of the password cycled to 72 bytes")
        for n in range(1, 81):
            for k in range(2):
                pw = bytes((7 * i + 3 * k + n) % 94 + 33 for i in range(n))
                salt = bcrypt_salt(rng)
                cyc = (pw * (72 // n + 1))[:72]
                want = "$2$" + _bcrypt.hashpw(cyc, f"$2a$04${salt}".encode()).decode()[4:]
                g.case(("bcrypt$2$", n, k))
                w = {"hasher": "bcrypt", "ident": "$2$", "secret": {"bytes_hex": pw.hex()}, "salt": salt, "length": n}
                o = outcome(lambda: H.bcrypt.using(salt=salt, rounds=4, ident="2").hash(pw))
                g.check(o == ("ok", want), "hash:bcrypt:$2$", "$2$ hash differs from the cycled-key definition", dict(w, got=list(o), want=want))
                o = outcome(H.bcrypt.verify, pw, want)
                g.check(o == ("ok", True), "verify:bcrypt:$2$", "a correct $2$ string does not verify", dict(w, string=want, outcome=list(o)))
        groups.append(g.done())

    # bcrypt_sha256 (passlib's own published construction, docs/lib/passlib.hash.bcrypt_sha256.rst)
    cases = []
    for n in LENGTHS + ([] if tier == "quick" else [4096]):
        for version in (2, 1):
            idx += 1
            cases.append((pw_bytes(rng, n, idx % 3) if idx % 4 else utf8_pw(rng, n), version, bcrypt_salt(rng), 4 + idx % 2, "2b" if version == 2 else ("2a", "2b")[idx % 2]))
    for be in available_backends(H.bcrypt_sha256, skipped):
        H.bcrypt_sha256.set_backend(be)
        g = TGroup("ref:bcrypt_sha256:" + be, "bcrypt_sha256", "backend %s; v=2 (HMAC-SHA256 keyed by the salt string) and v=1 (plain SHA256) x cost 4..5 x password lengths; inner bcrypt by the bcrypt package / crypt(3)" % be)
        for i, (pw, version, salt, cost, ident) in enumerate(cases):
            if be == "builtin" and (cost > 4 or (tier == "quick" and i % 3)):
                continue
            if version == 2:
                key = base64.b64encode(std_hmac.new(salt.encode(), pw, hashlib.sha256).digest())
            else:
                key = base64.b64encode(hashlib.sha256(pw).digest())
            refs = oracle(key, ident, cost, salt)
            if not refs:
                continue
            digest = refs[0][0][-31:]
            want = "$bcrypt-sha256$v=2,t=%s,r=%d$%s$%s" % (ident, cost, salt, digest) if version == 2 else "$bcrypt-sha256$%s,%d$%s$%s" % (ident, cost, salt, digest)
            g.case(("bcrypt_sha256", pw, version, cost, salt))
            w = {"hasher": "bcrypt_sha256", "backend": be, "secret": {"bytes_hex": pw.hex()}, "version": version, "ident": ident, "rounds": cost, "salt": salt}
            o = outcome(lambda: H.bcrypt_sha256.using(salt=salt, rounds=cost, ident=ident, version=version).hash(pw))
            if o[0] != "ok":
                g.fail(f"hash-exc:bcrypt_sha256:{be}:v{version}:{o[1]}", "hash() raised", dict(w, outcome=list(o)))
            else:
                g.check(o[1] == want, f"hash:bcrypt_sha256:{be}:v{version}", "hash differs from the documented construction", dict(w, got=o[1], want=want))
            o = outcome(H.bcrypt_sha256.verify, pw, want)
            g.check(o == ("ok", True), f"verify:bcrypt_sha256:{be}:v{version}", "reference string does not verify", dict(w, string=want, outcome=list(o)))
        groups.append(g.done())
    restore_backend(H.bcrypt_sha256)

    # ldap_bcrypt / django_bcrypt prefix wrappers
    g = TGroup("ref:bcrypt-wrappers", "ldap_bcrypt", "{CRYPT} and bcrypt$ prefixes around bcrypt: lengths x cost 4")
    for n in (0, 1, 8, 55, 56, 72):
        pw = utf8_pw(rng, n)  # whichever backend is the default here may be os_crypt (UTF-8 only)
        salt = bcrypt_salt(rng)
        refs = oracle(pw, "2b", 4, salt)
        if not refs:
            continue
        for name, prefix in (("ldap_bcrypt", "{CRYPT}"), ("django_bcrypt", "bcrypt$")):
            want = prefix + refs[0][0]
            g.case((name, pw, salt))
            w = {"hasher": name, "secret": {"bytes_hex": pw.hex()}, "salt": salt, "rounds": 4}
            o = outcome(lambda: getattr(H, name).using(salt=salt, rounds=4, ident="2b").hash(pw))
            g.check(o == ("ok", want), f"hash:{name}", "wrapped bcrypt differs", dict(w, outcome=list(o), want=want))
            o = outcome(getattr(H, name).verify, pw, want)
            g.check(o == ("ok", True), f"verify:{name}", "wrapped oracle string does not verify", dict(w, string=want, outcome=list(o)))
    groups.append(g.done())


def scrypt_group(tier, rng, groups, skipped, crypt_ok):
    from passlib import hash as H

    if not hasattr(hashlib, "scrypt"):
        skipped.append("scrypt: hashlib.scrypt missing on this host")
        return
    b64 = lambda d: base64.b64encode(d).decode().rstrip("=")  # noqa: E731
    g = TGroup("ref:scrypt", "scrypt", "$scrypt$ format: ln 1..6 x r {1,2,8} x p {1,2,3} x salt sizes 0..17,32,64,1024 x password lengths; hashlib.scrypt as oracle; default backend and builtin backend")
    import passlib.crypto.scrypt as ps

    backends = [None]
    if ps._has_backend("builtin"):
        backends.append("builtin")
    orig = ps.backend if hasattr(ps, "backend") else None
    salt_sizes = list(range(0, 18)) + [32, 64, 1024]
    idx = 0
    try:
        for be in backends:
            if be:
                ps._set_backend(be)
            lens = LENGTHS if be is None else [0, 1, 63, 64, 65, 129]
            for n in lens + ([4096] if tier != "quick" and be is None else []):
                for _rep in range(1 if tier == "quick" else 3):
                    pw = pw_bytes(rng, n, idx % 3)
                    salt = rbytes(rng, salt_sizes[idx % len(salt_sizes)])
                    ln = 1 + idx % (6 if be is None else 3)
                    r = (1, 2, 8)[idx % 3] if be is None else (1, 2)[idx % 2]
                    p = (1, 2, 3)[(idx // 3) % 3] if be is None else 1 + idx % 2
                    idx += 1
                    try:
                        raw = hashlib.scrypt(pw, salt=salt, n=1 << ln, r=r, p=p, dklen=32)
                    except ValueError:
                        continue
                    want = "$scrypt$ln=%d,r=%d,p=%d$%s$%s" % (ln, r, p, b64(salt), b64(raw))
                    g.case(("scrypt", be, pw, salt, ln, r, p))
                    w = {"hasher": "scrypt", "backend": be or "default", "secret": {"bytes_hex": pw.hex()}, "salt": {"bytes_hex": salt.hex()}, "rounds": ln, "block_size": r, "parallelism": p}
                    o = outcome(lambda: H.scrypt.using(salt=salt, rounds=ln, block_size=r, parallelism=p).hash(pw))
                    g.check(o == ("ok", want), f"hash:scrypt:{be or 'default'}", "hash differs from hashlib.scrypt rendered in the documented format", dict(w, outcome=list(o), want=want))
                    o = outcome(H.scrypt.verify, pw, want)
                    g.check(o == ("ok", True), f"verify:scrypt:{be or 'default'}", "oracle string does not verify", dict(w, string=want, outcome=list(o)))
    finally:
        if orig and len(backends) > 1:
            try:
                ps._set_backend(orig)
            except Exception:  # noqa: BLE001
                pass
    groups.append(g.done())

    # "$7$" variant (unix-scrypt.txt): N as one hash64 digit, r and p as 5 little-endian hash64 digits, raw salt,
    # 32-byte key in little-endian hash64; crypt(3) implements it on libxcrypt hosts and is a second oracle
    def enc7(raw):
        out = ""
        for i in range(0, len(raw), 3):
            chunk = raw[i : i + 3]
            out += rc.to64(int.from_bytes(chunk, "little"), {3: 4, 2: 3, 1: 2}[len(chunk)])
        return out

    has_os7 = bool(crypt_ok) and oscrypt.crypt(b"pleaseletmein", "$7$20..../....SodiumChloride$") == "$7$20..../....SodiumChloride$9ykG1BkoaWQQYW1LoSOdnC96Yb7nRiE0ZlUcSPOy9WD"
    if not has_os7:
        skipped.append("crypt(3) oracle for scrypt $7$: not implemented by this host's libcrypt (hashlib.scrypt + own encoding used alone)")
    g = TGroup("ref:scrypt-$7$", "scrypt", "$7$ format: ln 1..6 x r {1,2,8,33} x p {1,2,3,65} x hash64 salt sizes 0..17,32 x password lengths; hashlib.scrypt + own encoder, and crypt(3)")
    idx = 0
    for n in LENGTHS + ([4096] if tier != "quick" else []):
        pw = pw_bytes(rng, n, idx % 3)
        salt = rstr(rng, (list(range(0, 18)) + [32])[idx % 19])
        ln = 1 + idx % 6
        r = (1, 2, 8, 33)[idx % 4]
        p = (1, 2, 3, 65)[(idx // 4) % 4]
        idx += 1
        raw = hashlib.scrypt(pw, salt=salt.encode(), n=1 << ln, r=r, p=p, dklen=32)
        want = "$7$" + H64[ln] + rc.to64(r, 5) + rc.to64(p, 5) + salt + "$" + enc7(raw)
        g.case(("scrypt7", pw, salt, ln, r, p))
        w = {"hasher": "scrypt", "ident": "$7$", "secret": {"bytes_hex": pw.hex()}, "salt": salt, "rounds": ln, "block_size": r, "parallelism": p}
        o = outcome(lambda: H.scrypt.using(ident="$7$", salt=salt.encode(), rounds=ln, block_size=r, parallelism=p).hash(pw))
        g.check(o == ("ok", want), "hash:scrypt:$7$", "hash differs from the $7$ reference", dict(w, outcome=list(o), want=want))
        o = outcome(H.scrypt.verify, pw, want)
        g.check(o == ("ok", True), "verify:scrypt:$7$", "reference $7$ string does not verify", dict(w, string=want, outcome=list(o)))
        if has_os7:
            os_hash = oscrypt.crypt(pw, want[: want.rindex("$") + 1])
            if os_hash:
                g.check(os_hash == want, "oscrypt-vs-ref:scrypt:$7$", "crypt(3) and the reference disagree (harness oracle conflict)", dict(w, os=os_hash, ref=want))
    groups.append(g.done())


def django_group(tier, rng, groups, skipped):
    from passlib import hash as H

    try:
        from django.conf import settings

        if not settings.configured:
            settings.configure(PASSWORD_HASHERS=[
                "django.contrib.auth.hashers.PBKDF2PasswordHasher",
                "django.contrib.auth.hashers.PBKDF2SHA1PasswordHasher",
                "django.contrib.auth.hashers.BCryptSHA256PasswordHasher",
                "django.contrib.auth.hashers.BCryptPasswordHasher",
                "django.contrib.auth.hashers.MD5PasswordHasher",
            ])
        import django.contrib.auth.hashers as dh
    except Exception as err:  # noqa: BLE001
        skipped.append(f"django oracle unavailable: {type(err).__name__}: {err}")
        return
    g = TGroup("django-oracle", "django_pbkdf2_sha256", "Django's own hashers (pbkdf2_sha256, pbkdf2_sha1, md5, bcrypt, bcrypt_sha256): encode() vs passlib hash, and each side verifies the other's string")
    table = [
        ("django_pbkdf2_sha256", "PBKDF2PasswordHasher", "pbkdf2"),
        ("django_pbkdf2_sha1", "PBKDF2SHA1PasswordHasher", "pbkdf2"),
        ("django_salted_md5", "MD5PasswordHasher", "salted"),
        ("django_salted_sha1", "SHA1PasswordHasher", "salted"),
        ("django_bcrypt", "BCryptPasswordHasher", "bcrypt"),
        ("django_bcrypt_sha256", "BCryptSHA256PasswordHasher", "bcrypt"),
    ]
    for name, cls, kind in table:
        if not hasattr(dh, cls):
            skipped.append(f"{name}: Django {__import__('django').__version__} no longer ships {cls} (own reference used instead where the algorithm is trivial)")
            continue
        try:
            ph = getattr(H, name)
            if kind == "bcrypt":
                ph.get_backend()
            dj = getattr(dh, cls)()
        except Exception as err:  # noqa: BLE001
            skipped.append(f"{name}: {type(err).__name__}: {err}")
            continue
        idx = 0
        for n in LENGTHS if kind != "bcrypt" else [0, 1, 8, 55, 56, 63, 64, 65, 72] + ([73, 128, 256] if name == "django_bcrypt_sha256" else []):
            # Django takes str or bytes; text passwords here so both sides see the same UTF-8 bytes
            pw = pw_text(rng, n, "abcXYZ019 !~\u00e9\u65e5") if idx % 2 else pw_bytes(rng, n, idx % 3)
            idx += 1
            if kind == "pbkdf2":
                salt = rstr(rng, 1 + idx % 16, "0123456789abcdefXYZ")
                rounds = (1, 2, 3, 1000)[idx % 4]
                o_dj = outcome(dj.encode, pw, salt, rounds)
                kw = {"salt": salt, "rounds": rounds}
            elif kind == "salted":
                salt = rstr(rng, 1 + idx % 16, "0123456789abcdefXYZ")
                o_dj = outcome(dj.encode, pw, salt)
                kw = {"salt": salt}
            else:
                s22 = bcrypt_salt(rng)
                o_dj = outcome(dj.encode, pw, ("$2b$04$" + s22).encode())
                kw = {"salt": s22, "rounds": 4, "ident": "2b"}
            if o_dj[0] != "ok":
                continue  # Django refuses this input; nothing to compare
            want = o_dj[1]
            g.case((name, as_bytes(pw), repr(kw)))
            w = {"hasher": name, "secret": pw if isinstance(pw, str) else {"bytes_hex": pw.hex()}, "using": {k: v for k, v in kw.items()}}
            o = outcome(lambda: ph.using(**kw).hash(pw))
            g.check(o == ("ok", want), f"django-hash:{name}", "passlib's hash differs from Django's encode()", dict(w, outcome=list(o), want=want))
            o = outcome(ph.verify, pw, want)
            g.check(o == ("ok", True), f"django-verify:{name}", "string made by Django does not verify under passlib", dict(w, string=want, outcome=list(o)))
            if o[0] == "ok" and isinstance(pw, str):
                o2 = outcome(dj.verify, pw, ph.using(**kw).hash(pw))
                g.check(o2 == ("ok", True), f"django-accepts:{name}", "string made by passlib does not verify under Django", dict(w, outcome=list(o2)))
    groups.append(g.done())


def ldap_crypt_group(tier, rng, groups, skipped, crypt_ok):
    from passlib import hash as H

    g = TGroup("ref:ldap-crypt-wrappers", "ldap_md5_crypt", "{CRYPT} prefix around des/bsdi/md5/sha1/sha256/sha512 crypt: password lengths 0,1,8,9,64,129 x one salt/cost each")
    table = [
        ("ldap_des_crypt", lambda pw, rng: ({"salt": "ab"}, rd.des_crypt(pw, "ab"))),
        ("ldap_bsdi_crypt", lambda pw, rng: ({"salt": "abcd", "rounds": 5}, rd.bsdi_crypt(pw, "abcd", 5))),
        ("ldap_md5_crypt", lambda pw, rng: ({"salt": "abcdefgh"}, rc.md5_crypt(pw, "abcdefgh"))),
        ("ldap_sha1_crypt", lambda pw, rng: ({"salt": "abcdefgh", "rounds": 3}, rc.sha1_crypt(pw, "abcdefgh", 3))),
        ("ldap_sha256_crypt", lambda pw, rng: ({"salt": "abcdefghijklmnop", "rounds": 1001}, rc.sha256_crypt(pw, "abcdefghijklmnop", 1001))),
        ("ldap_sha512_crypt", lambda pw, rng: ({"salt": "abcdefghijklmnop", "rounds": 1043}, rc.sha512_crypt(pw, "abcdefghijklmnop", 1043))),
    ]
    for name, fn in table:
        try:
            h = getattr(H, name)
        except Exception as err:  # noqa: BLE001
            skipped.append(f"{name}: {err}")
            continue
        for n in (0, 1, 8, 9, 64, 129):
            pw = pw_bytes(rng, n, n % 3)
            kw, inner = fn(pw, rng)
            want = "{CRYPT}" + inner
            g.case((name, pw))
            w = {"hasher": name, "secret": {"bytes_hex": pw.hex()}, "using": kw}
            o = outcome(lambda: h.using(**kw).hash(pw))
            g.check(o == ("ok", want), f"hash:{name}", "wrapped hash differs from {CRYPT}+reference", dict(w, outcome=list(o), want=want))
            o = outcome(h.verify, pw, want)
            g.check(o == ("ok", True), f"verify:{name}", "{CRYPT}+reference does not verify", dict(w, string=want, outcome=list(o)))
    groups.append(g.done())


def libpass_group(tier, rng, groups, skipped, crypt_ok):
    """the fork's new-style hashers (libpass.hashers): same formats, separate code"""
    try:
        from libpass.hashers.sha_crypt import SHA256Hasher, SHA512Hasher
    except Exception as err:  # noqa: BLE001
        skipped.append(f"libpass.hashers: not importable ({type(err).__name__}: {err})")
        return
    g = TGroup("ref:libpass-sha-crypt", "libpass.hashers.sha_crypt", "SHA256Hasher/SHA512Hasher: rounds 1000..1042(+1083..1085,2048,5000) x salt sizes 0..16 x password lengths; vs SHA-crypt.txt reference and crypt(3)")
    rounds_list = SHA_ROUNDS_Q if tier == "quick" else SHA_ROUNDS_T
    idx = 0
    for cls, ref, osname in ((SHA256Hasher, rc.sha256_crypt, "sha256_crypt"), (SHA512Hasher, rc.sha512_crypt, "sha512_crypt")):
        cases = [(LENGTHS[i % len(LENGTHS)], r) for i, r in enumerate(rounds_list)] + [(n, rounds_list[i % len(rounds_list)]) for i, n in enumerate(LENGTHS + ([] if tier == "quick" else [4096]))]
        for n, rounds in cases:
            pw = pw_bytes(rng, n, idx % 3)
            salt = rstr(rng, idx % 17)
            idx += 1
            want = ref(pw, salt, rounds)
            alt = ref(pw, salt, rounds, explicit=True)
            name = cls.__name__
            g.case((name, pw, salt, rounds))
            w = {"hasher": "libpass.hashers.sha_crypt." + name, "rounds": rounds, "secret": {"bytes_hex": pw.hex()}, "salt": salt}
            o = outcome(lambda: cls(rounds=rounds).hash(pw, salt=salt))
            if o[0] != "ok":
                g.fail(f"hash-exc:libpass.{name}:{o[1]}", "hash() raised", dict(w, outcome=list(o)))
            else:
                g.check(o[1] in (want, alt), f"hash:libpass.{name}", "hash differs from the SHA-crypt reference", dict(w, got=o[1], want=want))
            for string in {want, alt}:
                o = outcome(cls(rounds=rounds).verify, string, pw)
                g.check(o == ("ok", True), f"verify:libpass.{name}" + ("" if salt else ":empty-salt"), "reference string does not verify", dict(w, string=string, outcome=list(o)))
            if crypt_ok.get(osname) and idx % 4 == 0:
                os_hash = oscrypt.crypt(pw, want[: want.rindex("$") + 1])
                if os_hash:
                    o = outcome(cls(rounds=rounds).verify, os_hash, pw)
                    g.check(o == ("ok", True), f"verify-oscrypt:libpass.{name}" + ("" if salt else ":empty-salt"), "crypt(3) string does not verify", dict(w, string=os_hash, outcome=list(o)))
    groups.append(g.done())

    try:
        from libpass.hashers.pbkdf2 import PBKDF2SHA256Handler, PBKDF2SHA512Handler
    except Exception as err:  # noqa: BLE001
        skipped.append(f"libpass.hashers.pbkdf2: not importable ({type(err).__name__}: {err})")
    else:
        g = TGroup("ref:libpass-pbkdf2", "libpass.hashers.pbkdf2", "PBKDF2SHA256Handler/PBKDF2SHA512Handler: rounds {1,2,3,42,1000} x salt sizes 0..17,32,64,1024 x password lengths; vs RFC 2898 reference")
        sizes = list(range(0, 18)) + [32, 64, 1024]
        for cls, alg in ((PBKDF2SHA256Handler, "sha256"), (PBKDF2SHA512Handler, "sha512")):
            name = cls.__name__
            cases = [(LENGTHS[i % len(LENGTHS)], sz) for i, sz in enumerate(sizes)] + [(n, sizes[(i * 5 + 1) % len(sizes)]) for i, n in enumerate(LENGTHS)]
            for n, sz in cases:
                pw = pw_bytes(rng, n, idx % 3)
                salt = rbytes(rng, sz)
                rounds = (1, 2, 3, 42, 1000)[idx % 5]
                idx += 1
                want = rp.pbkdf2_digest(alg, pw, salt, rounds)
                g.case((name, pw, salt, rounds))
                w = {"hasher": "libpass.hashers.pbkdf2." + name, "rounds": rounds, "secret": {"bytes_hex": pw.hex()}, "salt": {"bytes_hex": salt.hex()}}
                tag = ":empty-salt" if sz == 0 else ""
                if sz:  # salt=b"" means "generate one" in this API
                    o = outcome(lambda: cls(rounds=rounds).hash(pw, salt=salt))
                    g.check(o == ("ok", want), f"hash:libpass.{name}", "hash differs from the PBKDF2 reference", dict(w, outcome=list(o), want=want))
                o = outcome(cls(rounds=rounds).verify, want, pw)
                g.check(o == ("ok", True), f"verify:libpass.{name}{tag}", "reference string does not verify", dict(w, string=want, outcome=list(o)))
        groups.append(g.done())

    try:
        from libpass.hashers.bcrypt import BcryptHasher, BcryptSHA256Hasher
    except Exception as err:  # noqa: BLE001
        skipped.append(f"libpass.hashers.bcrypt: not importable ({type(err).__name__}: {err})")
        return
    if not crypt_ok.get("bcrypt"):
        skipped.append("libpass.hashers.bcrypt: it is a thin wrapper over the bcrypt package; the only independent oracle is crypt(3), which lacks bcrypt here")
        return
    g = TGroup("ref:libpass-bcrypt", "libpass.hashers.bcrypt", "BcryptHasher (2a/2b) and BcryptSHA256Hasher x cost 4..5 x password lengths <= 72 (any length for bcrypt-sha256); crypt(3) as oracle")
    for n in [x for x in LENGTHS if x <= 72]:
        for prefix in ("2a", "2b"):
            pw = pw_bytes(rng, n, idx % 3)
            idx += 1
            cost = 4 + idx % 2
            s22 = bcrypt_salt(rng)
            cfg = "$%s$%02d$%s" % (prefix, cost, s22)
            want = oscrypt.crypt(pw, cfg)
            if not want:
                continue
            g.case(("BcryptHasher", pw, cfg))
            w = {"hasher": "libpass.hashers.bcrypt.BcryptHasher", "secret": {"bytes_hex": pw.hex()}, "salt": cfg}
            o = outcome(lambda: BcryptHasher(rounds=cost, prefix=prefix).hash(pw, salt=cfg.encode()))
            g.check(o == ("ok", want), "hash:libpass.BcryptHasher", "hash differs from crypt(3)", dict(w, outcome=list(o), want=want))
            o = outcome(BcryptHasher(rounds=cost, prefix=prefix).verify, want, pw)
            g.check(o == ("ok", True), "verify:libpass.BcryptHasher", "crypt(3) string does not verify", dict(w, string=want, outcome=list(o)))
    for n in LENGTHS:
        pw = pw_bytes(rng, n, idx % 3)
        idx += 1
        cost = 4 + idx % 2
        s22 = bcrypt_salt(rng)
        key = base64.b64encode(std_hmac.new(s22.encode(), pw, hashlib.sha256).digest())
        inner = oscrypt.crypt(key, "$2b$%02d$%s" % (cost, s22))
        if not inner:
            continue
        want = "$bcrypt-sha256$v=2,t=2b,r=%d$%s$%s" % (cost, s22, inner[-31:])
        g.case(("BcryptSHA256Hasher", pw, s22, cost))
        w = {"hasher": "libpass.hashers.bcrypt.BcryptSHA256Hasher", "secret": {"bytes_hex": pw.hex()}, "salt": s22, "rounds": cost}
        o = outcome(lambda: BcryptSHA256Hasher(rounds=cost).hash(pw, salt=("$2b$%02d$%s" % (cost, s22)).encode()))
        g.check(o == ("ok", want), "hash:libpass.BcryptSHA256Hasher", "hash differs from the documented construction", dict(w, outcome=list(o), want=want))
        o = outcome(BcryptSHA256Hasher(rounds=cost).verify, want, pw)
        g.check(o == ("ok", True), "verify:libpass.BcryptSHA256Hasher", "reference string does not verify", dict(w, string=want, outcome=list(o)))
    groups.append(g.done())


def build(tier, rng):
    import passlib

    groups, skipped = [], []
    crypt_ok = oscrypt.supported() if oscrypt.available() else {}
    for name, ok in sorted(crypt_ok.items()):
        if not ok:
            skipped.append(f"crypt(3) oracle for {name}: not implemented by this host's libcrypt")
    if not crypt_ok:
        skipped.append("crypt(3) oracle: libcrypt not loadable")
    covered = set()
    for fmt in formats():
        run_format(fmt, tier, rng, groups, skipped, crypt_ok)
        covered.add(fmt.name)
    bcrypt_groups(tier, rng, groups, skipped, crypt_ok)
    scrypt_group(tier, rng, groups, skipped, crypt_ok)
    django_group(tier, rng, groups, skipped)
    ldap_crypt_group(tier, rng, groups, skipped, crypt_ok)
    libpass_group(tier, rng, groups, skipped, crypt_ok)
    covered |= {"bcrypt", "bcrypt_sha256", "ldap_bcrypt", "django_bcrypt", "django_bcrypt_sha256", "scrypt", "ldap_des_crypt", "ldap_bsdi_crypt", "ldap_md5_crypt", "ldap_sha1_crypt", "ldap_sha256_crypt", "ldap_sha512_crypt"}
    from passlib import registry

    for name in registry.list_crypt_handlers():
        if name in covered:
            continue
        if name in NO_ALGORITHM:
            skipped.append(f"{name}: no published algorithm to compare (plaintext / marker scheme)")
        elif name in ("argon2", "django_argon2"):
            try:
                registry.get_crypt_handler(name).get_backend()
                skipped.append(f"{name}: no independent Argon2 implementation written for this harness")
            except Exception as err:  # noqa: BLE001
                skipped.append(f"{name}: no argon2 backend on this host ({type(err).__name__}) and no independent Argon2 reference written")
        else:
            skipped.append(f"{name}: no independent reference written")
    host = {"crypt3": crypt_ok, "passlib": getattr(passlib, "__version__", "?"), "python": sys.version.split()[0]}
    return groups, skipped, host


if __name__ == "__main__":
    main(build)
