"""pyvc.runner -- per-property driver: proofs, finite checks, bounded stand-ins, replay, evidence."""

from __future__ import annotations

import importlib
import json
import os
import re
import subprocess
import sys
import time
import traceback

import z3

from . import extract
from .contract import Contract, Lemma
from .discharge import solve_all
from .symexec import Explorer, Obligation

VERIF = os.path.dirname(os.path.dirname(os.path.abspath(__file__)))
VENV_PY = os.environ.get("PYVC_VENV_PY", "/venv/bin/python")

TRUSTED_BASE = [
    "pyvc VC generator (Python-subset semantics of DESIGN.md 2.2, loop rules 2.4) -- cross-checked by seeded-break self-test",
    "z3 5.1.0 / cvc5 1.0.3 answers taken at face value (unsat from either suffices)",
    "CPython built-ins and stdlib models in pyvc/pybuiltins.py and contracts/trusted.py",
    "sequential execution; warnings not escalated to errors",
]


def _explore_one(arg):
    """worker: explore one contract, return picklable results"""
    pid, index = arg
    sys.path.insert(0, VERIF)
    mod = importlib.import_module(f"contracts.{pid.lower()}")
    c = getattr(mod, "CONTRACTS")[index]
    registry = {}
    for r in getattr(mod, "REGISTRY", []):  # callees called by contract (modular), deliberately listed
        registry.setdefault(r.target, r)
    out = {}
    try:
        info = extract.find(c.target)
    except extract.ExtractError as err:
        return {"extract_error": str(err)}
    try:
        x = Explorer(c, registry, max_paths=c.max_paths).explore()
    except Exception as err:  # engine exception: undecided, never a violation
        return {"engine_error": f"{type(err).__name__}: {err}", "trace": traceback.format_exc()[-800:]}
    out["fdesc"] = info.describe()
    out["stats"] = x.stats
    out["exits"] = x.exits
    out["unsupported"] = x.unsupported
    out["obligations"] = [(ob.kind, ob.descr, ob.lineno, ob.smt2()) for ob in x.obligations]
    out["trivial"] = list(x.trivial)
    # must-fail canaries: the path conditions of up to 6 obligations spread over the run; the contract is vacuous
    # only if NONE of them is satisfiable (single paths may be infeasible: pruning treats 'unknown' as feasible)
    out["canary"] = []
    if x.obligations:
        step = max(1, len(x.obligations) // 6)
        for ob in x.obligations[::step][:6]:
            out["canary"].append(Obligation("canary", "canary", "path condition satisfiable", ob.assumptions, z3.BoolVal(False)).smt2())
    return out


def _explore_child(arg, conn):
    try:
        conn.send(_explore_one(arg))
    except Exception as err:  # pragma: no cover
        conn.send({"engine_error": f"{type(err).__name__}: {err}", "trace": traceback.format_exc()[-800:]})
    finally:
        conn.close()


def _explore_parallel(pid, indexes):
    """one process per contract, at most PYVC_WORKERS at a time, each under a hard wall-clock limit (a stuck
    solver call inside a worker cannot hang the check: the worker is killed and the contract is undecided)"""
    import multiprocessing as mp

    if not indexes:
        return []
    sys.path.insert(0, VERIF)
    mod = importlib.import_module(f"contracts.{pid.lower()}")
    allc = getattr(mod, "CONTRACTS")
    workers = int(os.environ.get("PYVC_WORKERS", "14"))
    results = [None] * len(indexes)
    pending = list(enumerate(indexes))
    running = {}  # slot -> (proc, conn, t0, limit)
    ctx = mp.get_context("fork")
    while pending or running:
        while pending and len(running) < workers:
            slot, index = pending.pop(0)
            parent, child = ctx.Pipe(duplex=False)
            proc = ctx.Process(target=_explore_child, args=((pid, index), child), daemon=True)
            proc.start()
            child.close()
            budget = (getattr(allc[index], "time_budget", None) or 120)
            running[slot] = (proc, parent, time.time(), budget * 2 + 60)
        done = []
        for slot, (proc, conn, t0, limit) in running.items():
            if conn.poll(0.01):
                try:
                    results[slot] = conn.recv()
                except EOFError:
                    results[slot] = {"engine_error": "worker died without a result"}
                proc.join(5)
                done.append(slot)
            elif not proc.is_alive():
                results[slot] = {"engine_error": f"worker exited with code {proc.exitcode}"}
                done.append(slot)
            elif time.time() - t0 > limit:
                proc.terminate()
                proc.join(5)
                if proc.is_alive():
                    proc.kill()
                results[slot] = {"unsupported": f"exploration killed after {int(limit)}s (hard wall-clock limit)", "fdesc": {}, "stats": {"paths": 0}, "exits": {}, "obligations": [], "trivial": []}
                done.append(slot)
        for slot in done:
            running.pop(slot)
        if not done:
            time.sleep(0.05)
    return results


class Finite:
    """a complete finite check of the real (extracted) code: ``run() -> dict(cases=int, failures=[...], samples=[...])``;
    counted as one obligation per named sub-check, back end 'finite-exec'."""

    def __init__(self, fid, run, descr="", prop=None):
        self.id = fid
        self.run = run
        self.descr = descr
        self.prop = prop


class Bounded:
    """bounded stand-in: a harness run under /venv/bin/python against the real library"""

    def __init__(self, bid, script, args=(), descr="", timeout=900):
        self.id = bid
        self.script = script
        self.args = list(args)
        self.descr = descr
        self.timeout = timeout


def load_known(pid):
    path = os.path.join(VERIF, "known_findings.json")
    try:
        data = json.load(open(path))
    except OSError:
        return []
    return [f for f in data.get("findings", []) if f.get("property") == pid and f.get("status", "open") == "open"]


def short(s, n=300):
    s = str(s)
    return s if len(s) <= n else s[: n - 3] + "..."


def _smt_sym(name):
    return name if re.fullmatch(r"[A-Za-z_][A-Za-z0-9_.]*", name) else "|" + name + "|"


def _smt_lit(v):
    if isinstance(v, bool):
        return "true" if v else "false"
    if isinstance(v, int):
        return str(v) if v >= 0 else f"(- {-v})"
    if isinstance(v, bytes):
        v = v.decode("latin-1")
    return '"' + "".join(ch if 32 <= ord(ch) < 127 and ch not in '"\\' else ('""' if ch == '"' else "\\u{%x}" % ord(ch)) for ch in v) + '"'


def _spec_replay(pid, c, reason, out):
    """A contract whose VCs could not be generated on the current source (code left the subset the contract anchors,
    e.g. a loop under invariant was rewritten) is UNDECIDED.  When it carries a replay hook -- its postcondition as an
    executable specification plus an input search on the REAL code -- the hook is still run: a failing input is a genuine
    violation (replayed, concrete); no failing input leaves the contract undecided.  Never counted as proved."""
    if not getattr(c, "replay", None):
        return
    name = f"{pid}/{c.target}/{c.id}/spec-replay#0"
    try:
        res = c.replay({}, {"name": name})
    except Exception as err:
        res = {"reproduced": False, "error": f"{type(err).__name__}: {err}"}
    if res.get("reproduced"):
        out.append({"name": name, "backend": "replay search of the contract's executable specification on the real code (no VC generated)", "s": 0.0,
                    "descr": f"postcondition of {c.id} fails on a concrete input; VC generation gave up ({reason})", "line": None, "model": {},
                    "kind": "spec-replay", "contract": c, "replayed": res})


def run_property(pid, tier="quick", seed=0, only=None, verbose=False):
    t0 = time.time()
    sys.path.insert(0, VERIF)
    mod = importlib.import_module(f"contracts.{pid.lower()}")
    contracts = [c for c in getattr(mod, "CONTRACTS", []) if (only is None or re.search(only, c.id)) and (tier == "thorough" or getattr(c, "tier", "quick") == "quick" or only)]
    lemmas = [l for l in getattr(mod, "LEMMAS", []) if only is None or re.search(only, l.id)]
    finites = [f for f in getattr(mod, "FINITE", []) if only is None or re.search(only, f.id)]
    bounded = [b for b in getattr(mod, "BOUNDED", []) if only is None or re.search(only, b.id)]
    if os.environ.get("PYVC_NO_BOUNDED"):
        bounded = []
    registry = {}
    for c in getattr(mod, "REGISTRY", []):  # callees that are called by contract (modular), deliberately listed
        registry.setdefault(c.target, c)
    timeout_ms = int(os.environ.get("PYVC_TIMEOUT_MS", "20000" if tier == "quick" else "60000"))

    jobs = []
    meta = {}
    functions = []
    undecided = []
    errors = []
    canaries = []
    trivial_count = 0
    late_refuted = []

    # ---- proofs (contracts explored in parallel worker processes; z3 terms do not cross processes, so the
    #      workers return SMT-LIB text) -------------------------------------------------------------
    all_contracts = getattr(mod, "CONTRACTS", [])
    idx = [all_contracts.index(c) for c in contracts]
    t_explore = time.time()
    explored = _explore_parallel(pid, idx)
    t_explore = time.time() - t_explore
    if os.environ.get("PYVC_TRACE"):
        print(f"TRACE explored {len(contracts)} contracts in {t_explore:.1f}s", file=sys.stderr, flush=True)
    for c, ex in zip(contracts, explored):
        if ex.get("extract_error"):
            undecided.append({"contract": c.id, "reason": f"extract: {ex['extract_error']}"})
            continue
        if ex.get("engine_error"):
            undecided.append({"contract": c.id, "reason": f"engine exception {ex['engine_error']}", "trace": ex.get("trace")})
            _spec_replay(pid, c, f"engine exception {ex['engine_error']}", late_refuted)
            continue
        fdesc = dict(ex["fdesc"])
        fdesc.update({"contract": c.id, "paths": ex["stats"]["paths"], "exits": ex["exits"], "ints": c.ints})
        functions.append(fdesc)
        if ex.get("unsupported"):
            undecided.append({"contract": c.id, "reason": f"unsupported: {ex['unsupported']}"})
            _spec_replay(pid, c, f"unsupported: {ex['unsupported']}", late_refuted)
            continue
        if len(ex["obligations"]) + len(ex["trivial"]) == 0:
            errors.append(f"{c.id}: zero obligations generated (vacuous)")
            continue
        trivial_count += len(ex["trivial"])
        counts = {}
        for kind, descr, lineno, smt2 in ex["obligations"]:
            k = counts.get(kind, 0)
            counts[kind] = k + 1
            name = f"{pid}/{c.target}/{c.id}/{kind}#{k}"
            meta[name] = {"contract": c, "descr": descr, "line": lineno, "kind": kind}
            jobs.append((name, smt2, max(timeout_ms, getattr(c, "timeout_ms", None) or 0), getattr(c, "prefer", None)))
        for k, (kind, descr, lineno) in enumerate(ex["trivial"]):
            name = f"{pid}/{c.target}/{c.id}/{kind}#t{k}"
            meta[name] = {"contract": c, "descr": descr, "line": lineno, "kind": kind, "trivial": True}
        if c.canary and ex.get("canary"):
            group = []
            for k, smt in enumerate(ex["canary"]):
                cname = f"{pid}/{c.id}/canary#{k}"
                jobs.append((cname, smt, min(timeout_ms, 10000)))
                group.append(cname)
            canaries.append((c.id, group))

    for lem in lemmas:
        try:
            items = lem.build()
        except Exception as err:
            undecided.append({"contract": lem.id, "reason": f"lemma build {type(err).__name__}: {err}"})
            continue
        for k, (lname, assumptions, goal) in enumerate(items):
            name = f"{pid}/lemma/{lem.id}/{lname}"
            ob = Obligation(name, "lemma", lname, assumptions, goal)
            meta[name] = {"contract": lem, "ob": ob, "descr": f"{lem.descr}: {lname}", "line": None, "kind": "lemma"}
            jobs.append((name, ob.smt2(), timeout_ms))

    t_solve = time.time()
    if os.environ.get("PYVC_TRACE"):
        print(f"TRACE discharging {len(jobs)} jobs", file=sys.stderr, flush=True)
    results = solve_all(jobs)
    if os.environ.get("PYVC_TRACE"):
        print(f"TRACE discharged in {time.time() - t_solve:.1f}s", file=sys.stderr, flush=True)
    t_solve = time.time() - t_solve
    by_name = {r["name"]: r for r in results}

    # ---- unknown obligations: help the solver towards a counterexample by fixing the inputs to the contract's
    #      ``witness_inputs`` (all assumptions kept: a model found this way is a genuine model of pc /\ not goal;
    #      'unsat' under a fixed input says nothing and is ignored) ------------------------------------------
    retry = []
    for name, m in meta.items():
        if m.get("trivial") or by_name[name]["verdict"] in ("unsat", "sat"):
            continue
        wi = getattr(m["contract"], "witness_inputs", None)
        if not wi:
            continue
        smt2 = next((j[1] for j in jobs if j[0] == name), None)
        for k, w in enumerate(wi):
            fixed = "".join(f"(assert (= {_smt_sym(var)} {_smt_lit(val)}))\n" for var, val in w.items())
            pos = smt2.rfind("(check-sat)")
            retry.append((f"{name}@input{k}", smt2[:pos] + fixed + smt2[pos:], 20000))
    if retry:
        for r2 in solve_all(retry):
            base = r2["name"].rsplit("@input", 1)[0]
            if r2["verdict"] == "sat" and by_name[base]["verdict"] != "sat":
                r2 = dict(r2, name=base, backend=r2["backend"] + " (inputs fixed to a contract witness candidate)")
                r2["attempts"] = by_name[base].get("attempts", []) + r2.get("attempts", [])
                by_name[base] = r2

    # ---- obligations the solvers leave open, in a contract that carries a replay hook: run the hook's bounded search
    #      on the REAL code against the concrete spec; a failing input is a genuine violation and is reported under the
    #      first open obligation (the others stay undecided).  No failing input -> still undecided, never a violation.
    open_by_contract = {}
    for name, m in meta.items():
        if not m.get("trivial") and by_name[name]["verdict"] not in ("unsat", "sat") and isinstance(m["contract"], Contract):
            open_by_contract.setdefault(m["contract"].id, []).append(name)
    for cid, names in open_by_contract.items():
        c = meta[names[0]]["contract"]
        if getattr(c, "replay", None):
            try:
                res = c.replay({}, {"name": names[0]})
            except Exception as err:
                res = {"reproduced": False, "error": f"{type(err).__name__}: {err}"}
            if res.get("reproduced"):
                old = by_name[names[0]]
                by_name[names[0]] = {"name": names[0], "verdict": "sat", "backend": "replay search on the real code (solvers answered unknown)", "s": old.get("s", 0.0),
                                     "model": {}, "attempts": old.get("attempts", [])}

    discharged = []
    refuted = []
    solver_s = 0.0
    for name, m in meta.items():
        if m.get("trivial"):
            discharged.append({"name": name, "backend": "simplifier", "s": 0.0, "descr": m["descr"]})
            continue
        r = by_name[name]
        solver_s += r["s"]
        if r["verdict"] == "unsat":
            discharged.append({"name": name, "backend": r["backend"], "s": r["s"], "descr": m["descr"]})
        elif r["verdict"] == "sat":
            refuted.append({"name": name, "backend": r["backend"], "s": r["s"], "descr": m["descr"], "line": m["line"], "model": r.get("model") or {}, "kind": m["kind"], "contract": m["contract"]})
        else:
            undecided.append({"contract": m["contract"].id, "obligation": name, "reason": "solver unknown/timeout", "attempts": r["attempts"]})
    refuted.extend(late_refuted)
    for cid, group in canaries:
        if group and all(by_name[cn]["verdict"] == "unsat" for cn in group):
            errors.append(f"{cid}: every canary discharged -> contract is vacuous (contradictory requires/invariant)")

    # ---- finite complete checks ------------------------------------------------------------
    finite_out = []
    for f in finites:
        try:
            res = f.run()
        except Exception as err:
            undecided.append({"contract": f.id, "reason": f"finite check crashed {type(err).__name__}: {err}", "trace": traceback.format_exc()[-600:]})
            continue
        name = f"{pid}/finite/{f.id}"
        entry = {"name": name, "cases": res.get("cases", 0), "descr": f.descr, "samples": res.get("samples", [])[:3], "functions": res.get("functions", [])}
        finite_out.append(entry)
        for fn in res.get("functions", []):
            functions.append(fn)
        if res.get("cases", 0) == 0:
            errors.append(f"{f.id}: finite check ran zero cases (vacuous)")
        if res.get("failures"):
            for fail in res["failures"]:
                refuted.append({"name": name, "backend": "finite-exec", "s": 0.0, "descr": f.descr, "line": None, "model": {}, "kind": "finite", "contract": f, "concrete": fail})
        else:
            discharged.append({"name": name, "backend": "finite-exec", "s": res.get("s", 0.0), "descr": f"{f.descr} ({res.get('cases')} cases, complete)"})

    # ---- bounded stand-ins ---------------------------------------------------------------
    bounded_out = []
    bounded_failures = []
    for b in bounded:
        tb = time.time()
        if not os.path.exists(os.path.join(VERIF, b.script)):
            undecided.append({"contract": b.id, "reason": f"bounded stand-in {b.script} not present"})
            continue
        cmd = [VENV_PY, os.path.join(VERIF, b.script), "--tier", tier, "--seed", str(seed)] + b.args
        env = dict(os.environ)
        env["PYTHONPATH"] = extract.REPO + os.pathsep + VERIF
        env.setdefault("PYTHONHASHSEED", "0")
        try:
            out = subprocess.run(cmd, capture_output=True, text=True, timeout=b.timeout if tier == "quick" else b.timeout * 6, env=env, cwd=VERIF)
        except subprocess.TimeoutExpired:
            undecided.append({"contract": b.id, "reason": f"bounded harness timeout {b.timeout}s"})
            continue
        payload = None
        for line in reversed(out.stdout.strip().splitlines()):
            if line.startswith("{"):
                try:
                    payload = json.loads(line)
                    break
                except ValueError:
                    continue
        if payload is None:
            errors.append(f"bounded harness {b.id} produced no result (exit {out.returncode}): {short(out.stderr[-600:], 600)}")
            continue
        for g in payload.get("groups", []):
            g["harness"] = b.id
            g["seconds"] = g.get("seconds", round(time.time() - tb, 2))
            fails = g.pop("failures", [])
            g["failures"] = len(fails)
            bounded_out.append(g)
            for fl in fails:
                fl["group"] = g["name"]
                fl["harness"] = b.id
                bounded_failures.append(fl)
        if payload.get("skipped"):
            bounded_out.append({"name": f"{b.id}:skipped", "skipped": payload["skipped"]})
        if payload.get("host"):
            bounded_out.append({"name": f"{b.id}:host", "host": payload["host"]})

    # ---- violations, replay, known findings --------------------------------------------
    known = load_known(pid)
    lines = []
    violations = 0
    known_hits = []
    replay_dir = os.path.join(os.environ.get("PYVC_EVIDENCE_DIR") or VERIF, "replays", pid)
    os.makedirs(replay_dir, exist_ok=True)

    witness_cache = {}

    def witness_still_fails(kf):
        """a known finding only suppresses while its recorded witness still fails on the real code"""
        snippet = kf.get("witness_py")
        if not snippet:
            return True
        if kf["match"] not in witness_cache:
            env = dict(os.environ, PYTHONPATH=extract.REPO)
            try:
                out = subprocess.run([VENV_PY, "-c", snippet], capture_output=True, text=True, timeout=120, env=env)
                witness_cache[kf["match"]] = "WITNESS-FAILS" in out.stdout
            except Exception:
                witness_cache[kf["match"]] = False
        return witness_cache[kf["match"]]

    def is_known(key, text):
        for kf in known:
            if re.search(kf["match"], key) or re.search(kf["match"], text):
                return kf
        return None

    for k, r in enumerate(refuted):
        c = r["contract"]
        concrete = r.get("concrete")
        replayed = None
        if r.get("replayed") is not None:
            replayed = r["replayed"]
        elif concrete is None and isinstance(c, Contract) and getattr(c, "replay", None):
            try:
                replayed = c.replay(r["model"], r)
            except Exception as err:
                replayed = {"reproduced": False, "error": f"{type(err).__name__}: {err}"}
        if concrete is None and (replayed is None or not replayed.get("reproduced")):
            # a concrete failing input from the bounded stand-in of the same contract, if any
            toks = set()
            for src_txt in (getattr(c, "id", ""), getattr(c, "target", "").split("::")[-1]):
                toks |= {t.lower() for t in re.split(r"[^A-Za-z0-9_]+", src_txt) if len(t) >= 5}
                toks |= {t.lower().strip("_") for t in re.split(r"[^A-Za-z0-9_]+", src_txt.split(".")[-1]) if len(t.strip("_")) >= 5}
            for fl in bounded_failures:
                text_fl = " ".join(str(fl.get(k, "")) for k in ("contract", "group", "key", "what")).lower()
                if (fl.get("contract") and fl["contract"] == getattr(c, "id", None)) or any(t in text_fl for t in toks):
                    concrete = fl
                    break
        text = f"{r['name']} {r['descr']}"
        kf = is_known(r["name"], text)
        safe = re.sub(r"[^A-Za-z0-9_.#-]+", "_", r["name"])[-150:]
        path = os.path.join(replay_dir, f"{safe}.json")
        doc = {
            "property": pid,
            "obligation": r["name"],
            "kind": r["kind"],
            "descr": r["descr"],
            "function": getattr(c, "target", None),
            "line": r["line"],
            "verdict": "refuted",
            "backend": r["backend"],
            "solver_output": {"model": r["model"]},
            "replay": replayed,
            "concrete_failure": concrete,
            "rerun": f"./check {pid} --only '{getattr(c, 'id', '')}'",
        }
        with open(path, "w") as fh:
            json.dump(doc, fh, indent=1, default=str)
        found_input = bool(concrete) or bool(replayed and replayed.get("reproduced"))
        if kf and witness_still_fails(kf):
            if kf not in known_hits:
                known_hits.append(kf)
                lines.append(f"KNOWN-FINDING: property={pid} {kf['what']}")
        else:
            violations += 1
            rel = os.path.relpath(path, VERIF)
            lines.append(f"VIOLATION property={pid} replay={rel}" + ("" if found_input else " no-failing-input-found"))

    seen_keys = set()
    for fl in bounded_failures:
        key = fl.get("key") or fl.get("what", "")
        text = f"{fl.get('group')} {key} {fl.get('what', '')} {json.dumps(fl.get('witness'), default=str)}"
        kf = is_known(key, text)
        if kf:
            if kf["match"] not in seen_keys:
                seen_keys.add(kf["match"])
                if kf not in known_hits:
                    known_hits.append(kf)
                    lines.append(f"KNOWN-FINDING: property={pid} {kf['what']}")
            continue
        if key in seen_keys:
            continue
        seen_keys.add(key)
        violations += 1
        safe = re.sub(r"[^A-Za-z0-9_.#-]+", "_", f"bounded_{fl.get('group')}_{key}")[-150:]
        path = os.path.join(replay_dir, f"{safe}.json")
        with open(path, "w") as fh:
            json.dump({"property": pid, "kind": "bounded", "failure": fl, "rerun": f"./check {pid} --tier {tier}"}, fh, indent=1, default=str)
        lines.append(f"VIOLATION property={pid} replay={os.path.relpath(path, VERIF)}")

    # ---- evidence ------------------------------------------------------------------------
    n_obl = len(discharged) + len(refuted) + sum(1 for u in undecided if "obligation" in u)
    n_dis = len(discharged)
    level = getattr(mod, "LEVEL", "proof")
    all_discharged = n_obl > 0 and n_obl == n_dis
    ev_level = level if (level != "proof" or all_discharged) else "other"
    backends = {}
    for d in discharged:
        backends[d["backend"]] = backends.get(d["backend"], 0) + 1
    samples = [{"obligation": d["name"], "descr": short(d["descr"], 160), "verdict": "unsat", "backend": d["backend"], "ms": round(d["s"] * 1000, 1)} for d in discharged[:: max(1, len(discharged) // 8)][:10]]
    for g in bounded_out:
        if g.get("samples"):
            samples.append({"bounded": g["name"], "cases": g["samples"][:2]})
    evaluations = sum(g.get("cases", 0) for g in bounded_out) + sum(f["cases"] for f in finite_out)
    distinct = sum(g.get("distinct", 0) for g in bounded_out)
    coverage = {
        "obligations": n_obl,
        "discharged": n_dis,
        "checker_cmd": f"cd /verif && ./check {pid} --tier {tier}",
        "trusted_base": TRUSTED_BASE + list(getattr(mod, "TRUSTED", [])),
        "backends": backends,
        "solver_seconds": round(solver_s, 3),
        "wall_explore_s": round(t_explore, 2),
        "wall_discharge_s": round(t_solve, 2),
        "trivially_true_after_simplification": trivial_count,
        "functions_under_contract": functions,
        "refuted": [{"obligation": r["name"], "descr": short(r["descr"], 200)} for r in refuted],
        "undecided": [{k: short(v, 300) for k, v in u.items() if k != "trace"} for u in undecided],
        "finite": finite_out,
        "bounded": bounded_out,
        "evaluations": evaluations,
        "distinct_nontrivial": distinct,
        "rule": "bounded stand-ins (never counted as proved): cases per group as described in each group's 'domain'; distinct = distinct inputs whose outcome was compared against the contract",
        "samples": samples or [{"note": "no obligations"}],
        "explanation": getattr(mod, "EXPLANATION", "")
        + ("" if all_discharged else " [this run: not every obligation was discharged -- see refuted/undecided; level reported as 'other']"),
        "known_findings_reported": [kf["what"] for kf in known_hits],
    }
    evidence = {
        "property_id": pid,
        "tier": tier,
        "seed": int(seed),
        "level": ev_level,
        "coverage": coverage,
        "assumptions": list(getattr(mod, "ASSUMPTIONS", [])) + [a for c in contracts for a in c.assumptions],
        "wall_s": round(time.time() - t0, 2),
        "violations": violations,
    }
    evdir = os.environ.get("PYVC_EVIDENCE_DIR") or os.path.join(VERIF, "evidence")
    os.makedirs(evdir, exist_ok=True)
    with open(os.path.join(evdir, f"{pid}.json"), "w") as fh:
        json.dump(evidence, fh, indent=1, default=str)

    # ---- output ----------------------------------------------------------------------------
    print(f"[{pid}] tier={tier} contracts={len(contracts)} lemmas={len(lemmas)} finite={len(finites)} obligations={n_obl} discharged={n_dis} refuted={len(refuted)} undecided={len(undecided)} bounded_cases={evaluations} wall={evidence['wall_s']}s")
    for u in undecided:
        print(f"NOTE undecided: {u.get('obligation') or u.get('contract')}: {short(u['reason'], 200)}")
        if verbose and u.get("trace"):
            print(u["trace"])
    if verbose:
        for r in refuted:
            print(f"REFUTED {r['name']} :: {short(r['descr'], 160)} (line {r['line']}) model={short(r['model'], 600)}")
    for ln in lines:
        print(ln)
    if errors:
        for e in errors:
            print(f"CHECKER-ERROR: {e}")
        if violations == 0:
            return 3
    return 1 if violations else 0
