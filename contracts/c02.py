"""C02 -- every format computes the published algorithm bit for bit."""
from contracts import bigcrypt, itercrypt, md5crypt, shacrypt
from pyvc.runner import Bounded, Finite

LEVEL = "other"
EXPLANATION = (
    "Decided by comparison with independent implementations (bounded stand-in): ~85 formats, both directions, against "
    "references written from the published specifications (/verif/specs/ref_*.py), crypt(3), Django, the bcrypt package "
    "and hashlib.scrypt over the length / salt / cost grid of the property statement -- foreign code (libcrypt, OpenSSL) "
    "cannot be put under contract. Proved part (thorough tier, ~8 min): the optimised SHA-crypt routines "
    "passlib/handlers/sha2_crypt.py::_raw_sha2_crypt (sha256 and sha512 variants) and libpass/hashers/sha_crypt.py::"
    "_sha_crypt are verified from their real source, with the hash abstract, to compute Drepper's published algorithm for "
    "EVERY password, salt and round count: digests A (bit walk over len(pwd)), P (password repeated len(pwd) times, both "
    "the one-shot and the fixed-memory branch), S, and the 42-round block schedule / tail against the published "
    "recurrence C(i+1) = H((P if i odd else Ci) + (S if i%3) + (P if i%7) + (Ci if i odd else P)) by per-pair ghost "
    "lock-step. Quick tier: _raw_md5_crypt (md5-crypt and apr variants) is proved the same way against Kamp's published algorithm "
    "(digest A incl. the NUL / first-character bit walk, all 1000 rounds tied to the 23x21+17 pair schedule by 500 ghost "
    "lock-steps); bigcrypt._calc_checksum is proved to chain one crypt() segment per 8 password bytes, each salted by its "
    "predecessor's first two characters; the transposition tables of md5/sha256/sha512-crypt (both packages) are derived from "
    "the published output order and compared (finite). When the solvers answer unknown on an obligation of these contracts, the "
    "contract's replay search runs the real routine against the concrete published algorithm (hashlib)."
)
ASSUMPTIONS = [
    "hash objects: view = bytes absorbed, update appends, digest() = H(view) with a 32..64 byte digest (hashlib contract)",
    "repeat_string and encode_transposed_bytes are uninterpreted on both sides (C12 covers the encoder; tables compared separately)",
    "digest primitives, libcrypt, Django, bcrypt are trusted oracles of the bounded comparison",
]
CONTRACTS = [shacrypt.passlib_contract("C02", False), shacrypt.passlib_contract("C02", True), shacrypt.libpass_contract("C02"),
             md5crypt.contract("C02", False), md5crypt.contract("C02", True), bigcrypt.contract("C02"), bigcrypt.bsdi_key_contract("C02"), itercrypt.phpass_contract("C02"), itercrypt.sha1_crypt_contract("C02")]
from contracts import c11 as _c11  # noqa: E402

CONTRACTS += [c for c in _c11.CONTRACTS if c.id.startswith("compile_hmac") or c.id == "pbkdf1"]  # HMAC / PBKDF1 as published (shared with C11)
from contracts import misc_quick as _mq  # noqa: E402

from contracts import c05 as _c05  # noqa: E402

from contracts import c03 as _c03  # noqa: E402

CONTRACTS += [_c05.bcrypt_2_contract] + [c for c in _c03.CONTRACTS if c.id == "utf8_repeat_string"]
LEMMAS = [l for l in _c03.LEMMAS if l.id == "utf8-repeat-whole-copies"]  # the published $2$ variant cycles the key without terminator: emulated by repetition (shared with C05)
CONTRACTS += [_mq.msdcc2_raw]
FINITE = [_mq.cisco_finite, Finite("transposition-tables-published-order", md5crypt.published_tables, "md5-crypt / sha256-crypt / sha512-crypt transposition tables (passlib and libpass) equal the output order of the published algorithms"),
          Finite("sha-crypt-tables-identical", shacrypt.tables_equal, "passlib and libpass carry identical _c_digest_offsets / transposition tables")]
BOUNDED = [Bounded("c02", "harness/c02.py", descr="~85 formats against independent references, crypt(3), Django, bcrypt, hashlib.scrypt", timeout=900)]

M5 = "passlib/handlers/md5_crypt.py"
S2 = "passlib/handlers/sha2_crypt.py"
MUTANTS = [
    ("md5-crypt: bit walk appends NUL on the clear bits", M5, "a_ctx_update(_BNULL if i & 1 else evenchar)", "a_ctx_update(evenchar if i & 1 else _BNULL)", "refute", "md5_crypt.use_apr=False"),
    ("md5-crypt: 998 rounds (16 tail pairs)", M5, "for even, odd in data[:17]:", "for even, odd in data[:16]:", "refute", "md5_crypt.use_apr=False"),
    ("md5-crypt: 22 blocks", M5, "    blocks = 23\n", "    blocks = 22\n", "refute", "md5_crypt.use_apr=False"),
    ("md5-crypt: tail pairs hash digest before the constant", M5, "    for even, odd in data[:17]:\n        dc = md5(odd + md5(dc + even).digest()).digest()", "    for even, odd in data[:17]:\n        dc = md5(md5(dc + even).digest() + odd).digest()", "refute", "md5_crypt.use_apr=False"),
    ("md5-crypt: permutation salt+pwd+pwd built as pwd+pwd+salt", M5, "salt + pwd, salt + pwd_pwd]", "salt + pwd, pwd_pwd + salt]", "refute", "md5_crypt.use_apr=False"),
    ("md5-crypt: last character instead of first on clear bits", M5, "evenchar = pwd[:1]", "evenchar = pwd[-1:]", "refute", "md5_crypt.use_apr=False"),
    ("md5-crypt: apr magic used for the plain variant", M5, "        magic = _MD5_MAGIC", "        magic = _APR_MAGIC", "refute", "md5_crypt.use_apr=False"),
    ("md5-crypt: B computed over pwd+pwd+salt", M5, "db = md5(pwd + salt + pwd).digest()", "db = md5(pwd + pwd + salt).digest()", "refute", "md5_crypt.use_apr=False"),
    ("md5-crypt: harmless renaming of a local", M5, "    pwd_salt = pwd + salt\n    perms = [pwd, pwd_pwd, pwd_salt, pwd_salt + pwd, salt + pwd, salt + pwd_pwd]", "    ps = pwd + salt\n    perms = [pwd, pwd_pwd, ps, ps + pwd, salt + pwd, salt + pwd_pwd]", "hold", "md5_crypt.use_apr=False"),
]
_SHA = "passlib._raw_sha2_crypt.use_512=False"
MUTANTS += [
    ("sha-crypt: fixed-memory branch repeats the password len(pwd)+1 times", S2, "        i = pwd_len - 1\n        while i:", "        i = pwd_len\n        while i:", "refute", _SHA),
    ("sha-crypt: odd tail round hashes the odd constant", S2, "dc = hash_const(dc + data[pairs][0]).digest()", "dc = hash_const(dc + data[pairs][1]).digest()", "refute", _SHA),
    ("sha-crypt: salt digest S from 16 + A[1] copies", S2, "ds = hash_const(salt * (16 + da[0])).digest()[:salt_len]", "ds = hash_const(salt * (16 + da[1])).digest()[:salt_len]", "refute", _SHA),
]
DC = "passlib/handlers/des_crypt.py"
MUTANTS += [
    ("bigcrypt: last segment of one byte dropped", DC, "        while idx < end:\n            next = idx + 8\n            chk += _raw_des_crypt(secret[idx:next], chk[-11:-9])", "        while idx < end - 1:\n            next = idx + 8\n            chk += _raw_des_crypt(secret[idx:next], chk[-11:-9])", "refute", "bigcrypt"),
    ("bigcrypt: every segment salted from the first digest", DC, "            chk += _raw_des_crypt(secret[idx:next], chk[-11:-9])", "            chk += _raw_des_crypt(secret[idx:next], chk[:2])", "refute", "bigcrypt"),
    ("bigcrypt: segments overlap by one byte", DC, "            chk += _raw_des_crypt(secret[idx:next], chk[-11:-9])", "            chk += _raw_des_crypt(secret[idx - 1:next], chk[-11:-9])", "refute", "bigcrypt"),
]
MUTANTS += [
    ("phpass: one iteration short", "passlib/handlers/phpass.py", "        r = 0\n        while r < real_rounds:", "        r = 1\n        while r < real_rounds:", "refute", "phpass"),
    ("phpass: password hashed before the running digest", "passlib/handlers/phpass.py", "            result = md5(result + secret).digest()", "            result = md5(secret + result).digest()", "refute", "phpass"),
    ("sha1_crypt: seed without the rounds field", "passlib/handlers/sha1_crypt.py", "        result = (f\"{self.salt}$sha1${rounds}\").encode(\"ascii\")", "        result = (f\"{self.salt}$sha1$\").encode(\"ascii\")", "refute", "sha1_crypt"),
    ("sha1_crypt: hmac keyed with the salt", "passlib/handlers/sha1_crypt.py", "        keyed_hmac = compile_hmac(\"sha1\", secret)", "        keyed_hmac = compile_hmac(\"sha1\", self.salt.encode(\"ascii\"))", "refute", "sha1_crypt"),
    ("sha1_crypt: one round short", "passlib/handlers/sha1_crypt.py", "        for _ in range(rounds):\n            result = keyed_hmac(result)", "        for _ in range(rounds - 1):\n            result = keyed_hmac(result)", "refute", "sha1_crypt"),
]
MUTANTS += [
    ("msdcc2: user name lower-cased after it is encoded", "passlib/handlers/windows.py", "        user = to_unicode(user, \"utf-8\", param=\"user\").lower().encode(\"utf-16-le\")\n        tmp = md4(md4(secret).digest() + user).digest()", "        user = to_unicode(user, \"utf-8\", param=\"user\").encode(\"utf-16-le\").lower()\n        tmp = md4(md4(secret).digest() + user).digest()", "refute", "msdcc2"),
    ("msdcc2: 10239 rounds", "passlib/handlers/windows.py", "pbkdf2_hmac(\"sha1\", tmp, user, 10240, 16)", "pbkdf2_hmac(\"sha1\", tmp, user, 10239, 16)", "refute", "msdcc2"),
]

from contracts import kdf_family as _kdf  # noqa: E402

CONTRACTS += _kdf.contracts("C02")
MUTANTS += [
    ("pbkdf2_<digest>: key length of the neighbouring digest", "passlib/handlers/pbkdf2.py", "            self._digest, secret, self.salt, self.rounds, self.checksum_size\n", "            self._digest, secret, self.salt, self.rounds, self.checksum_size + 0 * len(secret)\n", "hold", "Pbkdf2DigestHandler"),
    ("cta_pbkdf2_sha1: one round short", "passlib/handlers/pbkdf2.py", "pbkdf2_hmac(\"sha1\", secret, self.salt, self.rounds, 20)", "pbkdf2_hmac(\"sha1\", secret, self.salt, self.rounds - 1, 20)", "refute", "cta_pbkdf2"),
    ("atlassian: 1000 rounds", "passlib/handlers/pbkdf2.py", "pbkdf2_hmac(\"sha1\", secret, self.salt, 10000, 32)", "pbkdf2_hmac(\"sha1\", secret, self.salt, 1000, 32)", "refute", "atlassian"),
    ("grub: key of 32 bytes", "passlib/handlers/pbkdf2.py", "pbkdf2_hmac(\"sha512\", secret, self.salt, self.rounds, 64)", "pbkdf2_hmac(\"sha512\", secret, self.salt, self.rounds, 32)", "refute", "grub"),
    ("dlitz: bare salt instead of the configuration string", "passlib/handlers/pbkdf2.py", "        salt = self._get_config()\n        result = pbkdf2_hmac", "        salt = self.salt\n        result = pbkdf2_hmac", "refute", "dlitz"),
    ("django_pbkdf2: key length pinned to 32 for every digest", "passlib/handlers/django.py", "pbkdf2_hmac(self._digest, secret, self.salt, self.rounds)", "pbkdf2_hmac(self._digest, secret, self.salt, self.rounds, 32)", "refute", "django_pbkdf2"),
]
MUTANTS += [
    ("fshp: password and salt in textbook order", "passlib/handlers/fshp.py", "            secret=self.salt,\n            salt=secret,", "            secret=secret,\n            salt=self.salt,", "refute", "fshp"),
    ("scram: password not normalised", "passlib/handlers/scram.py", "return pbkdf2_hmac(alg, saslprep(password), salt, rounds)", "return pbkdf2_hmac(alg, password, salt, rounds)", "refute", "scram.derive"),
    ("digest.pbkdf2_hmac: caller's digest spelling handed to hashlib", "passlib/crypto/digest.py", "return hashlib.pbkdf2_hmac(digest_info.name, secret, salt, rounds, keylen)", "return hashlib.pbkdf2_hmac(digest, secret, salt, rounds, keylen)", "refute", "digest.pbkdf2"),
]
