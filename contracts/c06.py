"""C06 -- generated salts, keys and passwords are uniform over their declared space."""
import z3

from pyvc.contract import Bytes, Contract, Int, Lemma, Loop, Obj, Str, UF
from pyvc.runner import Bounded
from specs.digits import chars, codes, digits, digits_f

from pyvc.replay import py_replay  # noqa: E402

_RNG = """
from passlib.utils import getrandbytes, getrandstr
class R:
    def __init__(self, v): self.v = v; self.calls = 0
    def getrandbits(self, k): self.calls += 1; return self.v % (1 << k) if k else 0
    def randrange(self, a, b): self.calls += 1; return a + self.v % (b - a)
def digits(v, L, n):
    out = []
    for _ in range(n): out.append(v % L); v //= L
    return out
"""


def _search_bytes(seed):
    out = []
    for count in (seed.get("count") or 2, 1, 2, 3):
        for draw in [seed.get("draw") or 0, 0x0102, 0xA5C3F1, 2340, (1 << (8 * max(count, 1))) - 1]:
            out.append({"count": max(0, min(int(count), 6)), "draw": int(draw)})
    return out


def _search_str(seed):
    out = []
    for cs in ("ab", "abc", "0123456789", "x"):
        for count in (0, 1, 2, 3, 5):
            for draw in (0, 1, 7, 123456789):
                out.append({"charset": cs, "count": count, "draw": draw})
    out += [{"charset": "ab", "count": -1, "draw": 0}, {"charset": "", "count": 2, "draw": 0}]
    return out


REPLAY_BYTES = py_replay(_RNG, "rng = R(V['draw']); r = getrandbytes(rng, V['count'])",
                         "exc is None and r == bytes(digits(V['draw'] % (1 << (8 * V['count'])) if V['count'] else 0, 256, V['count'])) and rng.calls == (1 if V['count'] else 0)",
                         {"count": 2, "draw": 2340}, search=_search_bytes)
REPLAY_STR = py_replay(_RNG, "rng = R(V['draw']); r = getrandstr(rng, V['charset'], V['count'])",
                       "(isinstance(exc, ValueError) if (V['count'] < 0 or len(V['charset']) == 0) else (exc is None and r == (V['charset'] * V['count'] if len(V['charset']) == 1 else ''.join(V['charset'][d] for d in digits(V['draw'] % (len(V['charset']) ** V['count']), len(V['charset']), V['count'])))))",
                       {"charset": "ab", "count": 2, "draw": 1}, search=_search_str)

LEVEL = "proof"
EXPLANATION = (
    "getrandbytes/getrandstr proved (loop invariants, all counts, all draws) to return exactly the base-256 / "
    "base-L digits of ONE draw from the rng; the digit step map is proved a bijection, hence a uniform draw gives a "
    "uniform output. Salt generators are proved to delegate to these helpers with the declared size/alphabet. "
    "pwd._ensure_unique is proved (1-3 symbolic elements) to refuse a source with duplicate elements whatever its validation cache "
    "holds and to record only duplicate-free sources."
)
ASSUMPTIONS = [
    "rng.getrandbits(k) is uniform on [0, 2^k), rng.randrange(a, b) uniform on [a, b) (random.Random / SystemRandom contract)",
    "digits bijection for all n: the one-step map is mechanised (3 obligations), the induction over n is the standard argument",
]

RNG = Obj(methods={
    "getrandbits": UF(["int"], "int", ensures=lambda it, r, n: r >= 0, name="getrandbits"),
    "randrange": UF(["int", "int"], "int", requires=lambda it, a, b: a < b, ensures=lambda it, r, a, b: z3.And(a <= r, r < b), name="randrange"),
})

U = "passlib/utils/__init__.py"

CONTRACTS = [
    Contract(
        "getrandbytes", f"{U}::getrandbytes",
        params={"rng": RNG, "count": Int(lo=0)},
        ensures=[
            ("result == base-256 digits of the single draw", "result == bytes(digits(rng.getrandbits(count << 3), 256, count))"),
            ("len(result) == count", "len(result) == count"),
            ("exactly one draw (or none for count 0)", "calls('getrandbits') == (1 if count else 0)"),
        ],
        specs={"digits": digits},
        yield_range=(0, 256),
        loops={"helper#0": Loop(
            invariant=[
                "__out__ + digits(value, 256, count - i) == digits(rng.getrandbits(count << 3), 256, count)",
                "0 <= i <= count", "value >= 0", "len(__out__) == i"],
            decreases="count - i")},
        replay=REPLAY_BYTES,
        descr="every count >= 0, every value of the draw",
    ),
    Contract(
        "getrandstr[str]", f"{U}::getrandstr",
        params={"rng": RNG, "charset": Str(), "count": Int()},
        raises_iff={"ValueError": "count < 0 or len(charset) == 0"},
        ensures=[
            ("result == alphabet[digit_j] of the single draw", "result == (charset * count if len(charset) == 1 else chars(charset, rng.randrange(0, len(charset) ** count), len(charset), count))"),
            ("at most one draw", "calls('randrange') == (0 if len(charset) == 1 else 1)"),
        ],
        specs={"chars": chars},
        loops={"helper#0": Loop(
            invariant=[
                "__out__ + chars(charset, value, letters, count - i) == chars(charset, rng.randrange(0, letters ** count), letters, count)",
                "0 <= i <= count", "value >= 0", "letters == len(charset)", "letters >= 2"],
            decreases="count - i", ghost_step="str")},
        replay=REPLAY_STR,
        descr="text alphabets of any size, any count",
    ),
    Contract(
        "getrandstr[bytes]", f"{U}::getrandstr",
        params={"rng": RNG, "charset": Bytes(), "count": Int()},
        raises_iff={"ValueError": "count < 0 or len(charset) == 0"},
        ensures=[
            ("result == alphabet[digit_j] of the single draw", "implies(len(charset) >= 2, result == bytes(codes(charset, rng.randrange(0, len(charset) ** count), len(charset), count)))"),
            ("one-letter alphabet", "implies(len(charset) == 1, result == charset * count)"),
        ],
        specs={"codes": codes},
        loops={"helper#0": Loop(
            invariant=[
                "__out__ + codes(charset, value, letters, count - i) == codes(charset, rng.randrange(0, letters ** count), letters, count)",
                "0 <= i <= count", "value >= 0", "letters == len(charset)", "letters >= 2"],
            decreases="count - i")},
        descr="byte alphabets of any size, any count",
    ),
]


# a CryptContext never lets a configuration pin a salt (contract shared with C10)
from contracts.c10 import CONTRACTS as _C10  # noqa: E402

CONTRACTS += [c for c in _C10 if c.id.startswith("_CryptConfig._norm_scheme_option")]


def _bijection():
    v, w, L, M, d, q = z3.Ints("v w L M d q")
    pre = [L >= 2, M >= 1]
    return [
        ("step-range", pre + [0 <= v, v < L * M], z3.And(0 <= v % L, v % L < L, 0 <= v / L, v / L < M)),
        ("step-injective", pre + [0 <= v, v < L * M, 0 <= w, w < L * M, v % L == w % L, v / L == w / L], v == w),
        ("step-surjective", pre + [0 <= d, d < L, 0 <= q, q < M], z3.And((q * L + d) % L == d, (q * L + d) / L == q, 0 <= q * L + d, q * L + d < L * M)),
    ]


def _digits_length():
    # length law used as a hypothesis in specs.digits: one inductive step
    v, L, n = z3.Ints("v L n")
    from specs.digits import digits_unfold
    hyp = [digits_unfold(v, L, n), L >= 2, n >= 1, z3.Length(digits_f(v / L, L, n - 1)) == n - 1]
    base = [digits_unfold(v, L, n), n <= 0]
    return [("length-step", hyp, z3.Length(digits_f(v, L, n)) == n), ("length-base", base, z3.Length(digits_f(v, L, n)) == 0)]


LEMMAS = [
    Lemma("digit-step-bijection", _bijection, "v -> (v mod L, v div L) is a bijection [0, L*M) -> [0,L) x [0,M)"),
    Lemma("digits-length", _digits_length, "len(digits(v, L, n)) == max(n, 0)"),
]

from contracts import c06_pwd  # noqa: E402

CONTRACTS += c06_pwd.CONTRACTS
from contracts import c09_frames as _fr  # noqa: E402

# a salt pinned on a customised copy (using(salt=...), mainly for testing) never leaks to the hasher it was derived from (shared with C09)
CONTRACTS += [c for c in _fr.CONTRACTS if c.id.startswith(("HasSalt.using", "cisco_type7.using"))]
BOUNDED = [Bounded("c06", "harness/c06.py", descr="exhaustive small draws through the real helpers; salt sizes/alphabets; pwd entropy")]

MUTANTS = [
    ("getrandbytes shift 3", U, "            value >>= 8\n", "            value >>= 3\n", "refute"),
    ("getrandbytes mask 7f", U, "            yield value & 0xFF\n", "            yield value & 0x7F\n", "refute"),
    ("getrandbytes two draws", U, "        value = rng.getrandbits(count << 3)\n        i = 0", "        value = rng.getrandbits(count << 3) ^ rng.getrandbits(count << 3) if False else rng.getrandbits(count << 2)\n        i = 0", "refute"),
    ("getrandstr modulus off by one", U, "            yield charset[value % letters]\n", "            yield charset[value % (letters - 1)]\n", "refute"),
    ("getrandstr divides by wrong base", U, "            value //= letters\n", "            value //= letters + 1\n", "refute"),
    ("getrandstr count check dropped", U, "    if count < 0:\n        raise ValueError(\"count must be >= 0\")\n", "    if count < -1:\n        raise ValueError(\"count must be >= 0\")\n", "refute"),
    ("getrandbytes harmless rename", U, "            yield value & 0xFF\n            value >>= 8\n", "            b = value & 0xFF\n            yield b\n            value = value >> 8\n", "hold"),
    ("getrandstr harmless for-range", U, "            value //= letters\n            i += 1\n", "            value = value // letters\n            i = i + 1\n", "hold"),
]
MUTANTS += c06_pwd.MUTANTS


# ---- libpass salts: the length derived from the requested entropy (float arithmetic in the source, so decided by finite
#      complete execution of the real function text) and the per-position draw ----
def _libpass_salt_length():
    import math
    import string

    from pyvc.concrete import load_function

    got = {}
    fn, info = load_function("libpass/_salt.py::generate_salt_by_entropy", {"math": math, "DEFAULT_CHARS": string.ascii_letters + string.digits,
                                                                              "generate_salt": lambda length, chars: got.update(length=length, chars=chars) or "x" * length})
    fails, cases = [], 0
    for n in range(2, 257):
        chars = "".join(chr(0x100 + i) for i in range(n))
        p2 = 1
        for bits in range(1, 1025):
            p2 *= 2
            cases += 1
            fn(bits, chars)
            L = got["length"]
            if not (got["chars"] == chars and isinstance(L, int) and n ** L >= p2 and (L == 0 or n ** (L - 1) < p2)) and len(fails) < 5:
                fails.append({"key": f"libpass-salt-length:{n}:{bits}", "what": f"{bits} bits over {n} symbols: length {L} is not the smallest L with {n}^L >= 2^{bits}", "witness": {"symbols": n, "bits": bits, "length": L}})
    gs, info2 = load_function("libpass/_salt.py::generate_salt", {"DEFAULT_CHARS": string.ascii_letters + string.digits, "secrets": None})
    for n in (1, 2, 7, 62, 94):
        chars = "".join(chr(0x21 + i) for i in range(n))
        for length in range(0, 65):
            draws = []

            class _S:
                @staticmethod
                def choice(seq, _d=draws):
                    _d.append(seq)
                    return seq[(7 * len(_d)) % len(seq)]
            gs.__globals__["secrets"] = _S
            cases += 1
            v = gs(length, chars)
            want = "".join(chars[(7 * (k + 1)) % n] for k in range(length))
            if not (v == want and len(draws) == length and all(d == chars for d in draws)) and len(fails) < 5:
                fails.append({"key": f"libpass-salt-draws:{n}:{length}", "what": "generate_salt is not one draw from the given alphabet per position, joined in order", "witness": {"symbols": n, "length": length, "salt": v}})
    return {"cases": cases, "failures": fails, "samples": [{"symbols": 62, "bits": 128, "length": 22}],
            "functions": [dict(info.describe(), contract="finite:libpass-salt-length"), dict(info2.describe(), contract="finite:libpass-salt-length")]}


from pyvc.runner import Finite as _Finite  # noqa: E402

FINITE = [_Finite("libpass-salt-length", _libpass_salt_length, "alphabets of 2..256 symbols x 1..1024 bits: generate_salt_by_entropy asks generate_salt for the smallest length L with symbols^L >= 2^bits (exact integer comparison) over the caller's alphabet; generate_salt for lengths 0..64: one secrets.choice over the alphabet per position, joined in order")]
MUTANTS += [
    ("libpass: bits per symbol rounded up to a whole number", "libpass/_salt.py", "    length = math.ceil(entropy_bits / math.log2(len(chars)))", "    length = math.ceil(entropy_bits / (len(chars) - 1).bit_length())", "refute", "libpass-salt"),
]
