"""Shared protocol of the bounded stand-ins (run under /venv/bin/python against the real library).

A harness builds Groups; each group names the contract it stands in for, states its domain (the bound),
counts cases and distinct non-trivial cases, and lists failures.  A failure has a stable ``key`` (so that
known_findings.json can match a specific witness class), a human ``what`` and a JSON ``witness`` that is
enough to re-run the failing call.  The last stdout line is the JSON result.

Never counted as proved: the driver reports these under coverage.bounded only.
"""
import argparse
import json
import os
import random
import sys
import time
import traceback

# bcrypt >= 5 used to break passlib's loader on this host; the repository now handles it.  A harness
# that must avoid the C library can still hide it with HIDE_BCRYPT=1.
if os.environ.get("HIDE_BCRYPT"):
    sys.modules["bcrypt"] = None

import warnings

warnings.simplefilter("ignore")


class Group:
    def __init__(self, name, contract, domain):
        self.name = name
        self.contract = contract
        self.domain = domain
        self.cases = 0
        self.distinct = set()
        self.failures = []
        self.samples = []
        self.t0 = time.time()
        self.skipped = []

    def case(self, ident, nontrivial=True):
        """count one evaluated case; ident: hashable description used for the distinct count"""
        self.cases += 1
        if nontrivial:
            self.distinct.add(ident if isinstance(ident, (str, int, bytes, tuple)) else repr(ident))
        if len(self.samples) < 3:
            self.samples.append(_j(ident))

    def fail(self, key, what, witness):
        if len(self.failures) < 25 and not any(f["key"] == key for f in self.failures):
            self.failures.append({"key": key, "what": what, "witness": _j(witness), "contract": self.contract})

    def check(self, cond, key, what, witness):
        if not cond:
            self.fail(key, what, witness)
        return cond

    def out(self):
        return {
            "name": self.name,
            "contract": self.contract,
            "domain": self.domain,
            "cases": self.cases,
            "distinct": len(self.distinct),
            "seconds": round(time.time() - self.t0, 2),
            "failures": self.failures,
            "samples": self.samples,
        }


def _j(x):
    try:
        json.dumps(x)
        return x
    except (TypeError, ValueError):
        if isinstance(x, bytes):
            return {"bytes_hex": x.hex()}
        if isinstance(x, (tuple, list)):
            return [_j(y) for y in x]
        if isinstance(x, dict):
            return {str(k): _j(v) for k, v in x.items()}
        return repr(x)


def outcome(fn, *a, **k):
    """('ok', value) or ('exc', ExceptionClassName, message, is_value_or_type_error)"""
    try:
        return ("ok", fn(*a, **k))
    except Exception as err:  # noqa: BLE001
        return ("exc", type(err).__name__, str(err)[:120], isinstance(err, (ValueError, TypeError)))


def main(build):
    """build(tier, rng) -> (groups, skipped list, host dict)"""
    ap = argparse.ArgumentParser()
    ap.add_argument("--tier", default="quick")
    ap.add_argument("--seed", default="0")
    a = ap.parse_args()
    rng = random.Random(int(a.seed))
    try:
        res = build(a.tier, rng)
    except Exception:  # harness crash: report, never a verdict
        traceback.print_exc()
        sys.exit(3)
    groups, skipped, host = (list(res) + [[], {}])[:3] if isinstance(res, tuple) else (res, [], {})
    print(json.dumps({"groups": [g.out() for g in groups], "skipped": skipped, "host": host}, default=str))
