"""pyvc.pybuiltins -- models of Python built-ins, methods of built-in types, subscripts (mixin of Interp).

Every model here is part of the trusted base (the Python semantics assumed by the encoding)."""

from __future__ import annotations

import z3

from .symexec import Env, RaiseSig, exc_class
from .values import (
    IntSeqSort,
    SAbsIter,
    SBool,
    SClosure,
    SDec,
    SDict,
    SExc,
    SExcClass,
    SInt,
    SList,
    SMap,
    SModule,
    SObj,
    SOpaque,
    SSeq,
    SSet,
    SStr,
    SStub,
    SType,
    SUndef,
    SUnion,
    Unsupported,
    pytype_name,
)

def _concat_args(e):
    """flattened arguments of a z3 string concatenation"""
    if z3.is_app(e) and e.decl().kind() == z3.Z3_OP_SEQ_CONCAT:
        out = []
        for c in e.children():
            out.extend(_concat_args(c))
        return out
    return [e]


def _lit(p):
    from .ops import _unescape_z3

    return _unescape_z3(p.as_string())


_TYPES = ("int", "str", "bytes", "float", "bool", "tuple", "list", "dict", "type", "object", "set", "frozenset", "bytearray", "memoryview")


class BuiltinsMixin:
    # ------------------------------------------------------------------ names
    def builtin_value(self, name):
        if name in _TYPES:
            return SType(name)
        m = getattr(self, "bi_" + name, None)
        if m is not None:
            return SStub(lambda it, args, kwargs, _m=m: _m(*args, **kwargs), name)
        import builtins

        cls = getattr(builtins, name, None)
        if isinstance(cls, type) and issubclass(cls, BaseException):
            return exc_class(name)
        if name == "__debug__":
            return True
        if name in ("warn", "warnings"):
            return SStub(lambda it, args, kwargs: None, "warn", trusted="warnings.warn does not raise")
        return None

    # ------------------------------------------------------------------ built-in functions
    def bi_staticmethod(self, f):
        """staticmethod(f) stored as a class attribute and then called: behaves as f (no binding is modelled)"""
        return f

    def bi_len(self, v):
        v = self.resolve(v)
        if isinstance(v, SDec):
            return self.wrap_int(self.dec_len(v))
        if isinstance(v, (SStr, SSeq)):
            return self.wrap_int(self.len_z3(v))
        if isinstance(v, (str, bytes, tuple)):
            return len(v)
        if isinstance(v, (SList, SDict, SSet)):
            return len(v.items)
        if isinstance(v, (int, SInt, SBool)) or v is None:
            raise RaiseSig(SExc(exc_class("TypeError")), self.lineno)
        raise Unsupported(f"len of {pytype_name(v)}")

    def len_z3(self, v):
        n = z3.Length(v.e)
        if self.bv is not None:
            return z3.Int2BV(n, self.bv)
        return n

    def bi_isinstance(self, v, t):
        ts = t if isinstance(t, tuple) else (t,)
        names = set()
        for one in ts:
            one = self.resolve(one)
            if isinstance(one, SType):
                names.add(one.name)
            elif isinstance(one, SExcClass):
                names.add("exc:" + one.name)
            elif isinstance(one, SObj) and one.is_class:
                ref = one
                while ref is not None and ref.cls is None:
                    ref = ref.parent
                names.add("cls:" + (ref.cls.name if ref is not None else one.name))
            else:
                raise Unsupported(f"isinstance against {one!r}")

        def pred(x):
            tn = pytype_name(x)
            if tn in names:
                return True
            if tn == "bool" and "int" in names:
                return True
            if "object" in names:
                return True
            if isinstance(x, SExc):
                return any(n.startswith("exc:") and x.cls.issub(n[4:]) for n in names)
            if isinstance(x, SObj) and not x.is_class:
                ref = x
                while ref is not None and ref.cls is None:
                    ref = ref.parent
                if ref is not None:
                    mro = [c.name for c in ref.cls.mro()]
                    return any(n.startswith("cls:") and n[4:] in mro for n in names)
            if tn in ("unknown", "object", "function"):
                if any(n in ("int", "str", "bytes", "float", "bool", "tuple", "list", "dict") for n in names) and tn != "unknown":
                    return False
                raise Unsupported(f"isinstance of {x!r}")
            return False

        if isinstance(v, SUnion):
            return self.wrap_bool(self.to_zbool(self.union_is(v, pred)))
        return pred(v)

    def bi_issubclass(self, c, t):
        c = self.resolve(c)
        ts = t if isinstance(t, tuple) else (t,)
        if isinstance(c, SObj) and c.is_class and c.cls is not None:
            mro = [x.name for x in c.cls.mro()]
            return any(isinstance(one, SObj) and one.name in mro for one in ts)
        if isinstance(c, SExcClass):
            return any(isinstance(one, SExcClass) and c.issub(one.name) for one in ts)
        raise Unsupported("issubclass")

    def bi_callable(self, v):
        v = self.resolve(v)
        return isinstance(v, (SClosure, SStub, SType, SExcClass)) or (isinstance(v, SObj) and v.is_class)

    def bi_getattr(self, obj, name, *default):
        if not isinstance(name, str):
            raise Unsupported("getattr with symbolic name")
        try:
            return self.getattr_value(obj, name)
        except RaiseSig as sig:
            if default and sig.exc.cls.issub("AttributeError"):
                return default[0]
            raise
        except Unsupported:
            if default:
                o = self.resolve(obj)
                if isinstance(o, SObj) and o.cls is None and name not in o.fields:
                    return default[0]
            raise

    def bi_hasattr(self, obj, name):
        o = self.resolve(obj)
        if o is None or isinstance(o, (int, float, str, bytes, tuple)):
            return hasattr(o, name)
        if isinstance(o, (SInt, SBool)):
            return hasattr(0, name)
        if isinstance(o, SStr):
            return hasattr("" if o.kind == "str" else b"", name)
        if isinstance(o, SDict):
            return hasattr({}, name)
        if isinstance(o, SList):
            return hasattr([], name)
        try:
            self.getattr_value(obj, name)
            return True
        except RaiseSig as sig:
            if sig.exc.cls.issub("AttributeError"):
                return False
            raise

    def bi_setattr(self, obj, name, v):
        self.setattr_value(obj, name, v)

    def bi_range(self, *args):
        vals = [self.resolve(a) for a in args]
        if all(isinstance(a, int) for a in vals):
            return range(*vals)
        from .ops import SSymRange

        if len(vals) == 1:
            return SSymRange(0, vals[0])
        if len(vals) == 2:
            return SSymRange(vals[0], self.binop("Sub", vals[1], vals[0]))
        raise Unsupported("symbolic range with step")

    def bi_min(self, *args, **kw):
        return self._minmax(args, "<")

    def bi_max(self, *args, **kw):
        return self._minmax(args, ">")

    def _minmax(self, args, sym):
        if len(args) == 1:
            args = self.static_items_req(args[0])
        if not args:
            raise RaiseSig(SExc(exc_class("ValueError")), self.lineno)
        best = self.resolve(args[0])
        for x in args[1:]:
            x = self.resolve(x)
            c = self.truth(self.cmp_vals(sym, x, best))
            if isinstance(c, bool):
                best = x if c else best
            else:
                best = self.ite(c, x, best)
        return best

    def bi_abs(self, v):
        v = self.resolve(v)
        if isinstance(v, (int, float)):
            return abs(v)
        return self.wrap_int(z3.If(v.e >= 0, v.e, -v.e))

    def bi_divmod(self, a, b):
        return (self.binop("FloorDiv", a, b), self.binop("Mod", a, b))

    def bi_ord(self, c):
        c = self.resolve(c)
        if isinstance(c, (str, bytes)):
            return ord(c)
        if isinstance(c, SStr):
            self.may_raise("TypeError", z3.Length(c.e) == 1)
            return self.wrap_int(z3.StrToCode(c.e))
        raise Unsupported("ord")

    def bi_chr(self, i):
        i = self.resolve(i)
        if isinstance(i, int):
            return chr(i)
        return self.wrap_str(z3.StrFromCode(i.e), "str")

    def bi_sum(self, items, start=0):
        acc = start
        for x in self.static_items_req(items):
            acc = self.binop("Add", acc, x)
        return acc

    def bi_any(self, items):
        for x in self.static_items_req(items):
            if self.run.branch(self.truth(x)):
                return True
        return False

    def bi_all(self, items):
        for x in self.static_items_req(items):
            if not self.run.branch(self.truth(x)):
                return False
        return True

    def bi_enumerate(self, items, start=0):
        items = self.resolve(items)
        if isinstance(items, SAbsIter):
            return SAbsIter(items.n, lambda i, _g=items.get, _s=start: (self.binop("Add", i, _s), _g(i)), f"enumerate({items.name})")
        return SList([(k + start, x) for k, x in enumerate(self.static_items_req(items))])

    def bi_zip(self, *its):
        return SList(list(zip(*[self.static_items_req(i) for i in its])))

    def bi_reversed(self, items):
        return SList(list(reversed(self.static_items_req(items))))

    def bi_sorted(self, items, **kw):
        vals = self.static_items_req(items)
        if kw:
            raise Unsupported("sorted with key")
        try:
            return SList(sorted(vals))
        except TypeError:
            raise Unsupported("sorted of symbolic items")

    def bi_map(self, fn, *its):
        cols = [self.static_items_req(i) for i in its]
        return SList([self.call_value(fn, list(xs), {}) for xs in zip(*cols)])

    def bi_iter(self, v):
        return v

    def bi_repr(self, v):
        return SOpaque("repr")

    def bi_id(self, v):
        return SOpaque("id")

    def bi_print(self, *a, **k):
        return None

    def bi_type(self, v):
        v = self.resolve(v)
        if isinstance(v, SObj):
            return self.type_of_obj(v)
        return SType(pytype_name(v))

    def bi_next(self, it, *default):
        raise Unsupported("next()")

    # -- spec helpers available everywhere ----------------------------------------------------
    def bi_implies(self, a, b):
        a, b = self.truth(a), self.truth(b)
        return self.wrap_bool(z3.Implies(self.to_zbool(a), self.to_zbool(b)))

    def bi_iff(self, a, b):
        a, b = self.truth(a), self.truth(b)
        return self.wrap_bool(self.to_zbool(a) == self.to_zbool(b))

    def bi_isnone(self, a):
        return self.identity(a, None)

    def bi_calls(self, name):
        return sum(1 for c in self.run.calls if c[0] == name)

    def bi_forall_int(self, lo, hi, fn):
        """spec: for all k in [lo, hi): fn(k).  As a goal it is skolemised; as an assumption it is a z3 ForAll."""
        k = z3.Int(self.run.fresh("k")) if self.bv is None else z3.BitVec(self.run.fresh("k"), self.bv)
        body = self.truth(self.call_value(fn, [SInt(k)], {}))
        rng = z3.And(self.cmp_z3("<=", self.to_z3(lo, "int"), k), self.cmp_z3("<", k, self.to_z3(hi, "int")))
        return SBool(z3.ForAll([k], z3.Implies(rng, self.to_zbool(body))))

    # ------------------------------------------------------------------ type constructors
    def call_type(self, t, args, kwargs):
        name = t.name
        if name == "int":
            return self.make_int(*args, **kwargs)
        if name == "str":
            return self.make_str(*args, **kwargs)
        if name == "bytes":
            return self.make_bytes(*args, **kwargs)
        if name == "bool":
            tv = self.truth(args[0]) if args else False
            return tv if isinstance(tv, bool) else self.wrap_bool(tv)
        if name == "tuple":
            return tuple(self.static_items_req(args[0])) if args else ()
        if name == "list":
            if not args:
                return SList([])
            v = self.resolve(args[0])
            if isinstance(v, SSeq):
                return SSeq(v.e, "list")
            return SList(self.static_items_req(v))
        if name == "dict":
            d = {}
            if args:
                src = self.resolve(args[0])
                if isinstance(src, SDict):
                    d.update(src.items)
                else:
                    for kv in self.static_items_req(src):
                        k, v = self.unpack(kv, 2)
                        d[k] = v
            d.update(kwargs)
            return SDict(d)
        if name in ("set", "frozenset"):
            items = self.static_items_req(args[0]) if args else []
            out = []
            for x in items:
                if not any(x is y or (isinstance(x, (str, int, bytes, tuple)) and x == y) for y in out):
                    out.append(x)
            return SSet(out)
        if name == "float":
            v = self.resolve(args[0])
            if isinstance(v, (int, float, str)):
                try:
                    return float(v)
                except ValueError:
                    raise RaiseSig(SExc(exc_class("ValueError")), self.lineno)
            raise Unsupported("float() of a symbolic value")
        if name == "type":
            if len(args) == 1:
                return self.bi_type(args[0])
            if len(args) == 3:
                hook = self.c.globals.get("type3")
                if hook is not None:
                    return self.call_value(hook, args, kwargs)
                tname, bases, ns = args
                base = self.resolve(bases[0])
                sub = SObj(tname if isinstance(tname, str) else self.run.fresh("subcls"), cls=base.cls if isinstance(base, SObj) else None, is_class=True, fresh=True)
                sub.parent = base if isinstance(base, SObj) else None
                nsd = self.resolve(ns)
                if isinstance(nsd, SDict):
                    sub.fields.update(nsd.items)
                return sub
        if name == "object":
            return SObj(self.run.fresh("object"), fresh=True)
        raise Unsupported(f"constructor {name}()")

    def make_int(self, v=0, base=10):
        v = self.resolve(v)
        if isinstance(v, (int, float)) and not isinstance(v, bool):
            return int(v)
        if isinstance(v, bool):
            return int(v)
        if isinstance(v, (SInt,)):
            return v
        if isinstance(v, SBool):
            return self.wrap_int(self.to_z3(v, "int"))
        if isinstance(v, (str, bytes)):
            try:
                return int(v, base)
            except ValueError:
                raise RaiseSig(SExc(exc_class("ValueError")), self.lineno)
        if isinstance(v, SStr) and base == 10:
            return self.str_to_int(v)
        if isinstance(v, SStr) and isinstance(base, int):
            # other bases: over-approximated as 'any integer, or ValueError'
            ok = z3.Bool(self.run.fresh(f"int_base{base}.ok"))
            if self.spec or self.run.branch(ok):
                return SInt(z3.Int(self.run.fresh(f"int_base{base}")))
            raise RaiseSig(SExc(exc_class("ValueError")), self.lineno)
        if v is None or isinstance(v, (tuple, SList, SDict, SObj)):
            raise RaiseSig(SExc(exc_class("TypeError")), self.lineno)
        raise Unsupported(f"int() of {v!r} base {base}")

    def str_to_int(self, v):
        """int(s) for a symbolic decimal string.  Model: accepts exactly the strings of one or more
        ASCII digits (after an optional sign is *not* modelled: a leading '+'/'-', surrounding blanks
        and '_' separators, which int() also accepts, are over-approximated as 'either raises or
        returns an unconstrained integer')."""
        e = v.e
        plain = z3.StrToInt(e) >= 0  # SMT-LIB: str.to_int is -1 unless the string is one or more ASCII digits
        weird = z3.InRe(
            e,
            z3.Concat(
                z3.Star(z3.Union(z3.Re(" "), z3.Re("\t"), z3.Re("\n"))),
                z3.Option(z3.Union(z3.Re("+"), z3.Re("-"))),
                z3.Plus(z3.Union(z3.Range("0", "9"), z3.Re("_"))),
                z3.Star(z3.Union(z3.Re(" "), z3.Re("\t"), z3.Re("\n"))),
            ),
        )
        k = self.run.fork([plain, z3.And(z3.Not(plain), weird), z3.And(z3.Not(plain), z3.Not(weird))], label="int(str)")
        if k == 0:
            r = z3.StrToInt(e)
            self.run.assume(r >= 0)
            return self.wrap_int(r)
        if k == 1:
            which = self.run.fork([z3.BoolVal(True), z3.BoolVal(True)], label="int(str) decorated")
            if which == 0:
                return SInt(z3.Int(self.run.fresh("int_of_decorated")))
            raise RaiseSig(SExc(exc_class("ValueError")), self.lineno)
        raise RaiseSig(SExc(exc_class("ValueError")), self.lineno)

    def int_to_str(self, v):
        """str(n): non-negative via int.to.str, negative = '-' + str(-n)"""
        e = v.e
        if not self.spec:
            # fact of the decimal rendering the string solvers do not derive by themselves: only ASCII characters
            self.run.assume(z3.And(self.all_codes_below(z3.IntToStr(e), 128), self.all_codes_below(z3.IntToStr(-e), 128)))
        return SStr(z3.If(e >= 0, z3.IntToStr(e), z3.Concat(z3.StringVal("-"), z3.IntToStr(-e))), "str")

    def make_str(self, v="", *enc):
        v = self.resolve(v)
        if isinstance(v, str):
            return v
        if isinstance(v, SStr) and v.kind == "str":
            return v
        if isinstance(v, int) and not isinstance(v, bool):
            return str(v)
        if isinstance(v, SInt):
            return self.int_to_str(v)
        if isinstance(v, (SOpaque, SExc)):
            return SOpaque("str()")
        if v is None:
            return "None"
        raise Unsupported(f"str() of {pytype_name(v)}")

    def make_bytes(self, v=b"", *enc):
        v = self.resolve(v)
        if isinstance(v, bytes):
            return v
        if isinstance(v, (SStr,)) and v.kind == "bytes":
            return v
        if isinstance(v, SSeq):
            return SSeq(v.e, "bytes")
        if isinstance(v, int):
            return bytes(v)
        items = self.static_items(v)
        if items is not None:
            conc = []
            for x in items:
                x = self.resolve(x)
                if isinstance(x, int):
                    if not 0 <= x < 256:
                        raise RaiseSig(SExc(exc_class("ValueError")), self.lineno)
                    conc.append(x)
                elif isinstance(x, SInt):
                    self.may_raise("ValueError", z3.And(self.cmp_z3(">=", x.e, 0), self.cmp_z3("<", x.e, 256)))
                    conc.append(x)
                else:
                    raise RaiseSig(SExc(exc_class("TypeError")), self.lineno)
            if all(isinstance(x, int) for x in conc):
                return bytes(conc)
            return SSeq(self.intseq_of(conc), "bytes")
        raise Unsupported(f"bytes() of {pytype_name(v)}")

    # ------------------------------------------------------------------ subscripts
    def norm_slice(self, sl, n):
        """(lo, hi) z3 ints clamped like Python for step None/1"""
        if sl.step is not None and self.resolve(sl.step) != 1:
            raise Unsupported("slice step")

        def norm(i, default):
            if i is None:
                return default
            i = self.to_z3(i, "int")
            return z3.If(i < 0, z3.If(i + n < 0, z3.IntVal(0), i + n), z3.If(i > n, n, i))

        lo = norm(self.resolve(sl.start), z3.IntVal(0))
        hi = norm(self.resolve(sl.stop), n)
        return lo, hi

    def getitem(self, obj, idx):
        obj = self.resolve(obj)
        if isinstance(obj, SUndef):
            return obj
        if isinstance(idx, slice):
            return self.getslice(obj, idx)
        idx = self.resolve(idx)
        if isinstance(obj, (SStr, SSeq)) or (isinstance(obj, (str, bytes)) and isinstance(idx, SInt)):
            if self.bv is not None:
                raise Unsupported("string indexing in bit-vector mode")
            e = self.to_z3(obj)
            n = z3.Length(e)
            i = self.to_z3(idx, "int")
            self.may_raise("IndexError", z3.And(i >= -n, i < n))
            j = z3.If(i < 0, i + n, i)
            if isinstance(obj, SSeq):
                el = obj.e[j]
                if obj.kind == "bytes":
                    self.run.assume(z3.And(el >= 0, el < 256))
                return self.wrap_int(el)
            kind = self.kind_of(obj)
            if kind == "bytes":
                code = z3.StrToCode(z3.SubString(e, j, 1))
                return self.wrap_int(code)
            return self.wrap_str(z3.SubString(e, j, 1), "str")
        if isinstance(obj, (str, bytes, tuple)):
            if isinstance(idx, SInt):
                return self.select_static(list(obj), idx)
            try:
                return obj[idx]
            except IndexError:
                raise RaiseSig(SExc(exc_class("IndexError")), self.lineno)
            except TypeError:
                raise RaiseSig(SExc(exc_class("TypeError")), self.lineno)
        if isinstance(obj, SList):
            if isinstance(idx, SInt):
                return self.select_static(obj.items, idx)
            try:
                return obj.items[idx]
            except IndexError:
                raise RaiseSig(SExc(exc_class("IndexError")), self.lineno)
        if isinstance(obj, SDict):
            if getattr(obj, "sym_items", None):
                raise Unsupported("lookup in a dict that received symbolic keys")
            if isinstance(idx, (SStr, SInt)):
                return self.dict_select(obj, idx)
            try:
                if idx in obj.items:
                    return obj.items[idx]
            except TypeError:
                pass
            raise RaiseSig(SExc(exc_class("KeyError")), self.lineno)
        if isinstance(obj, SMap):
            k = self.to_z3(idx)
            self.may_raise("KeyError", z3.Select(obj.dom, k))
            return obj.vwrap(z3.Select(obj.arr, k))
        if isinstance(obj, SStub) or isinstance(obj, SType):
            return SOpaque("generic alias")
        if obj is None or isinstance(obj, (int, SInt)):
            raise RaiseSig(SExc(exc_class("TypeError")), self.lineno)
        raise Unsupported(f"subscript of {pytype_name(obj)} (line {self.lineno})")

    def dict_select(self, d, key):
        """d[key] for a symbolic key over concrete keys: fork per key"""
        keys = [k for k in d.items if pytype_name(k) == pytype_name(key)]
        conds = [self.to_zbool(self.truth(self.cmp_vals("==", key, k))) for k in keys]
        none = z3.And(*[z3.Not(c) for c in conds]) if conds else z3.BoolVal(True)
        k = self.run.fork(conds + [none], label="dict key")
        if k == len(keys):
            raise RaiseSig(SExc(exc_class("KeyError")), self.lineno)
        return d.items[keys[k]]

    def select_static(self, items, idx):
        """items[idx] with symbolic idx over a static list"""
        n = len(items)
        i = idx.e
        self.may_raise("IndexError", z3.And(self.cmp_z3(">=", i, -n), self.cmp_z3("<", i, n)))
        vals = [self.resolve(x) for x in items]
        if all(isinstance(x, (int, SInt)) and not isinstance(x, bool) for x in vals):
            # table lookup as nested ite over the normalised index
            j = z3.If(self.cmp_z3("<", i, 0), i + n, i)
            acc = self.to_z3(vals[-1], "int")
            for k in range(n - 2, -1, -1):
                acc = z3.If(j == self.mkint(k), self.to_z3(vals[k], "int"), acc)
            return self.wrap_int(acc)
        if all(isinstance(x, (str, SStr)) for x in vals):
            j = z3.If(self.cmp_z3("<", i, 0), i + n, i)
            acc = self.to_z3(vals[-1])
            for k in range(n - 2, -1, -1):
                acc = z3.If(j == self.mkint(k), self.to_z3(vals[k]), acc)
            return self.wrap_str(acc, "str")
        # general: fork
        k = self.run.fork([z3.Or(i == self.mkint(p), i == self.mkint(p - n)) for p in range(n)], label="index")
        return items[k]

    def getslice(self, obj, sl):
        if self.spec and (obj is None or isinstance(obj, SUndef)):
            return SUndef()
        parts = [self.resolve(x) for x in (sl.start, sl.stop, sl.step)]
        conc = all(p is None or isinstance(p, int) for p in parts)
        if isinstance(obj, (str, bytes, tuple)) and conc:
            return obj[slice(*parts)]
        if isinstance(obj, SList) and conc:
            return SList(obj.items[slice(*parts)])
        if isinstance(obj, SList) and parts[0] is None and parts[2] is None and isinstance(parts[1], SInt) and not self.spec:
            # lst[:k] with symbolic k over a static list: case split on k (0..len, clamped like Python for k >= 0)
            n = len(obj.items)
            k = parts[1].e
            opts = [k == v for v in range(n)] + [k >= n]
            # a negative bound is only considered if a longer solver call cannot exclude it
            self.run.solver.set("timeout", 3000)
            neg = self.run.solver.check(k < 0) == z3.sat
            self.run.solver.set("timeout", getattr(self.c, "prune_timeout_ms", None) or self.run.x.prune_timeout_ms)
            which = self.run.fork(opts + ([k < 0] if neg else []), label="slice bound")
            if which > n:
                raise Unsupported("negative symbolic slice bound on a list")
            return SList(obj.items[: min(which, n)])
        if isinstance(obj, SDec):
            if isinstance(parts[0], int) and parts[0] < 0 and parts[1] is None and parts[2] is None and -parts[0] <= obj.w:
                d = -parts[0]
                return SDec(obj.v % (10 ** d), d)
            raise Unsupported("slice of a decimal rendering other than [-d:] with d <= width")
        if isinstance(obj, SStr) and parts[1] is None and parts[2] is None and isinstance(parts[0], SInt):
            # s[len(p):] where s is syntactically p ++ rest: the rest, exactly (keeps later splits syntactic)
            pieces = _concat_args(obj.e)
            if len(pieces) >= 2:
                for k in range(1, len(pieces)):
                    head = z3.Concat(*pieces[:k]) if k > 1 else pieces[0]
                    if z3.eq(z3.simplify(parts[0].e), z3.simplify(z3.Length(head))):
                        rest = pieces[k:]
                        return self.wrap_str(z3.Concat(*rest) if len(rest) > 1 else rest[0], obj.kind)
        if isinstance(obj, (SStr, SSeq, str, bytes)):
            e = self.to_z3(obj)
            n = z3.Length(e)
            lo, hi = self.norm_slice(slice(*parts), n)
            ln = z3.If(hi - lo < 0, z3.IntVal(0), hi - lo)
            sub = z3.SubString(e, lo, ln) if not isinstance(obj, SSeq) else z3.Extract(e, lo, ln)
            if isinstance(obj, SSeq):
                sub = z3.simplify(sub)
                # instance facts of the sequence theory for short constant-length windows e[a : a + k]
                if parts[0] is not None and parts[1] is not None:
                    a0 = self.to_z3(parts[0], "int")
                    diff = z3.simplify(self.to_z3(parts[1], "int") - a0)
                    if z3.is_int_value(diff) and 0 < diff.as_long() <= 8:
                        k = diff.as_long()
                        facts = [z3.Length(sub) == k] + [sub[j] == e[a0 + j] for j in range(k)]
                        self.run.assume(z3.Implies(z3.And(a0 >= 0, a0 + k <= n), z3.And(*facts)))
                return SSeq(sub, obj.kind)
            return self.wrap_str(sub, self.kind_of(obj))
        raise Unsupported(f"slice of {pytype_name(obj)} with symbolic bounds")

    def setitem(self, obj, idx, v):
        obj = self.resolve(obj)
        idx = self.resolve(idx) if not isinstance(idx, slice) else idx
        if isinstance(obj, SList) and isinstance(idx, int):
            try:
                obj.items[idx] = v
            except IndexError:
                raise RaiseSig(SExc(exc_class("IndexError")), self.lineno)
            return
        if isinstance(obj, SDict) and (idx is None or isinstance(idx, (str, int, bytes, tuple))):
            obj.items[idx] = v
            return
        if isinstance(obj, SDict) and isinstance(idx, (SStr, SInt)):
            # a symbolic key: kept as a write-only overflow entry (reads of such a dict are outside the subset)
            if not hasattr(obj, "sym_items"):
                obj.sym_items = []
            obj.sym_items.append((idx, v))
            return
        if isinstance(obj, SMap):
            k = self.to_z3(idx)
            obj.dom = z3.Store(obj.dom, k, z3.BoolVal(True))
            obj.arr = z3.Store(obj.arr, k, self.to_z3(v))
            self.run.writes.append((obj, "[]", self.lineno))
            return
        raise Unsupported(f"item assignment on {pytype_name(obj)}")

    def delitem(self, obj, idx):
        obj = self.resolve(obj)
        idx = self.resolve(idx)
        if isinstance(obj, SDict):
            if idx in obj.items:
                del obj.items[idx]
                return
            raise RaiseSig(SExc(exc_class("KeyError")), self.lineno)
        if isinstance(obj, SMap):
            k = self.to_z3(idx)
            self.may_raise("KeyError", z3.Select(obj.dom, k))
            obj.dom = z3.Store(obj.dom, k, z3.BoolVal(False))
            self.run.writes.append((obj, "del[]", self.lineno))
            return
        if isinstance(obj, SList) and isinstance(idx, int):
            del obj.items[idx]
            return
        raise Unsupported(f"del item on {pytype_name(obj)}")

    # ------------------------------------------------------------------ string helpers
    def str_repeat(self, s, n):
        n = self.resolve(n)
        if isinstance(n, int):
            if isinstance(s, (str, bytes)):
                return s * n
            if n <= 0:
                return "" if s.kind == "str" else b""
            if n > 64:
                raise Unsupported("large constant repeat")
            return self.wrap_str(z3.Concat(*[s.e] * n) if n > 1 else s.e, s.kind)
        # symbolic count: uninterpreted repeat with its length law
        rep = z3.Function("str.repeat", z3.StringSort(), z3.IntSort(), z3.StringSort())
        e = self.to_z3(s)
        r = rep(e, n.e)
        self.run.assume(z3.Length(r) == z3.If(n.e > 0, n.e, 0) * z3.Length(e))
        # one unfolding of the defining recursion: s * n == s * (n - 1) + s
        self.run.assume(r == z3.If(n.e <= 0, z3.StringVal(""), z3.Concat(rep(e, n.e - 1), e)))
        return SStr(r, self.kind_of(s))

    def str_format(self, fmt, args):
        """'%' formatting: modelled for %s / %d / %02d / %0*d on concrete format strings, else opaque"""
        fmt = self.resolve(fmt)
        if not isinstance(fmt, (str, bytes)):
            return SOpaque("format")
        args = self.resolve(args)
        arglist = list(args) if isinstance(args, tuple) else [args]
        import re

        is_b = isinstance(fmt, bytes)
        f = fmt.decode("latin-1") if is_b else fmt
        pieces = re.split(r"(%(?:0?\*|0?\d*)[sdrx%])", f)
        nonempty = [p for p in pieces if p]
        if len(nonempty) == 1 and re.fullmatch(r"%0(\*|\d+)d", nonempty[0]) and not is_b:
            if nonempty[0] == "%0*d" and len(arglist) == 2:
                width, val = self.resolve(arglist[0]), self.resolve(arglist[1])
            elif nonempty[0] != "%0*d" and len(arglist) == 1:
                width, val = int(nonempty[0][2:-1]), self.resolve(arglist[0])
            else:
                raise RaiseSig(SExc(exc_class("TypeError")), self.lineno)
            if isinstance(val, SInt) and isinstance(width, int) and width >= 1:
                if not self.spec and self.run.branch(val.e < 0):
                    # '%0*d' of a negative number: sign, then zeros up to the width, then the digits
                    body = self.dec_to_str(SDec(-val.e, max(width - 1, 1)))
                    return SStr(z3.Concat(z3.StringVal("-"), body), "str")
                return SDec(val.e, width)
        out = []
        ai = 0
        for p in pieces:
            if not p:
                continue
            m = re.fullmatch(r"%(0?\*|0?\d*)([sdrx%])", p)
            if not m:
                out.append(p)
                continue
            flags, conv = m.groups()
            if conv == "%":
                out.append("%")
                continue
            width = None
            zero = flags.startswith("0")
            if flags.endswith("*"):
                width = self.resolve(arglist[ai])
                ai += 1
            elif flags.lstrip("0"):
                width = int(flags.lstrip("0"))
            elif flags == "0":
                width = None
            if ai >= len(arglist):
                raise RaiseSig(SExc(exc_class("TypeError")), self.lineno)
            val = self.resolve(arglist[ai])
            ai += 1
            if conv in ("r", "x"):
                return SOpaque("format")
            if conv == "s":
                vkind = "bytes" if isinstance(val, bytes) else "str" if isinstance(val, str) else val.kind if isinstance(val, SStr) else None
                if is_b and vkind != "bytes":
                    if vkind == "str" or isinstance(val, (int, SInt)):
                        # b"%s" % text / number: "%b requires a bytes-like object"
                        raise RaiseSig(SExc(exc_class("TypeError")), self.lineno)
                    return SOpaque("format")
                if not is_b and vkind == "bytes":
                    return SOpaque("format")  # the repr b'...' of the bytes, not its content
                if isinstance(val, (str, bytes)):
                    out.append(val.decode("latin-1") if isinstance(val, bytes) else val)
                elif isinstance(val, SStr):
                    out.append(val)
                elif isinstance(val, int) and not isinstance(val, bool):
                    out.append(str(val))
                elif isinstance(val, SInt):
                    out.append(self.int_to_str(val))
                else:
                    return SOpaque("format")
                if width:
                    return SOpaque("format")
                continue
            # %d
            if isinstance(val, (SOpaque, SObj)) or val is None:
                return SOpaque("format")
            if isinstance(val, (str, bytes, SStr)):
                raise RaiseSig(SExc(exc_class("TypeError")), self.lineno)
            if isinstance(val, int) and (width is None or isinstance(width, int)):
                out.append(("%0*d" if zero else "%*d") % (width or 0, val))
                continue
            sval = self.int_to_str(val if isinstance(val, SInt) else SInt(z3.IntVal(val)))
            if width is None or width == 0:
                out.append(sval)
                continue
            if not zero:
                return SOpaque("format")
            out.append(self.zero_pad(sval, val, width))
        if all(isinstance(x, str) for x in out):
            r = "".join(out)
            return r.encode("latin-1") if is_b else r
        e = [self.to_z3(x) for x in out]
        return self.wrap_str(z3.Concat(*e) if len(e) > 1 else e[0], "bytes" if is_b else "str")

    def zero_pad(self, sval, val, width):
        """'%0*d' % (width, val) for val >= 0 (negative: sign handling not modelled -> Unsupported path)"""
        zv = self.to_z3(val, "int")
        if not self.spec:
            if self.run.branch(zv < 0):
                raise Unsupported("zero padded negative number")
        w = self.to_z3(width, "int")
        pad = z3.Function("str.zeros", z3.IntSort(), z3.StringSort())
        npad = z3.If(w - z3.Length(sval.e) > 0, w - z3.Length(sval.e), z3.IntVal(0))
        self.run.assume(z3.Length(pad(npad)) == npad)
        self.run.assume(z3.InRe(pad(npad), z3.Star(z3.Re("0"))))
        return SStr(z3.Concat(pad(npad), sval.e), "str")

    # ------------------------------------------------------------------ methods of built-in types
    def method_of(self, obj, attr):
        m = getattr(self, f"m_{pytype_name(obj)}_{attr}", None)
        if m is None and isinstance(obj, (str, bytes, SStr)):
            m = getattr(self, f"m_text_{attr}", None)
        if m is None:
            if isinstance(obj, (str, bytes)) and attr in ("upper", "lower", "strip", "lstrip", "rstrip", "isdigit", "isalnum", "hex", "title", "islower", "isupper", "isascii", "zfill", "ljust", "rjust", "count", "rfind", "partition", "rpartition", "splitlines", "translate", "capitalize"):
                return SStub(lambda it, args, kwargs: self._concrete_method(obj, attr, args, kwargs), attr)
            raise Unsupported(f"method {pytype_name(obj)}.{attr} (line {self.lineno})")
        return SStub(lambda it, args, kwargs: m(obj, *args, **kwargs), attr)

    def _concrete_method(self, obj, attr, args, kwargs):
        args = [self.resolve(a) for a in args]
        if any(isinstance(a, (SStr, SInt, SBool)) for a in args):
            raise Unsupported(f"{attr} with symbolic argument")
        try:
            r = getattr(obj, attr)(*args, **kwargs)
        except (TypeError, ValueError) as err:
            raise RaiseSig(SExc(exc_class(type(err).__name__)), self.lineno)
        return self.lift_const(r) if isinstance(r, (list, dict)) else r

    # text (str / bytes / SStr)
    def _strip_model(self, s, which, chars):
        """weak, sound model of strip/lstrip/rstrip on a symbolic string: a function of (s, chars) whose result is a
        suffix / prefix / substring of s (which characters go is not modelled)"""
        if isinstance(s, (str, bytes)) and all(isinstance(c, (str, bytes)) or c is None for c in chars):
            return getattr(s, which)(*[c for c in chars if c is not None])
        if any(isinstance(self.resolve(c), SStr) for c in chars):
            raise Unsupported(f"{which} with symbolic argument")
        tag = repr(chars[0]) if chars and chars[0] is not None else "ws"
        f = z3.Function(f"{self.kind_of(s)}.{which}[{tag}]", z3.StringSort(), z3.StringSort())
        e = self.to_z3(s)
        r = f(e)
        rel = {"lstrip": z3.SuffixOf(r, e), "rstrip": z3.PrefixOf(r, e), "strip": z3.Contains(e, r)}[which]
        self.run.assume(z3.And(rel, z3.Length(r) <= z3.Length(e)))
        return SStr(r, self.kind_of(s))

    def m_text_ljust(self, s, width, fill=None):
        """s.ljust(width[, fill]) == s + fill * max(0, width - len(s))"""
        width = self.resolve(width)
        fill = self.resolve(fill)
        if fill is None:
            fill = " " if self.kind_of(s) == "str" else b" "
        if isinstance(s, (str, bytes)) and isinstance(width, int) and isinstance(fill, (str, bytes)):
            return s.ljust(width, fill)
        if not isinstance(fill, (str, bytes)) or len(fill) != 1:
            raise Unsupported("ljust with a symbolic fill character")
        n = self.to_z3(width, "int") - z3.Length(self.to_z3(s))
        pad = self.str_repeat(SStr(self.to_z3(fill), self.kind_of(s)), self.wrap_int(z3.If(n > 0, n, 0)))
        return self.wrap_str(z3.Concat(self.to_z3(s), self.to_z3(pad)), self.kind_of(s))

    def m_text_lstrip(self, s, *chars):
        return self._strip_model(s, "lstrip", chars)

    def m_text_rstrip(self, s, *chars):
        return self._strip_model(s, "rstrip", chars)

    def m_text_strip(self, s, *chars):
        return self._strip_model(s, "strip", chars)

    def m_text_startswith(self, s, prefix, *rest):
        if rest:
            raise Unsupported("startswith with offsets")
        prefix = self.resolve(prefix)
        if isinstance(prefix, tuple):
            parts = [self.truth(self.m_text_startswith(s, p)) for p in prefix]
            if any(p is True for p in parts):
                return True
            parts = [p for p in parts if p is not False]
            return self.wrap_bool(z3.Or(*parts)) if parts else False
        if isinstance(s, (str, bytes)) and isinstance(prefix, (str, bytes)):
            return s.startswith(prefix)
        if not isinstance(prefix, (str, bytes, SStr)):
            raise RaiseSig(SExc(exc_class("TypeError")), self.lineno)
        if self.kind_of(s) != self.kind_of(prefix):
            raise RaiseSig(SExc(exc_class("TypeError")), self.lineno)
        return self.wrap_bool(z3.PrefixOf(self.to_z3(prefix), self.to_z3(s)))

    def m_text_endswith(self, s, suffix, *rest):
        suffix = self.resolve(suffix)
        if isinstance(suffix, tuple):
            parts = [self.truth(self.m_text_endswith(s, p)) for p in suffix]
            if any(p is True for p in parts):
                return True
            parts = [p for p in parts if p is not False]
            return self.wrap_bool(z3.Or(*parts)) if parts else False
        if isinstance(s, (str, bytes)) and isinstance(suffix, (str, bytes)):
            return s.endswith(suffix)
        return self.wrap_bool(z3.SuffixOf(self.to_z3(suffix), self.to_z3(s)))

    def m_text_encode(self, s, encoding="utf-8", errors="strict"):
        if isinstance(s, str):
            try:
                return s.encode(encoding, errors)
            except UnicodeError:
                raise RaiseSig(SExc(exc_class("UnicodeEncodeError")), self.lineno)
        enc = encoding.lower().replace("_", "-") if isinstance(encoding, str) else None
        if enc in ("ascii", "latin-1", "latin1", "iso-8859-1"):
            lim = 128 if enc == "ascii" else 256
            self.may_raise("UnicodeEncodeError", self.all_codes_below(s.e, lim))
            return SStr(s.e, "bytes")
        if enc in ("utf-8", "utf8"):
            f = z3.Function("utf8", z3.StringSort(), z3.StringSort())
            r = f(s.e)
            ascii_ = self.all_codes_below(s.e, 128)
            self.run.assume(z3.And(z3.Length(r) >= z3.Length(s.e), z3.Length(r) <= 4 * z3.Length(s.e), z3.Implies(ascii_, r == s.e)))
            return SStr(r, "bytes")
        # any other codec: an uninterpreted function per codec name; may raise UnicodeEncodeError;
        # single-byte code pages keep the length
        name = enc if isinstance(enc, str) else "codec"
        ok = z3.Bool(self.run.fresh(f"encodable[{name}]"))
        self.run.assume(z3.Implies(self.all_codes_below(s.e, 128), ok))
        self.may_raise("UnicodeEncodeError", ok)
        f = z3.Function(f"encode[{name}]", z3.StringSort(), z3.StringSort())
        r = f(s.e)
        if name.startswith("cp") or name.startswith("iso") or name in ("ascii",):
            self.run.assume(z3.Length(r) == z3.Length(s.e))
        else:
            self.run.assume(z3.And(z3.Length(r) >= z3.Length(s.e), z3.Length(r) <= 4 * z3.Length(s.e)))
        return SStr(r, "bytes")

    def m_text_decode(self, s, encoding="utf-8", errors="strict"):
        if isinstance(s, bytes):
            try:
                return s.decode(encoding, errors)
            except UnicodeError:
                raise RaiseSig(SExc(exc_class("UnicodeDecodeError")), self.lineno)
        enc = encoding.lower().replace("_", "-") if isinstance(encoding, str) else None
        if enc == "ascii":
            self.may_raise("UnicodeDecodeError", self.all_codes_below(s.e, 128))
            return SStr(s.e, "str")
        if enc in ("latin-1", "latin1", "iso-8859-1"):
            return SStr(s.e, "str")
        if errors != "strict" and enc in ("utf-8", "utf8"):
            # lenient decoding (ignore / replace / ...): never raises, the result is some text no longer tied to the bytes
            # (undecodable bytes are dropped or replaced) -- only pure ASCII input is known to survive
            f = z3.Function(f"utf8dec[{errors}]", z3.StringSort(), z3.StringSort())
            r = f(s.e)
            self.run.assume(z3.Implies(self.all_codes_below(s.e, 128), r == s.e))
            return SStr(r, "str")
        if enc in ("utf-8", "utf8"):
            ok = z3.Bool(self.run.fresh("valid_utf8"))
            ascii_ = self.all_codes_below(s.e, 128)
            self.run.assume(z3.Implies(ascii_, ok))
            self.may_raise("UnicodeDecodeError", ok)
            f = z3.Function("utf8dec", z3.StringSort(), z3.StringSort())
            r = f(s.e)
            self.run.assume(z3.And(z3.Length(r) <= z3.Length(s.e), z3.Implies(ascii_, r == s.e), z3.Implies(z3.Length(s.e) > 0, z3.Length(r) > 0)))
            # strict decoding is the exact inverse of encoding: nothing is dropped
            self.run.assume(z3.Function("utf8", z3.StringSort(), z3.StringSort())(r) == s.e)
            return SStr(r, "str")
        raise Unsupported(f"decode({encoding!r})")

    def all_codes_below(self, e, lim):
        hi = chr(lim - 1)
        return z3.InRe(e, z3.Star(z3.Range(chr(0), hi)))

    def m_text_join(self, sep, items):
        items = self.resolve(items)
        if isinstance(items, SStr):
            sepc = self.resolve(sep)
            if sepc in ("", b""):
                return SStr(items.e, self.kind_of(sep))
            raise Unsupported("join of symbolic stream with separator")
        vals = [self.resolve(x) for x in self.static_items_req(items)]
        for x in vals:
            if not isinstance(x, (str, bytes, SStr)) or self.kind_of(x) != self.kind_of(sep):
                raise RaiseSig(SExc(exc_class("TypeError")), self.lineno)
        if isinstance(sep, (str, bytes)) and all(isinstance(x, (str, bytes)) for x in vals):
            return sep.join(vals)
        parts = []
        for k, x in enumerate(vals):
            if k:
                parts.append(self.to_z3(sep))
            parts.append(self.to_z3(x))
        if not parts:
            return "" if self.kind_of(sep) == "str" else b""
        return self.wrap_str(z3.Concat(*parts) if len(parts) > 1 else parts[0], self.kind_of(sep))

    def m_text_find(self, s, sub, *rest):
        if len(rest) == 1:
            start = self.resolve(rest[0])
            if isinstance(s, (str, bytes)) and isinstance(sub, (str, bytes)) and isinstance(start, int):
                return s.find(sub, start)
            st = self.to_z3(start, "int")
            if not self.spec and self.run.branch(st < 0):
                raise Unsupported("find with a negative start")
            return self.wrap_int(z3.IndexOf(self.to_z3(s), self.to_z3(sub), st))
        if rest:
            raise Unsupported("find with offsets")
        if isinstance(s, (str, bytes)) and isinstance(sub, (str, bytes)):
            return s.find(sub)
        return self.wrap_int(z3.IndexOf(self.to_z3(s), self.to_z3(sub), z3.IntVal(0)))

    def m_text_rfind(self, s, sub, *rest):
        if len(rest) == 1:
            # s.rfind(sub, start): last occurrence at or after start (start >= 0), by its defining property
            start = self.resolve(rest[0])
            if isinstance(s, (str, bytes)) and isinstance(sub, (str, bytes)) and isinstance(start, int):
                return s.rfind(sub, start)
            e, zs = self.to_z3(s), self.to_z3(sub)
            st = self.to_z3(start, "int")
            if not self.spec and self.run.branch(st < 0):
                raise Unsupported("rfind with a negative start")
            r = z3.Int(self.run.fresh("rfind"))
            ls = z3.Length(zs)
            tail = z3.SubString(e, r + 1, z3.Length(e))
            found = z3.And(r >= st, r + ls <= z3.Length(e), z3.SubString(e, r, ls) == zs, z3.Not(z3.Contains(tail, zs)))
            none = z3.And(r == -1, z3.Not(z3.Contains(z3.SubString(e, st, z3.Length(e)), zs)))
            self.run.assume(z3.Or(found, none))
            return self.wrap_int(r)
        if rest:
            raise Unsupported("rfind with offsets")
        if isinstance(s, (str, bytes)) and isinstance(sub, (str, bytes)):
            return s.rfind(sub)
        return self.wrap_int(z3.LastIndexOf(self.to_z3(s), self.to_z3(sub)))

    def m_text_index(self, s, sub, *rest):
        r = self.m_text_find(s, sub, *rest)
        if isinstance(r, int):
            if r < 0:
                raise RaiseSig(SExc(exc_class("ValueError")), self.lineno)
            return r
        self.may_raise("ValueError", r.e >= 0)
        return r

    def m_text_replace(self, s, old, new, *count):
        if count:
            raise Unsupported("replace with count")
        if all(isinstance(x, (str, bytes)) for x in (s, old, new)):
            return s.replace(old, new)
        f = z3.Function("str.replace_all_m", z3.StringSort(), z3.StringSort(), z3.StringSort(), z3.StringSort())
        # z3py has no replace_all binding in every version; use the SMT-LIB name through a declared function
        # whose only known law is identity when ``old`` does not occur.
        es, eo, en = self.to_z3(s), self.to_z3(old), self.to_z3(new)
        r = f(es, eo, en)
        self.run.assume(z3.Implies(z3.Not(z3.Contains(es, eo)), r == es))
        return SStr(r, self.kind_of(s))

    def m_text_split(self, s, sep=None, maxsplit=-1):
        sep = self.resolve(sep)
        maxsplit = self.resolve(maxsplit)
        if isinstance(s, (str, bytes)) and (sep is None or isinstance(sep, (str, bytes))) and isinstance(maxsplit, int):
            return SList(s.split(sep, maxsplit))
        if sep is None or not isinstance(sep, (str, bytes)) or not isinstance(maxsplit, int):
            raise Unsupported("split with symbolic/None separator")
        return self.split_model(s, sep, maxsplit)

    def split_model(self, s, sep, maxsplit, limit=None):
        """s.split(sep[, maxsplit]) by its defining property: case split on the number of parts.
        parts p0..pk are fresh strings with s == p0+sep+p1+...; none of p0..p(k-1) contains sep; the
        last contains sep only when the maxsplit bound was hit.  Part counts above ``limit`` (default
        maxsplit+1, or contract option split_limit) are merged into one case whose list has symbolic
        length -> Unsupported for consumers that need the items (sound: never guesses)."""
        kind = self.kind_of(s)
        e = self.to_z3(s)
        zsep = self.to_z3(sep)
        # syntactic case: the string is a concatenation of pieces and literal separators, and every other piece
        # is provably separator-free on this path (one solver query per piece): the split is read off directly
        if maxsplit < 0 and isinstance(sep, (str, bytes)) and len(sep) == 1:
            sepc = sep if isinstance(sep, str) else sep.decode("latin-1")
            pieces = _concat_args(e)
            if len(pieces) > 1 and all((z3.is_string_value(p) and _lit(p) == sepc) or not self.run.feasible(z3.Contains(p, zsep)) for p in pieces):
                groups, cur = [], []
                for p in pieces:
                    if z3.is_string_value(p) and _lit(p) == sepc:
                        groups.append(cur)
                        cur = []
                    else:
                        cur.append(p)
                groups.append(cur)
                return SList([self.wrap_str(z3.Concat(*g) if len(g) > 1 else (g[0] if g else z3.StringVal("")), kind) for g in groups])
        limit = limit or getattr(self.c, "split_limit", 6)
        maxparts = maxsplit + 1 if maxsplit >= 0 else limit
        conds = []
        shapes = []
        base = self.run.fresh("split")
        for n in range(1, maxparts + 1):
            parts = [z3.String(f"{base}.{n}.{k}") for k in range(n)]
            pieces = []
            for k, p in enumerate(parts):
                if k:
                    pieces.append(zsep)
                pieces.append(p)
            whole = z3.Concat(*pieces) if len(pieces) > 1 else pieces[0]
            cs = [e == whole]
            for k, p in enumerate(parts):
                last = k == n - 1
                if not last or not (maxsplit >= 0 and n == maxparts):
                    cs.append(z3.Not(z3.Contains(p, zsep)))
            conds.append(z3.And(*cs))
            shapes.append(parts)
        if maxsplit < 0:
            # more parts than the limit: stated positively (first `limit` parts are separator-free, the rest is
            # arbitrary) -- the negation of the other cases would leave their part variables free
            many = [z3.String(f"{base}.many.{j}") for j in range(limit + 1)]
            pieces = []
            for j, p in enumerate(many):
                if j:
                    pieces.append(zsep)
                pieces.append(p)
            conds.append(z3.And(e == z3.Concat(*pieces), *[z3.Not(z3.Contains(p, zsep)) for p in many[:-1]]))
        k = self.run.fork(conds, label="split parts")
        if k >= len(shapes):
            # more parts than the limit: represented by limit+1 unconstrained parts (assumption, stated in the
            # evidence: code under contract compares len(parts) only with constants <= limit)
            return SList([SStr(z3.String(f"{base}.many.{j}"), kind) for j in range(limit + 1)])
        return SList([SStr(p, kind) for p in shapes[k]])

    def m_text_rsplit(self, s, sep=None, maxsplit=-1):
        if isinstance(s, (str, bytes)) and (sep is None or isinstance(sep, (str, bytes))):
            return SList(s.rsplit(sep, maxsplit))
        raise Unsupported("rsplit on symbolic string")

    def m_text_format(self, s, *a, **k):
        """str.format on a concrete template with plain fields ({} / {0} / {name}, no conversion, no format spec)"""
        if not isinstance(s, str):
            return SOpaque("format")
        import string

        out = []
        auto = 0
        try:
            fields = list(string.Formatter().parse(s))
        except ValueError:
            return SOpaque("format")
        for lit, name, spec, conv in fields:
            if lit:
                out.append(lit)
            if name is None:
                continue
            if spec or conv:
                return SOpaque("format")
            if name == "":
                if auto >= len(a):
                    raise RaiseSig(SExc(exc_class("IndexError")), self.lineno)
                val = a[auto]
                auto += 1
            elif name.isdigit():
                if int(name) >= len(a):
                    raise RaiseSig(SExc(exc_class("IndexError")), self.lineno)
                val = a[int(name)]
            elif name in k:
                val = k[name]
            else:
                return SOpaque("format")
            val = self.resolve(val)
            if isinstance(val, str):
                out.append(val)
            elif isinstance(val, SStr) and val.kind == "str":
                out.append(val)
            elif isinstance(val, SDec):
                out.append(SStr(self.to_z3(val), "str"))
            elif isinstance(val, bool) or val is None:
                out.append(str(val))
            elif isinstance(val, int):
                out.append(str(val))
            elif isinstance(val, SInt):
                out.append(self.int_to_str(val))
            else:
                return SOpaque("format")
        if all(isinstance(x, str) for x in out):
            return "".join(out)
        e = [self.to_z3(x) for x in out]
        return self.wrap_str(z3.Concat(*e) if len(e) > 1 else e[0], "str")

    def m_text_lower(self, s):
        if isinstance(s, (str, bytes)):
            return s.lower()
        f = z3.Function("str.lower" if s.kind == "str" else "bytes.lower", z3.StringSort(), z3.StringSort())
        r = f(s.e)
        if s.kind == "bytes":
            self.run.assume(z3.And(z3.Length(r) == z3.Length(s.e), f(r) == r))  # ASCII-only case mapping
        else:
            # Unicode special casing can lengthen the text (e.g. 'ß'.upper() == 'SS'): only bounds are known
            self.run.assume(z3.And(z3.Length(r) >= z3.Length(s.e), z3.Length(r) <= 3 * z3.Length(s.e), f(r) == r))
        return SStr(r, s.kind)

    def m_text_upper(self, s):
        if isinstance(s, (str, bytes)):
            return s.upper()
        f = z3.Function("str.upper" if s.kind == "str" else "bytes.upper", z3.StringSort(), z3.StringSort())
        r = f(s.e)
        if s.kind == "bytes":
            self.run.assume(z3.And(z3.Length(r) == z3.Length(s.e), f(r) == r))  # ASCII-only case mapping
        else:
            # Unicode special casing can lengthen the text (e.g. 'ß'.upper() == 'SS'): only bounds are known
            self.run.assume(z3.And(z3.Length(r) >= z3.Length(s.e), z3.Length(r) <= 3 * z3.Length(s.e), f(r) == r))
        return SStr(r, s.kind)

    def m_text_translate(self, s, table):
        table = self.resolve(table)
        if isinstance(s, (str, bytes)) and isinstance(table, (bytes, dict)):
            return s.translate(table)
        if not isinstance(table, bytes) or len(table) != 256:
            raise Unsupported("translate with a symbolic / non-bytes table")
        import hashlib

        f = z3.Function("translate[" + hashlib.sha1(table).hexdigest()[:10] + "]", z3.StringSort(), z3.StringSort())
        r = f(s.e)
        self.run.assume(z3.Length(r) == z3.Length(s.e))  # byte-wise substitution keeps the length
        return SStr(r, s.kind)

    def m_text_isdigit(self, s):
        if isinstance(s, (str, bytes)):
            return s.isdigit()
        return self.wrap_bool(z3.StrToInt(s.e) >= 0)  # ASCII digits (other Unicode digit classes are not modelled)

    # list / dict / set
    def m_list_append(self, lst, v):
        lst.items.append(v)

    def m_list_extend(self, lst, vs):
        lst.items.extend(self.static_items_req(vs))

    def m_list_pop(self, lst, idx=-1):
        try:
            return lst.items.pop(idx)
        except IndexError:
            raise RaiseSig(SExc(exc_class("IndexError")), self.lineno)

    def m_list_insert(self, lst, idx, v):
        lst.items.insert(idx, v)

    def m_list_remove(self, lst, v):
        for k, x in enumerate(lst.items):
            c = self.truth(self.cmp_vals("==", x, v))
            if c is True:
                del lst.items[k]
                return
            if c is not False:
                raise Unsupported("list.remove with symbolic equality")
        raise RaiseSig(SExc(exc_class("ValueError")), self.lineno)

    def m_list_index(self, lst, v):
        for k, x in enumerate(lst.items):
            c = self.truth(self.cmp_vals("==", x, v))
            if c is True:
                return k
            if c is not False:
                raise Unsupported("list.index with symbolic equality")
        raise RaiseSig(SExc(exc_class("ValueError")), self.lineno)

    m_tuple_index = lambda self, t, v: self.m_list_index(SList(list(t)), v)  # noqa: E731

    def m_list_reverse(self, lst):
        lst.items.reverse()

    def m_list_copy(self, lst):
        return SList(lst.items)

    def m_dict_get(self, d, key, default=None):
        key = self.resolve(key)
        if isinstance(d, SMap):
            k = self.to_z3(key)
            if self.spec:
                raise Unsupported("dict.get on a symbolic map inside a spec")
            if self.run.branch(z3.Select(d.dom, k)):
                return d.vwrap(z3.Select(d.arr, k))
            return default
        if isinstance(key, (SStr, SInt)):
            raise Unsupported("dict.get with symbolic key")
        return d.items.get(key, default)

    def _no_smap(self, d, what):
        if isinstance(d, SMap):
            raise Unsupported(f"dict.{what} on a symbolic map")

    def m_dict_pop(self, d, key, *default):
        self._no_smap(d, "pop")
        if getattr(d, "owner", None) is not None:
            self.note_write(d.owner, key)
        if key in d.items:
            return d.items.pop(key)
        if default:
            return default[0]
        raise RaiseSig(SExc(exc_class("KeyError")), self.lineno)

    def m_dict_setdefault(self, d, key, default=None):
        self._no_smap(d, "setdefault")
        return d.items.setdefault(key, default)

    def m_dict_items(self, d):
        self._no_smap(d, "items")
        return SList([(k, v) for k, v in d.items.items()])

    def m_dict_keys(self, d):
        self._no_smap(d, "keys")
        return SList(list(d.items.keys()))

    def m_dict_values(self, d):
        self._no_smap(d, "values")
        return SList(list(d.items.values()))

    def m_dict_update(self, d, other=None, **kw):
        self._no_smap(d, "update")
        if other is not None:
            o = self.resolve(other)
            if isinstance(o, SDict):
                d.items.update(o.items)
            else:
                for kv in self.static_items_req(o):
                    k, v = self.unpack(kv, 2)
                    d.items[k] = v
        d.items.update(kw)

    def m_dict_copy(self, d):
        self._no_smap(d, "copy")
        return SDict(d.items)

    def m_dict_clear(self, d):
        d.items.clear()

    def m_set_add(self, s, v):
        if not any(x is v or (isinstance(v, (str, int, bytes, tuple)) and x == v) for x in s.items):
            s.items.append(v)

    def m_set_remove(self, s, v):
        for k, x in enumerate(s.items):
            if x is v or (isinstance(v, (str, int, bytes, tuple)) and x == v):
                del s.items[k]
                return
        raise RaiseSig(SExc(exc_class("KeyError")), self.lineno)

    def _concrete_set(self, x, what):
        items = self.static_items_req(self.resolve(x))
        if not all(isinstance(i, (str, int, bytes, tuple)) or i is None for i in items):
            raise Unsupported(f"set.{what} with symbolic elements")
        return items

    def m_set_difference(self, s, *others):
        mine = self._concrete_set(s, "difference")
        drop = set()
        for o in others:
            drop.update(self._concrete_set(o, "difference"))
        return SSet([x for x in mine if x not in drop])

    def m_set_union(self, s, *others):
        out = list(self._concrete_set(s, "union"))
        for o in others:
            for x in self._concrete_set(o, "union"):
                if x not in out:
                    out.append(x)
        return SSet(out)

    def m_set_intersection(self, s, *others):
        out = list(self._concrete_set(s, "intersection"))
        for o in others:
            keep = self._concrete_set(o, "intersection")
            out = [x for x in out if x in keep]
        return SSet(out)

    def m_set_discard(self, s, v):
        try:
            self.m_set_remove(s, v)
        except RaiseSig:
            pass

    def m_int_bit_length(self, v):
        if isinstance(v, int):
            return v.bit_length()
        raise Unsupported("bit_length of symbolic int")

    def m_int_to_bytes(self, v, length, byteorder="big", **kw):
        if isinstance(v, int) and isinstance(length, int):
            try:
                return v.to_bytes(length, byteorder, **kw)
            except OverflowError:
                raise RaiseSig(SExc(exc_class("OverflowError")), self.lineno)
        raise Unsupported("to_bytes of symbolic int")

    # ------------------------------------------------------------------ modular calls
    def call_by_contract(self, cc, args, kwargs, self_obj):
        """caller side of a contract: prove requires, havoc result, assume ensures; exceptions the
        callee may raise are forked with their conditions assumed"""
        from . import extract
        from .symexec import Env

        info = extract.find(cc.target)
        fn = info.node
        a = fn.args
        names = [x.arg for x in a.posonlyargs + a.args]
        vals = list(args)
        if self_obj is not None:
            vals = [self_obj] + vals
        bound = dict(zip(names, vals))
        for k, v in kwargs.items():
            bound[k] = v
        defaults = {}
        for p, d in zip(names[len(names) - len(a.defaults) :], a.defaults):
            defaults[p] = d
        for p, d in zip(a.kwonlyargs, a.kw_defaults):
            if d is not None:
                defaults[p.arg] = d
        for n in names + [x.arg for x in a.kwonlyargs]:
            if n not in bound:
                if n in defaults:
                    bound[n] = self.eval(defaults[n], self.genv)
                else:
                    raise RaiseSig(SExc(exc_class("TypeError")), self.lineno)
        env = Env(self.genv, dict(bound))
        for k, v in cc.globals.items():
            if not hasattr(v, "make"):
                env.vars.setdefault(k, v)
        saved_specs = self.c.specs
        merged = dict(saved_specs)
        merged.update(cc.specs)
        self.c.specs = merged
        try:
            for r in cc.requires:
                self.run.oblige("precondition", self.spec_bool(r, env), f"requires of {cc.id}: {r}", self.lineno)
            # exceptional exits
            options = [z3.BoolVal(True)]
            labels = [None]
            for ename, cond in list(cc.raises_iff.items()) + list(cc.raises.items()):
                c = self.spec_bool(cond, env) if cond not in (None, True) else z3.BoolVal(True)
                options.append(self.to_zbool(c))
                labels.append(ename)
            if cc.raises_iff:
                none = z3.And(*[z3.Not(self.to_zbool(self.spec_bool(c, env))) for c in cc.raises_iff.values()])
                options[0] = none
            k = self.run.fork(options, label=f"outcome of {cc.id}") if len(options) > 1 else 0
            if k > 0:
                raise RaiseSig(SExc(exc_class(labels[k])), self.lineno)
            result = cc.result(self, env) if getattr(cc, "result", None) else self.fresh_result(cc)
            env.vars["result"] = result
            for spec in cc.ensures:
                expr = spec[1] if isinstance(spec, tuple) else spec
                self.run.assume(self.spec_bool(expr, env))
        finally:
            self.c.specs = saved_specs
        self.run.calls.append((cc.id, ()))
        return result

    def fresh_result(self, cc):
        kind = getattr(cc, "returns", "int")
        name = self.run.fresh(f"ret.{cc.id}")
        if hasattr(kind, "make"):
            return kind.make(self, name)
        if kind == "int":
            return SInt(z3.Int(name) if self.bv is None else z3.BitVec(name, self.bv))
        if kind == "bool":
            return SBool(z3.Bool(name))
        if kind in ("str", "bytes"):
            return SStr(z3.String(name), kind)
        if kind == "none":
            return None
        raise Unsupported(f"result kind {kind}")
