"""Bounded stand-in for C06: the real helpers driven exhaustively by a counting rng; salt generators;
pwd entropy arithmetic (floats, outside the proved fragment)."""
import math
from collections import Counter

from common import Group, main, outcome


class CountingRng:
    """returns a chosen value for the single draw and records the calls"""

    def __init__(self, value):
        self.value = value
        self.calls = []

    def getrandbits(self, k):
        self.calls.append(("getrandbits", k))
        assert 0 <= self.value < (1 << k) or k == 0
        return self.value

    def randrange(self, a, b):
        self.calls.append(("randrange", a, b))
        assert a <= self.value < b
        return self.value


def digits(v, L, n):
    out = []
    for _ in range(n):
        out.append(v % L)
        v //= L
    return out


def build(tier, rng):
    from passlib import utils
    from passlib.utils import getrandbytes, getrandstr

    groups = []
    g = Group("getrandbytes-exhaustive", "getrandbytes", "count 0..2, every value of the draw (2^(8*count)); count 3..64: 64 random draws each")
    for count in range(0, 3):
        seen = Counter()
        for v in range(1 << (8 * count)):
            r = CountingRng(v)
            out = getrandbytes(r, count)
            g.case((count, v), nontrivial=count > 0)
            g.check(out == bytes(digits(v, 256, count)), f"getrandbytes:{count}", "output is not the base-256 digits of the draw", {"count": count, "draw": v, "got": out.hex()})
            g.check(len(r.calls) == (1 if count else 0), "getrandbytes:calls", "number of rng draws", {"count": count, "calls": r.calls})
            seen[out] += 1
        g.check(len(seen) == 256**count and set(seen.values()) == {1}, f"getrandbytes:bijection:{count}", "outputs are not each value exactly once", {"count": count, "distinct": len(seen)})
    for count in range(3, 65):
        for _ in range(64 if tier == "quick" else 1024):
            v = rng.getrandbits(8 * count)
            out = getrandbytes(CountingRng(v), count)
            g.case((count, v))
            g.check(out == v.to_bytes(count, "little"), "getrandbytes:large", "output is not the little-endian bytes of the draw", {"count": count, "draw": v})
    groups.append(g)

    g = Group("getrandstr-exhaustive", "getrandstr[str]", "alphabets of 2..94 symbols (text and bytes) x counts with L^count <= 4096: every draw")
    alpha = "".join(chr(c) for c in range(33, 127))
    for L in list(range(2, 17)) + [26, 52, 62, 64, 94]:
        for cs in (alpha[:L], alpha[:L].encode()):
            count = 0
            while L**count <= (4096 if tier == "quick" else 65536) and count <= 6:
                seen = Counter()
                for v in range(L**count):
                    out = getrandstr(CountingRng(v), cs, count)
                    g.case((L, isinstance(cs, bytes), count, v), nontrivial=count > 0)
                    want = [cs[d] for d in digits(v, L, count)]
                    want = "".join(want) if isinstance(cs, str) else bytes(want)
                    g.check(out == want, f"getrandstr:{L}", "output is not alphabet[digits of the draw]", {"L": L, "count": count, "draw": v, "got": repr(out)})
                    seen[out] += 1
                g.check(len(seen) == L**count and set(seen.values()) == {1}, "getrandstr:bijection", "outputs not each exactly once", {"L": L, "count": count})
                count += 1
    for bad in [("ab", -1), ("", 3), (b"", 0)]:
        o = outcome(getrandstr, CountingRng(0), *bad)
        g.case(("bad", repr(bad)))
        g.check(o[0] == "exc" and o[1] == "ValueError", "getrandstr:refusal", "negative count / empty alphabet not refused with ValueError", {"args": repr(bad), "outcome": o})
    o = getrandstr(CountingRng(0), "x", 5)
    g.check(o == "xxxxx", "getrandstr:single", "one-letter alphabet", {"got": o})
    groups.append(g)

    # ---- salted hashers: generated salt has the declared size and alphabet -------------------
    g = Group("salt-generators", "HasSalt._generate_salt", "every registered salted hasher x salt_size in {min, default, max(<=64)}: 8 fresh hashes each; alphabet and size of the parsed salt")
    from passlib import registry
    import passlib.utils.handlers as uh

    skipped = []
    for name in registry.list_crypt_handlers():
        try:
            h = registry.get_crypt_handler(name)
        except Exception as err:  # noqa: BLE001
            skipped.append(f"{name}: {type(err).__name__}")
            continue
        if not (isinstance(h, type) and issubclass(h, uh.HasSalt)) or isinstance(h, uh.PrefixWrapper):
            continue
        if getattr(h, "backends", None) and not any(outcome(h.has_backend, b) == ("ok", True) for b in h.backends):
            skipped.append(f"{name}: no backend")
            continue
        sizes = {h.default_salt_size}
        if "salt_size" in h.setting_kwds:
            sizes |= {h.min_salt_size, min(h.max_salt_size or 64, 64)}
        for size in sorted(s for s in sizes if s is not None):
            try:
                sub = h.using(salt_size=size) if "salt_size" in h.setting_kwds else h
                kw = {}
                if "rounds" in h.setting_kwds and getattr(h, "min_rounds", None) is not None:
                    sub = sub.using(rounds=max(h.min_rounds, 1) if h.rounds_cost == "linear" else h.min_rounds)
            except Exception as err:  # noqa: BLE001
                skipped.append(f"{name} size={size}: {type(err).__name__}: {err}")
                continue
            ctxkw = {"user": "u"} if "user" in h.context_kwds else {}
            if "realm" in h.context_kwds:
                ctxkw["realm"] = "r"
            salts = []
            for _ in range(8 if tier == "quick" else 64):
                try:
                    hs = sub.hash("pw", **ctxkw)
                    try:
                        parsed = sub.from_string(hs, **ctxkw)
                    except TypeError:
                        parsed = sub.from_string(hs)
                except Exception as err:  # noqa: BLE001
                    skipped.append(f"{name}: hash failed {type(err).__name__}: {err}")
                    break
                salt = parsed.salt
                salts.append(salt)
                g.case((name, size, salt if isinstance(salt, (str, bytes)) else repr(salt)))
                if salt is None:
                    continue
                g.check(len(salt) == size, f"salt-size:{name}", "generated salt does not have the configured size", {"hasher": name, "size": size, "salt": repr(salt)})
                chars = sub.default_salt_chars if isinstance(salt, str) else None
                if chars:
                    g.check(all(c in chars for c in salt), f"salt-chars:{name}", "generated salt leaves the declared alphabet", {"hasher": name, "salt": salt})
            if size and size >= 4 and len(salts) >= 8:
                g.check(len(set(salts)) > 1, f"salt-constant:{name}", "generated salts are all equal", {"hasher": name, "size": size})
    groups.append(g)

    # ---- CryptContext refuses a pinned salt ---------------------------------------------------
    g = Group("context-forbids-salt", "_CryptConfig._norm_scheme_option", "salt option via constructor kwds, update(), INI string, per-category, 'all' scheme: must be refused")
    from passlib.context import CryptContext

    attempts = {
        "kwds": lambda: CryptContext(["sha256_crypt"], sha256_crypt__salt="abcd"),
        "all": lambda: CryptContext(["sha256_crypt"], all__salt="abcd"),
        "category": lambda: CryptContext(["sha256_crypt"], admin__sha256_crypt__salt="abcd"),
        "update": lambda: CryptContext(["sha256_crypt"]).update(sha256_crypt__salt="abcd"),
        "ini": lambda: CryptContext.from_string("[passlib]\nschemes = sha256_crypt\nsha256_crypt__salt = abcd\n"),
        "dict": lambda: CryptContext(["md5_crypt"]).copy(**{"md5_crypt__salt": "abcd"}),
        "bytes": lambda: CryptContext(["sha256_crypt"], sha256_crypt__salt=b"abcdefgh"),
        "bytes-all": lambda: CryptContext(["sha256_crypt"], all__salt=b"abcd"),
        "bytes-update": lambda: CryptContext(["pbkdf2_sha256"]).update(pbkdf2_sha256__salt=b"abcdefgh"),
        "bytes-category": lambda: CryptContext(["sha256_crypt"], admin__sha256_crypt__salt=b"abcdefgh"),
        "int": lambda: CryptContext(["sha256_crypt"], sha256_crypt__salt=5),
        # falsy values pin a salt too (HasSalt.using treats anything but None as a fixed salt)
        "empty-str": lambda: CryptContext(["sha256_crypt"], sha256_crypt__salt=""),
        "empty-bytes": lambda: CryptContext(["pbkdf2_sha256"], pbkdf2_sha256__salt=b""),
        "empty-ini": lambda: CryptContext.from_string("[passlib]\nschemes = md5_crypt\nmd5_crypt__salt =\n"),
        "empty-update": lambda: CryptContext(["md5_crypt"]).update(md5_crypt__salt=""),
        "zero": lambda: CryptContext(["sha256_crypt"], sha256_crypt__salt=0),
    }
    for k, fn in attempts.items():
        o = outcome(fn)
        g.case(k)
        g.check(o[0] == "exc", f"ctx-salt:{k}", "CryptContext accepted a configuration that pins a salt", {"via": k, "outcome": repr(o)[:200]})
    groups.append(g)

    # ---- pwd: generated passwords carry the requested entropy ------------------------------
    g = Group("pwd-entropy", "pwd.SequenceGenerator.length", "charsets of 2..94 symbols + wordsets x entropy 1..256 (step 1 quick: 1..128) : length*log2(symbols) >= entropy; outputs over the alphabet with that length")
    from passlib import pwd

    ents = range(1, 129) if tier == "quick" else range(1, 257)
    for L in [2, 3, 5, 10, 16, 26, 36, 52, 62, 64, 94]:
        cs = alpha[:L]
        for ent in ents:
            try:
                gen = pwd.WordGenerator(chars=cs, entropy=ent)
            except Exception as err:  # noqa: BLE001
                g.fail("pwd:ctor", f"WordGenerator refused {type(err).__name__}", {"L": L, "entropy": ent})
                continue
            g.case(("word", L, ent))
            g.check(gen.length * math.log2(L) >= ent - 1e-9, "pwd:word-entropy", "generated word carries less than the requested entropy", {"symbols": L, "entropy": ent, "length": gen.length})
            if ent % 16 == 0:
                w = gen()
                g.check(len(w) == gen.length and all(c in cs for c in w), "pwd:word-shape", "generated word has wrong length/alphabet", {"symbols": L, "word": w})
    for ws in ("eff_long", "eff_short", "eff_prefixed", "bip39"):
        for ent in ents:
            gen = pwd.PhraseGenerator(wordset=ws, entropy=ent)
            n = len(gen.words)
            g.case(("phrase", ws, ent))
            g.check(gen.length * math.log2(n) >= ent - 1e-9, "pwd:phrase-entropy", "generated phrase carries less than the requested entropy", {"wordset": ws, "entropy": ent, "length": gen.length})
    # a source with duplicate elements skews the distribution and over-states the entropy: refused, every time it is offered
    for label, call in (
        ("chars-str", lambda: pwd.genword(chars="aaaabcde", length=3)),
        ("chars-str-entropy", lambda: pwd.genword(chars="abcdefgg", entropy=48)),
        ("words-tuple", lambda: pwd.genphrase(words=("red", "red", "red", "blue"), entropy=40)),
        ("words-list", lambda: pwd.genphrase(words=["red", "blue", "red"], length=3)),
        ("generator-chars", lambda: pwd.WordGenerator(chars="xyzzy", length=4)),
    ):
        for attempt in (1, 2, 3):
            o = outcome(call)
            g.case(("dup-source", label, attempt))
            g.check(o[0] == "exc" and "ValueError" in repr(o[1:]), f"pwd:duplicate-source-accepted:{label}", "a source with duplicate elements was accepted", {"source": label, "attempt": attempt, "outcome": repr(o)[:200]})
    for length in (1, 5, 9, 30):
        w = pwd.genword(length=length, charset="hex")
        g.case(("genword", length))
        g.check(len(w) == length and all(c in "0123456789abcdef" for c in w), "pwd:genword-length", "explicit length not honoured", {"length": length, "word": w})
    groups.append(g)

    # ---- TOTP.new key sizes ---------------------------------------------------------------
    g = Group("totp-new-key", "TOTP.__init__(new=True)", "alg in sha1/sha256/sha512 x size 10..digest_size: key length; size > digest_size refused")
    from passlib.totp import TOTP
    import hashlib

    for alg in ("sha1", "sha256", "sha512"):
        ds = hashlib.new(alg).digest_size
        for size in range(10, ds + 1):
            t = TOTP(new=True, alg=alg, size=size)
            g.case((alg, size))
            g.check(len(t.key) == size, "totp:new-size", "new key does not have the requested size", {"alg": alg, "size": size, "len": len(t.key)})
        o = outcome(TOTP, new=True, alg=alg, size=ds + 1)
        g.check(o[0] == "exc" and o[1] == "ValueError", "totp:new-oversize", "key larger than the digest not refused", {"alg": alg, "size": ds + 1, "outcome": repr(o)})
    k1, k2 = TOTP(new=True).key, TOTP(new=True).key
    g.check(k1 != k2, "totp:new-distinct", "two new keys equal", {})
    groups.append(g)

    # ---------------- libpass salts --------------------------------------------------------------
    g = Group("libpass-salts", "libpass._salt.generate_salt / generate_salt_by_entropy",
              "alphabets of 2..94 symbols x entropy 1..320 bits (quick: step 3): the length is the SMALLEST L with symbols^L >= 2^bits (exact integer test), "
              "the value has that length over that alphabet; generate_salt with the library's secrets.choice recorded: one draw per position over the given alphabet, "
              "output = the draws in order; libpass PBKDF2 / SHA-crypt hashers: parsed salt length and alphabet for salt_entropy_bits in {64, 96, 120, 128, 192, 256}")
    try:
        import libpass._salt as LS
        from libpass.hashers.pbkdf2 import PBKDF2SHA256Handler as PBKDF2SHA256Hasher, PBKDF2SHA512Handler as PBKDF2SHA512Hasher
        from libpass.hashers.sha_crypt import SHA256Hasher, SHA512Hasher

        base = "".join(chr(c) for c in range(33, 127))
        step = 1 if tier == "thorough" else 3
        for n in list(range(2, 95, 1 if tier == "thorough" else 5)) + [62, 64, 94]:
            chars = base[:n]
            for bits in range(1, 321, step):
                g.case((n, bits))
                v = LS.generate_salt_by_entropy(bits, chars)
                L = len(v)
                ok = n ** L >= 2 ** bits and (L == 0 or n ** (L - 1) < 2 ** bits)
                g.check(ok, "libpass-salt:entropy-length", "salt length is not the smallest one carrying the requested entropy", {"symbols": n, "bits": bits, "length": L})
                g.check(set(v) <= set(chars), "libpass-salt:alphabet", "salt symbol outside the given alphabet", {"symbols": n, "bits": bits, "salt": v})
        draws = []
        real = LS.secrets.choice

        class _Rec:
            @staticmethod
            def choice(seq):
                c = real(seq)
                draws.append((seq, c))
                return c

            def __getattr__(self, name):
                return getattr(__import__("secrets"), name)
        orig = LS.secrets
        LS.secrets = _Rec()
        try:
            for n in (2, 10, 62, 94):
                for length in (0, 1, 2, 16, 22, 64):
                    draws.clear()
                    v = LS.generate_salt(length, base[:n])
                    g.case(("draws", n, length))
                    g.check(len(v) == length and len(draws) == length and all(seq == base[:n] for seq, _ in draws) and "".join(c for _, c in draws) == v,
                            "libpass-salt:draws", "generate_salt is not one uniform draw over the alphabet per position, in order", {"symbols": n, "length": length, "salt": v, "draws": len(draws)})
        finally:
            LS.secrets = orig
        import re as _re
        for cls in (PBKDF2SHA256Hasher, PBKDF2SHA512Hasher):
            for bits in (64, 96, 120, 128, 192, 256):
                g.case((cls.__name__, bits))
                h = cls(rounds=1000, salt_entropy_bits=bits)
                seen = set()
                for _ in range(4):
                    hs = h.hash("pw")
                    salt_field = hs.split("$")[3]
                    from passlib.utils.binary import ab64_decode
                    raw = ab64_decode(salt_field)
                    seen.add(raw)
                    L = len(raw)
                    g.check(62 ** L >= 2 ** bits and 62 ** (L - 1) < 2 ** bits and _re.fullmatch(rb"[A-Za-z0-9]*", raw) is not None, "libpass-salt:hasher", "libpass PBKDF2 salt does not carry the configured entropy over [A-Za-z0-9]", {"hasher": cls.__name__, "bits": bits, "salt": repr(raw)})
                g.check(len(seen) == 4, "libpass-salt:fresh", "libpass hasher repeats a salt", {"hasher": cls.__name__, "bits": bits})
        for cls in (SHA256Hasher, SHA512Hasher):
            g.case(cls.__name__)
            salts = {cls(rounds=1000).hash("pw").split("$")[3] for _ in range(4)}
            g.check(len(salts) == 4 and all(len(x) == 16 and _re.fullmatch(r"[./0-9A-Za-z]{16}", x) for x in salts), "libpass-salt:sha-crypt", "libpass SHA-crypt salt is not 16 fresh characters of the crypt alphabet", {"hasher": cls.__name__, "salts": sorted(salts)})
    except Exception as err:  # noqa: BLE001
        import traceback
        skipped.append(f"libpass-salts: {type(err).__name__}: {err} {traceback.format_exc()[-300:]}"[:500])
    groups.append(g)
    return groups, skipped, {}


if __name__ == "__main__":
    main(build)
