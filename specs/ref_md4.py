"""Independent MD4 written from RFC 1320 (one-shot, list-of-words, no incremental state), and the
Windows formats built on it (nthash, bsd_nthash, msdcc, msdcc2).  Shares nothing with passlib."""
import hashlib
import struct

M32 = 0xFFFFFFFF


def _rol(x, s):
    x &= M32
    return ((x << s) | (x >> (32 - s))) & M32


def _f(x, y, z):
    return (x & y) | (~x & M32 & z)


def _g(x, y, z):
    return (x & y) | (x & z) | (y & z)


def _h(x, y, z):
    return x ^ y ^ z


def md4(message):
    msg = bytes(message)
    bitlen = (8 * len(msg)) & 0xFFFFFFFFFFFFFFFF
    msg += b"\x80"
    while len(msg) % 64 != 56:
        msg += b"\x00"
    msg += struct.pack("<Q", bitlen)
    a, b, c, d = 0x67452301, 0xEFCDAB89, 0x98BADCFE, 0x10325476
    for off in range(0, len(msg), 64):
        x = struct.unpack("<16I", msg[off : off + 64])
        aa, bb, cc, dd = a, b, c, d
        # round 1: [abcd k s]: a = (a + F(b,c,d) + X[k]) <<< s
        for k in range(16):
            s = (3, 7, 11, 19)[k % 4]
            a, b, c, d = d, _rol(a + _f(b, c, d) + x[k], s), b, c
        # round 2
        for i in range(16):
            k = (i % 4) * 4 + i // 4
            s = (3, 5, 9, 13)[i % 4]
            a, b, c, d = d, _rol(a + _g(b, c, d) + x[k] + 0x5A827999, s), b, c
        # round 3
        order = (0, 8, 4, 12, 2, 10, 6, 14, 1, 9, 5, 13, 3, 11, 7, 15)
        for i in range(16):
            s = (3, 9, 11, 15)[i % 4]
            a, b, c, d = d, _rol(a + _h(b, c, d) + x[order[i]] + 0x6ED9EBA1, s), b, c
        a, b, c, d = (a + aa) & M32, (b + bb) & M32, (c + cc) & M32, (d + dd) & M32
    return struct.pack("<4I", a, b, c, d)


def selftest():
    vec = {
        b"": "31d6cfe0d16ae931b73c59d7e0c089c0",
        b"a": "bde52cb31de33e46245e05fbdbd6fb24",
        b"abc": "a448017aaf21d8525fc10ae87aa6729d",
        b"message digest": "d9130a8164549fe818874806e1c7014b",
        b"abcdefghijklmnopqrstuvwxyz": "d79e1c308aa5bbcdeea8ed63df412da9",
        b"ABCDEFGHIJKLMNOPQRSTUVWXYZabcdefghijklmnopqrstuvwxyz0123456789": "043f8582f241db351ce627e153e7f0e4",
        b"1234567890" * 8: "e33b4ddc9c38f2199c3e7b164fcc0536",
    }
    for m, h in vec.items():
        assert md4(m).hex() == h, m
    return True


selftest()


def nthash(pw):
    return md4(pw.encode("utf-16-le")).hex()


def msdcc(pw, user):
    return md4(md4(pw.encode("utf-16-le")) + user.lower().encode("utf-16-le")).hex()


def msdcc2(pw, user):
    inner = md4(md4(pw.encode("utf-16-le")) + user.lower().encode("utf-16-le"))
    return hashlib.pbkdf2_hmac("sha1", inner, user.lower().encode("utf-16-le"), 10240, 16).hex()
