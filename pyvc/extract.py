"""pyvc.extract -- read the real functions from /repo on every run.

Nothing is imported from the repository: files are parsed with ``ast`` and functions are selected by
qualified name (``Class.method``, ``outer.inner``).  Module constants are obtained by evaluating their
own initialiser with a closed evaluator (literals, tuples/lists/dicts, range, bytes, comprehensions,
string methods, arithmetic).

Dropped by extraction (complete list): docstrings, comments, type annotations, decorators
``classmethod/staticmethod/property/classproperty/memoized_property/hybrid_method/
deprecated_method/deprecated_function`` (binding behaviour is modelled by the executor, the
deprecation warning is not).
"""

from __future__ import annotations

import ast
import hashlib
import os

REPO = os.environ.get("PYVC_REPO", "/repo")

_cache: dict = {}


class ExtractError(Exception):
    pass


def set_repo(path):
    global REPO
    REPO = path
    _cache.clear()


def module_ast(relpath):
    path = os.path.join(REPO, relpath)
    key = ("mod", path)
    if key not in _cache:
        try:
            with open(path, encoding="utf-8") as fh:
                src = fh.read()
        except OSError as err:
            raise ExtractError(f"cannot read {path}: {err}")
        _cache[key] = (ast.parse(src, filename=path), src)
    return _cache[key]


def _walk_body(body, name):
    # ``attr@setter``: the function decorated with ``@attr.setter`` (a property's setter carries the getter's name)
    want_setter = name.endswith("@setter")
    if want_setter:
        name = name[: -len("@setter")]
    for node in body:
        if isinstance(node, (ast.FunctionDef, ast.ClassDef, ast.AsyncFunctionDef)) and node.name == name:
            if want_setter and not any(isinstance(d, ast.Attribute) and d.attr == "setter" for d in getattr(node, "decorator_list", [])):
                continue
            if not want_setter and any(isinstance(d, ast.Attribute) and d.attr == "setter" for d in getattr(node, "decorator_list", [])):
                continue
            return node
        # look inside if/try at module or class level (e.g. ``if x: def f``)
        if isinstance(node, (ast.If, ast.Try)):
            subs = list(node.body) + list(node.orelse)
            if isinstance(node, ast.Try):
                for h in node.handlers:
                    subs += h.body
                subs += node.finalbody
            found = _walk_body(subs, name + ("@setter" if want_setter else ""))
            if found is not None:
                return found
    return None


class FuncInfo:
    def __init__(self, relpath, qualname, node, src):
        self.relpath = relpath
        self.qualname = qualname
        self.node = node
        self.lineno = node.lineno
        self.end_lineno = node.end_lineno
        seg = ast.get_source_segment(src, node) or ""
        self.sha256 = hashlib.sha256(seg.encode()).hexdigest()
        self.source = seg
        self.decorators = [_decorator_name(d) for d in node.decorator_list]

    @property
    def target(self):
        return f"{self.relpath}::{self.qualname}"

    def describe(self):
        return {
            "function": self.target,
            "lines": [self.lineno, self.end_lineno],
            "sha256": self.sha256[:16],
        }


def _decorator_name(d):
    if isinstance(d, ast.Call):
        d = d.func
    if isinstance(d, ast.Attribute):
        return d.attr
    if isinstance(d, ast.Name):
        return d.id
    return "?"


def find(target) -> FuncInfo:
    """target = 'relpath::Qual.name'"""
    relpath, qualname = target.split("::")
    key = ("fn", REPO, target)
    if key in _cache:
        return _cache[key]
    tree, src = module_ast(relpath)
    body = tree.body
    node = None
    for part in qualname.split("."):
        node = _walk_body(body, part)
        if node is None:
            raise ExtractError(f"{target}: '{part}' not found")
        body = node.body
    info = FuncInfo(relpath, qualname, node, src)
    _cache[key] = info
    return info


def find_class(relpath, clsname) -> ast.ClassDef:
    tree, _ = module_ast(relpath)
    node = _walk_body(tree.body, clsname)
    if not isinstance(node, ast.ClassDef):
        raise ExtractError(f"{relpath}::{clsname} is not a class")
    return node


def class_methods(relpath, clsname):
    node = find_class(relpath, clsname)
    return [n.name for n in node.body if isinstance(n, ast.FunctionDef)]


def class_bases(relpath, clsname):
    node = find_class(relpath, clsname)
    out = []
    for b in node.bases:
        if isinstance(b, ast.Name):
            out.append(b.id)
        elif isinstance(b, ast.Attribute):
            out.append(ast.unparse(b))
    return out


def class_attr_node(relpath, clsname, attr):
    """AST of the class-level initialiser ``attr = <expr>`` (or None)."""
    node = find_class(relpath, clsname)
    for st in node.body:
        if isinstance(st, ast.Assign):
            for t in st.targets:
                if isinstance(t, ast.Name) and t.id == attr:
                    return st.value
                if isinstance(t, ast.Tuple):
                    for k, el in enumerate(t.elts):
                        if isinstance(el, ast.Name) and el.id == attr and isinstance(st.value, ast.Tuple):
                            return st.value.elts[k]
        elif isinstance(st, ast.AnnAssign) and isinstance(st.target, ast.Name) and st.target.id == attr:
            return st.value
    return None


def module_assign_node(relpath, name):
    tree, _ = module_ast(relpath)

    def scan(body):
        found = None
        for st in body:
            if isinstance(st, ast.Assign):
                for t in st.targets:
                    if isinstance(t, ast.Name) and t.id == name:
                        found = st.value
            elif isinstance(st, ast.AnnAssign) and isinstance(st.target, ast.Name) and st.target.id == name:
                if st.value is not None:
                    found = st.value
            elif isinstance(st, (ast.If, ast.Try)):
                sub = scan(st.body)
                if sub is not None:
                    found = sub
        return found

    return scan(tree.body)


# ---------------------------------------------------------------------------------------------
# closed constant evaluator
# ---------------------------------------------------------------------------------------------
class NotConstant(Exception):
    pass


_SAFE_BUILTINS = {
    "range": range,
    "len": len,
    "bytes": bytes,
    "str": str,
    "int": int,
    "tuple": tuple,
    "list": list,
    "dict": dict,
    "set": set,
    "frozenset": frozenset,
    "sorted": sorted,
    "reversed": reversed,
    "enumerate": enumerate,
    "zip": zip,
    "min": min,
    "max": max,
    "sum": sum,
    "chr": chr,
    "ord": ord,
    "bool": bool,
    "True": True,
    "False": False,
    "None": None,
    "divmod": divmod,
    "abs": abs,
    "any": any,
    "all": all,
    "map": map,
    "isinstance": isinstance,
    "repr": repr,
}


def const_eval(node, env=None, relpath=None, _depth=0):
    """Evaluate a constant initialiser.  Names are resolved in ``env`` then, if ``relpath`` is given,
    through other module-level initialisers of the same file (closed: no imports)."""
    env = dict(env or {})
    if _depth > 12:
        raise NotConstant("depth")

    class _Resolver(dict):
        def __missing__(self, key):
            if key in _SAFE_BUILTINS:
                return _SAFE_BUILTINS[key]
            if relpath is not None:
                sub = module_assign_node(relpath, key)
                if sub is not None:
                    val = const_eval(sub, None, relpath, _depth + 1)
                    self[key] = val
                    return val
            raise NotConstant(key)

    scope = _Resolver(env)
    # only expression forms that cannot have side effects outside their own value
    for sub in ast.walk(node):
        if isinstance(sub, (ast.Await, ast.Yield, ast.YieldFrom, ast.NamedExpr)):
            raise NotConstant(type(sub).__name__)
        if isinstance(sub, ast.Attribute):
            # allow method calls on literals / names resolved above only
            if sub.attr.startswith("__"):
                raise NotConstant(sub.attr)
    code = compile(ast.Expression(body=node), "<const>", "eval")
    try:
        return eval(code, {"__builtins__": {}}, scope)  # noqa: S307 - closed namespace
    except NotConstant:
        raise
    except Exception as err:  # pragma: no cover
        raise NotConstant(f"{type(err).__name__}: {err}")


def module_constant(relpath, name):
    key = ("const", REPO, relpath, name)
    if key not in _cache:
        node = module_assign_node(relpath, name)
        if node is None:
            raise ExtractError(f"{relpath}: no module-level assignment to {name}")
        _cache[key] = const_eval(node, None, relpath)
    return _cache[key]


def class_constant(relpath, clsname, attr, env=None):
    node = class_attr_node(relpath, clsname, attr)
    if node is None:
        raise ExtractError(f"{relpath}::{clsname}.{attr} not found")
    return const_eval(node, env, relpath)


def strip_docstring(body):
    if body and isinstance(body[0], ast.Expr) and isinstance(getattr(body[0], "value", None), ast.Constant) and isinstance(body[0].value.value, str):
        return body[1:]
    return body
