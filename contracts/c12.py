"""C12 -- binary-to-text encodings are exact inverses and match their alphabets."""
import z3

from pyvc.contract import BytesOfLen, Const, Contract, Int, Lemma, Obj, UF
from pyvc.runner import Bounded
from pyvc.symexec import RaiseSig, exc_class
from pyvc.values import SExc, SInt, SList, SSeq, SStub

from pyvc.replay import py_replay  # noqa: E402

_B = """
from passlib.utils.binary import h64, h64big
def ref_enc(v, bits, big, cm):
    pad = -bits % 6; n = (bits + pad) // 6
    if big: v <<= pad; ds = [(v >> (6 * (n - 1 - k))) & 63 for k in range(n)]
    else: ds = [(v >> (6 * k)) & 63 for k in range(n)]
    return bytes(cm[d] for d in ds)
"""


def _int_replay(bits, big):
    eng = "h64big" if big else "h64"
    return py_replay(_B, f"r = {eng}.encode_int{bits}(V['value'])",
                     f"(isinstance(exc, ValueError) if not (0 <= V['value'] < 2**{bits}) else (exc is None and r == ref_enc(V['value'], {bits}, {big}, {eng}.bytemap) and {eng}.decode_int{bits}(r) == V['value']))",
                     {"value": 2**bits}, search=lambda seed: [{"value": v} for v in (0, 1, 63, 64, 4095, 4096, 2**bits - 1, 2**bits, 2**bits + 5, 2**(bits + 4) - 1, -1, seed.get("value") or 0)])


LEVEL = "proof"
B = "passlib/utils/binary.py"
LB = "libpass/_utils/binary.py"
EXPLANATION = (
    "The four chunk codecs of Base64Engine (and libpass' two encoders) are executed symbolically from their real "
    "source for every shape chunks in {0,1,2} x tail in {0,1,2} (resp. {0,2,3}) over fully symbolic bytes/sextets and "
    "compared with the 24-bit-group definition; fixed-width integer codecs (6/12/24/30/64 bits, both endiannesses) are "
    "verified for all integers incl. range and length refusals; group and integer round-trip lemmas close the inverse. "
    "encode/decode_transposed_bytes are proved to move byte k to / from offsets[k] for every shipped table (all permutations: finite); "
    "check_repair_unused is executed from its real text on every final character x length class x str/bytes for the three engines."
)
ASSUMPTIONS = [
    "stream-map meta-rule: an iteration of the chunk loops depends only on the values it reads (checked: 2-chunk shapes "
    "agree with the per-chunk definition), so the per-shape proofs extend to every chunk count",
    "charmap layer abstract: _encode64 = enc: [0,64) -> byte, _decode64 = dec with KeyError outside the alphabet, dec(enc(i)) == i "
    "(checked for the shipped charmaps by the bounded stand-in)",
    "b64s/ab64/b32 wrappers over binascii/base64: bounded stand-in only",
]

enc_f = z3.Function("enc64", z3.IntSort(), z3.IntSort())
dec_f = z3.Function("dec64", z3.IntSort(), z3.IntSort())
valid_f = z3.Function("in_alphabet", z3.IntSort(), z3.BoolSort())


def _enc(it, args, kwargs):
    i = it.to_z3(args[0], "int")
    if not it.spec:
        it.may_raise("IndexError", z3.And(i >= 0, i < 64))
    it.run.assume(z3.And(enc_f(i) >= 0, enc_f(i) < 256))
    return SInt(enc_f(i))


def _dec(it, args, kwargs):
    c = it.to_z3(args[0], "int")
    if not it.spec:
        it.may_raise("KeyError", valid_f(c))
    it.run.assume(z3.And(dec_f(c) >= 0, dec_f(c) < 64))
    return SInt(dec_f(c))


ENC = SStub(_enc, "_encode64", trusted="charmap.__getitem__")
DEC = SStub(_dec, "_decode64", trusted="lookup.__getitem__")


def _next_value(hi):
    def call(it, args, kwargs):
        v = z3.Int(it.run.fresh("in"))
        it.run.assume(z3.And(v >= 0, v < hi))
        it.run.ghost.setdefault("in", []).append(v)
        return SInt(v)

    return SStub(call, "next_value", trusted="iterator over the source bytes")


# ---- the definition (oracle): 24-bit groups ------------------------------------------------
def enc_group(bs, big):
    """sextets of 1..3 bytes by the 24-bit group definition"""
    n = len(bs)
    if big:
        g = sum(b * 2 ** (16 - 8 * k) for k, b in enumerate(bs))
        return [(g / 2 ** (18 - 6 * k)) % 64 for k in range(n + 1)]
    g = sum(b * 2 ** (8 * k) for k, b in enumerate(bs))
    return [(g / 2 ** (6 * k)) % 64 for k in range(n + 1)]


def dec_group(ds, big):
    """bytes of 2..4 sextets by the same definition (unused low/high bits ignored)"""
    n = len(ds)
    if big:
        g = sum(d * 2 ** (18 - 6 * k) for k, d in enumerate(ds))
        return [(g / 2 ** (16 - 8 * k)) % 256 for k in range(n - 1)]
    g = sum(d * 2 ** (6 * k) for k, d in enumerate(ds))
    return [(g / 2 ** (8 * k)) % 256 for k in range(n - 1)]


def _stream_spec(group_fn, per_in, big, chunks, tail):
    def ensures(it, env):
        ins = it.run.ghost.get("in", [])
        want = []
        pos = 0
        for _ in range(chunks):
            want += group_fn(ins[pos : pos + per_in], big)
            pos += per_in
        if tail:
            want += group_fn(ins[pos : pos + tail], big)
            pos += tail
        res = it.resolve(env.lookup("result"))
        got = it.static_items_req(res)
        if len(got) != len(want) or pos != len(ins):
            return False
        return z3.And(*[it.to_z3(g, "int") == w for g, w in zip(got, want)]) if got else True

    return ensures


CONTRACTS = []
for relpath, qual, per_in, big, group_fn, hi, tails, has_self in [
    (B, "Base64Engine._encode_bytes_little", 3, False, enc_group, 256, (0, 1, 2), True),
    (B, "Base64Engine._encode_bytes_big", 3, True, enc_group, 256, (0, 1, 2), True),
    (B, "Base64Engine._decode_bytes_little", 4, False, dec_group, 64, (0, 2, 3), True),
    (B, "Base64Engine._decode_bytes_big", 4, True, dec_group, 64, (0, 2, 3), True),
    (LB, "_encode_bytes_little", 3, False, enc_group, 256, (0, 1, 2), False),
    (LB, "_encode_bytes_big", 3, True, enc_group, 256, (0, 1, 2), False),
]:
    for chunks in (0, 1, 2):
        for tail in tails:
            params = {"next_value": _next_value(hi), "chunks": Const(chunks), "tail": Const(tail)}
            if has_self:
                params = {"self": Obj(), **params}
            CONTRACTS.append(Contract(
                f"{qual.split('.')[-1]}[{relpath.split('/')[0]} chunks={chunks} tail={tail}]", f"{relpath}::{qual}",
                params=params,
                ensures=[("yielded values == 24-bit group definition of the values read (all read, none extra)", _stream_spec(group_fn, per_in, big, chunks, tail))],
                descr="all byte / sextet values",
            ))


# ---- fixed-width integers --------------------------------------------------------------------
def int_digits(v, bits, big):
    pad = -bits % 6
    n = (bits + pad) // 6
    if big:
        v = v * 2**pad
        return [(v / 2 ** (6 * (n - 1 - k))) % 64 for k in range(n)]
    return [(v / 2 ** (6 * k)) % 64 for k in range(n)]


def int_value(cs, bits, big):
    pad = -bits % 6
    n = len(cs)
    if big:
        return sum(dec_f(c) * 2 ** (6 * (n - 1 - k)) for k, c in enumerate(cs)) / 2**pad
    return sum(dec_f(c) * 2 ** (6 * k) for k, c in enumerate(cs)) % 2**bits


def _enc_int_spec(bits, big):
    def ensures(it, env):
        v = it.to_z3(env.lookup("value"), "int")
        want = it.intseq_of([SInt(enc_f(d)) for d in int_digits(v, bits, big)])
        return it.cmp_vals("==", env.lookup("result"), SSeq(want, "bytes"))

    return ensures


def _dec_int_spec(bits, big):
    def ensures(it, env):
        src = it.resolve(env.lookup("source"))
        cs = [it.to_z3(x, "int") for x in src.items]
        return it.cmp_vals("==", env.lookup("result"), SInt(int_value(cs, bits, big)))

    return ensures


def _all_valid(it, env):
    src = it.resolve(env.lookup("source"))
    return z3.And(*[valid_f(it.to_z3(x, "int")) for x in src.items]) if src.items else True


for big in (False, True):
    eng = Obj(cls=(B, "Base64Engine"), fields={"big": Const(big)}, methods={"_encode64": ENC, "_decode64": DEC})
    for bits, fn in ((12, "encode_int12"), (24, "encode_int24"), (30, "encode_int30"), (64, "encode_int64")):
        CONTRACTS.append(Contract(
            f"{fn}[big={big}]", f"{B}::Base64Engine.{fn}",
            params={"self": eng, "value": Int()},
            raises_iff={"ValueError": f"value < 0 or value > {2**bits - 1}"},
            ensures=[(f"result == enc64 of the {bits}-bit digits in the engine's order", _enc_int_spec(bits, big))],
            replay=_int_replay(bits, big),
            descr="all integers",
        ))
    for bits, fn, n in ((12, "decode_int12", 2), (24, "decode_int24", 4), (30, "decode_int30", 5), (64, "decode_int64", 11)):
        for ln in (n - 1, n, n + 1):
            c = Contract(
                f"{fn}[big={big} len={ln}]", f"{B}::Base64Engine.{fn}",
                params={"self": eng, "source": BytesOfLen(ln)},
                raises={"ValueError": (lambda it, env: z3.Not(it.to_zbool(_all_valid(it, env)))) if ln == n else None},
                ensures=[("length accepted only when exact", str(ln == n)), (f"result == sum of dec64 digits ({bits} bits)", _dec_int_spec(bits, big) if ln == n else "True"), ("every character is in the alphabet", _all_valid)],
                descr="all byte strings of this length",
            )
            CONTRACTS.append(c)


# ---- lemmas over the definitions (no code): groups and integers are inverse ---------------------
def _group_roundtrip():
    # the definitions are polymorphic in the number type; on 32-bit vectors (all intermediate values are
    # below 2^24 under the range preconditions, so no wrap-around) the solver bit-blasts them at once,
    # whereas the same statements over Int take z3 > 30 s (cvc5 ~10 s).
    out = []
    b = z3.BitVecs("b0 b1 b2", 32)
    for big in (False, True):
        for n in (1, 2, 3):
            bs = list(b[:n])
            pre = [z3.And(x >= 0, x < 256) for x in bs]
            ds = enc_group(bs, big)
            back = dec_group(ds, big)
            out.append((f"dec_group(enc_group(b)) == b [{n} bytes, big={big}]", pre, z3.And(*[x == y for x, y in zip(back, bs)])))
            out.append((f"enc_group digits < 64, unused bits zero [{n} bytes, big={big}]", pre, z3.And(*[z3.And(d >= 0, d < 64) for d in ds])))
    d = z3.BitVecs("d0 d1 d2 d3", 32)
    for big in (False, True):
        ds = list(d)
        pre = [z3.And(x >= 0, x < 64) for x in ds]
        out.append((f"enc_group(dec_group(d)) == d [4 sextets, big={big}]", pre, z3.And(*[x == y for x, y in zip(enc_group(dec_group(ds, big), big), ds)])))
    return out


def _int_roundtrip():
    """decode(encode(v)) == v.  z3 does not see through a dozen nested div/mod by itself, so the argument is
    split: (a) each link of the division chain q_k == q_k % 64 + 64 * q_(k+1), q_k = w div 64^k, is proved alone;
    (b) the round trip is proved with exactly those links as hypotheses."""
    out = []
    v = z3.Int("v")
    for big in (False, True):
        for bits in (6, 12, 24, 30, 64):
            pad = -bits % 6
            n = (bits + pad) // 6
            w = v * 2**pad if big else v
            q = [w / (64**k) for k in range(n + 1)]
            links = [q[k] == q[k] % 64 + 64 * q[k + 1] for k in range(n)]
            rng = [v >= 0, v < 2**bits]
            for k, link in enumerate(links):
                out.append((f"chain link {k} [bits={bits}, big={big}]", rng, link))
            out.append((f"top quotient is zero [bits={bits}, big={big}]", rng, q[n] == 0))
            digs = int_digits(v, bits, big)
            cs = [enc_f(dg) for dg in digs]
            pre = rng + links + [q[n] == 0, q[0] == w] + [dec_f(enc_f(dg)) == dg for dg in digs]
            out.append((f"decode_int{bits}(encode_int{bits}(v)) == v [big={big}]", pre, int_value(cs, bits, big) == v))
    return out


LEMMAS = [
    Lemma("group-roundtrip", _group_roundtrip, "24-bit group definition: decode . encode = id on 1..3 bytes, encode . decode = id on 4 sextets"),
    Lemma("int-roundtrip", _int_roundtrip, "integer codecs: decode . encode = id on the full range given dec64(enc64(i)) == i"),
]

from contracts import c12_extra  # noqa: E402

CONTRACTS += c12_extra.CONTRACTS
FINITE = c12_extra.FINITE
BOUNDED = [Bounded("c12", "harness/c12.py", descr="real engines on every 1-,2-(,3-)byte group and random strings vs base64 under alphabet translation")]

MUTANTS = [
    ("encode little: wrong shift", B, "            yield ((v3 & 0x03) << 4) | (v2 >> 4)\n            yield v3 >> 2\n            idx += 1\n        if tail:\n            v1 = next_value()\n            if tail == 1:\n                # note: 4 msb", "            yield ((v3 & 0x03) << 4) | (v2 >> 3)\n            yield v3 >> 2\n            idx += 1\n        if tail:\n            v1 = next_value()\n            if tail == 1:\n                # note: 4 msb", "refute"),
    ("decode big: tail mask", B, "                yield ((v2 & 0xF) << 4) | (v3 >> 2)\n\n    # padmap2/3", "                yield ((v2 & 0x7) << 4) | (v3 >> 2)\n\n    # padmap2/3", "refute"),
    ("encode_int24: range check too wide", B, "        if value < 0 or value > 0xFFFFFF:\n", "        if value < 0 or value > 0xFFFFFFF:\n", "refute"),
    ("encode_int12: second digit shift", B, "        raw = [value & 0x3F, (value >> 6) & 0x3F]\n", "        raw = [value & 0x3F, (value >> 5) & 0x3F]\n", "refute"),
    ("decode_int12: big order swapped", B, "                return decode(source[1]) + (decode(source[0]) << 6)\n", "                return decode(source[0]) + (decode(source[1]) << 6)\n", "refute"),
    ("_decode_int: pad shift dropped", B, "            if big:\n                out >>= pad\n", "            if big:\n                out >>= 0\n", "refute"),
    ("_encode_int: little-endian range step", B, "            itr = range(0, bits, 6)\n", "            itr = range(0, bits - 6, 6)\n", "refute"),
    ("libpass encode big tail", LB, "            yield v1 >> 2\n            yield (v1 & 0x03) << 4\n", "            yield v1 >> 2\n            yield (v1 & 0x03) << 2\n", "refute"),
    ("harmless: temporaries", B, "            yield v1 & 0x3F\n            yield ((v2 & 0x0F) << 2) | (v1 >> 6)\n            yield ((v3 & 0x03) << 4) | (v2 >> 4)\n            yield v3 >> 2\n            idx += 1\n", "            first = v1 & 0x3F\n            yield first\n            yield (v1 >> 6) | ((v2 & 0x0F) << 2)\n            yield ((v3 & 0x03) << 4) | (v2 >> 4)\n            yield v3 >> 2\n            idx = idx + 1\n", "hold"),
    ("decode_transposed_bytes writes byte k to position k instead of offsets[k]", B, "        for off, char in zip(offsets, tmp):\n            buf[off] = char", "        for off, char in zip(sorted(offsets), tmp):\n            buf[off] = char", "refute", "decode_transposed"),
    ("encode_transposed_bytes reads source in order", B, "        tmp = bytes(source[off] for off in offsets)", "        tmp = bytes(source[off] for off in sorted(offsets))", "refute", "encode_transposed"),
    ("_padinfo2: little-endian mask shifted by one", B, "        bits = 15 if self.big else (15 << 2)", "        bits = 15 if self.big else (15 << 1)", "refute", "repair-unused"),
    ("_padinfo3: big-endian engines clear one bit only", B, "        bits = 3 if self.big else (3 << 4)", "        bits = 1 if self.big else (3 << 4)", "refute", "repair-unused"),
    ("check_repair_unused: length 1 mod 4 returned unchanged", B, "        elif not tail:\n            return False, source\n        else:\n            raise ValueError(\"source length must != 1 mod 4\")", "        else:\n            return False, source", "refute", "repair-unused"),
    ("libpass ab64_decode: '.' not mapped", "libpass/_utils/deprecated.py", "    return b64s_decode(data.replace(b\".\", b\"+\"))", "    return b64s_decode(data)", "refute", "ab64_decode.libpass"),
]
