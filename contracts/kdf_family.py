"""Parameter plumbing of the PBKDF-based formats (C02): each format's checksum routine hands the published tuple
(PRF, password, salt, iterations, key length) to the KDF -- the KDF itself is abstract here (hashlib's PBKDF2 is foreign
code compared by the stand-in; pbkdf1 has its own contract).  These are the places where "one round short", "wrong key
length", "salt and password swapped" or "the other digest" would hide: every argument is pinned.

  pbkdf2_<digest>          PBKDF2(digest, pw, salt, rounds, checksum_size)
  cta_pbkdf2_sha1          PBKDF2(sha1, pw, salt, rounds, 20)
  dlitz_pbkdf2_sha1        ab64(PBKDF2(sha1, pw, CONFIG STRING as salt, rounds, 24))
  atlassian_pbkdf2_sha1    PBKDF2(sha1, pw, salt, 10000, 32)
  grub_pbkdf2_sha512       PBKDF2(sha512, pw, salt, rounds, 64)
  django_pbkdf2_*          b64(PBKDF2(digest, pw, salt, rounds, native size))
  fshp                     PBKDF1(alg, secret = SALT, salt = PASSWORD, rounds, size)   (FSHP's published reversal)
  scram.derive_digest      PBKDF2(alg, SASLprep(pw), salt, rounds, native size)
  digest.pbkdf2_hmac       hashlib.pbkdf2_hmac(lookup_hash(digest).name, utf8(secret), utf8(salt), rounds, keylen)
"""
import z3

from pyvc.contract import Bytes, Const, Contract, Int, Obj, Str
from pyvc.values import SInt, SObj, SStr, SStub

S = z3.StringSort()
PBK = z3.Function("pbkdf2_hmac", S, S, S, z3.IntSort(), z3.IntSort(), S)
ENC = z3.Function("b64-like encoder", S, S)
PREP = z3.Function("saslprep", S, S)
NONE_LEN = -1  # keylen=None ("native digest size") in the abstract KDF


def _kdf(it, a, k):
    a = list(a)
    names = ["digest", "secret", "salt", "rounds", "keylen"]
    vals = dict(zip(names, a))
    vals.update(k)
    g = it.run.ghost
    g["kdf_calls"] = g.get("kdf_calls", 0) + 1
    keylen = it.resolve(vals.get("keylen"))
    kl = z3.IntVal(NONE_LEN) if keylen is None else it.to_z3(keylen, "int")
    g["kdf_kinds"] = (getattr(it.resolve(vals["secret"]), "kind", None), getattr(it.resolve(vals["salt"]), "kind", None))
    return SStr(PBK(it.to_z3(vals["digest"]), it.to_z3(vals["secret"]), it.to_z3(vals["salt"]), it.to_z3(vals["rounds"], "int"), kl), "bytes")


def _enc(name):
    def f(it, a, k):
        r = SStr(ENC(it.to_z3(a[0])), "bytes")
        it.run.assume(it.all_codes_below(r.e, 128))
        return r
    return SStub(f, name, trusted="C12: encoder under its own contract; uninterpreted here")


def _field(it, env, name, kind=None):
    return it.to_z3(it.resolve(env.lookup("self")).fields[name], kind) if kind else it.to_z3(it.resolve(env.lookup("self")).fields[name])


def _post(digest, salt, rounds, keylen, wrap=None):
    def post(it, env):
        g = it.run.ghost
        d = z3.StringVal(digest) if isinstance(digest, str) else digest(it, env)
        s = salt(it, env)
        r = z3.IntVal(rounds) if isinstance(rounds, int) else rounds(it, env)
        kl = z3.IntVal(keylen) if isinstance(keylen, int) else keylen(it, env)
        want = PBK(d, it.to_z3(env.lookup("secret")), s, r, kl)
        if wrap is not None:
            want = wrap(want)
        return z3.And(z3.BoolVal(g.get("kdf_calls") == 1), it.to_z3(env.lookup("result")) == want)
    return post


def _replay(setup, call, ref, defaults, search=None):
    from pyvc.replay import py_replay
    return py_replay("import hashlib, base64\n" + setup, f"r = ({call}, {ref})", "exc is None and r[0] == r[1]", defaults, search=search)


def _pw_search(values):
    return [dict(values, secret=s) for s in ("", "a", "password", "x" * 65, "éÿ")]


P = "passlib/handlers/pbkdf2.py"
DJ = "passlib/handlers/django.py"
G = {"pbkdf2_hmac": SStub(_kdf, "pbkdf2_hmac", trusted="PBKDF2 (RFC 2898) over the named PRF: abstract; hashlib is foreign code (stand-in)")}
self_salt = lambda it, env: _field(it, env, "salt")  # noqa: E731
self_rounds = lambda it, env: _field(it, env, "rounds", "int")  # noqa: E731


def contracts(prop):
    out = []
    out.append(Contract(
        "Pbkdf2DigestHandler._calc_checksum", f"{P}::Pbkdf2DigestHandler._calc_checksum",
        params={"self": Obj(fields={"_digest": Str(), "salt": Bytes(), "rounds": Int(1, 4294967295), "checksum_size": Int(1, 1024)}), "secret": Bytes()},
        globals=dict(G),
        ensures=[("checksum == PBKDF2-HMAC-<class digest>(password, salt, rounds, checksum_size)",
                  _post(lambda it, env: _field(it, env, "_digest"), self_salt, self_rounds, lambda it, env: _field(it, env, "checksum_size", "int")))],
        replay=_replay("from passlib.hash import pbkdf2_sha256, pbkdf2_sha512, pbkdf2_sha1",
                       "[h(salt=b'saltsalt', rounds=7, use_defaults=True)._calc_checksum(V['secret'].encode('latin-1')) for h in (pbkdf2_sha1, pbkdf2_sha256, pbkdf2_sha512)]",
                       "[hashlib.pbkdf2_hmac(n, V['secret'].encode('latin-1'), b'saltsalt', 7, k) for n, k in (('sha1', 20), ('sha256', 32), ('sha512', 64))]", {"secret": "password"}, _pw_search),
        prop=prop, descr="any digest name, password, salt, rounds and checksum size; PBKDF2 abstract",
    ))
    out.append(Contract(
        "cta_pbkdf2_sha1._calc_checksum", f"{P}::cta_pbkdf2_sha1._calc_checksum",
        params={"self": Obj(fields={"salt": Bytes(), "rounds": Int(1, 4294967295)}), "secret": Bytes()},
        globals=dict(G),
        ensures=[("checksum == PBKDF2-HMAC-SHA1(password, salt, rounds, 20)", _post("sha1", self_salt, self_rounds, 20))],
        replay=_replay("from passlib.hash import cta_pbkdf2_sha1 as h", "h(salt=b'saltsalt', rounds=7, use_defaults=True)._calc_checksum(V['secret'].encode('latin-1'))",
                       "hashlib.pbkdf2_hmac('sha1', V['secret'].encode('latin-1'), b'saltsalt', 7, 20)", {"secret": "password"}, _pw_search),
        prop=prop, descr="any password, salt, rounds; PBKDF2 abstract",
    ))
    out.append(Contract(
        "atlassian_pbkdf2_sha1._calc_checksum", f"{P}::atlassian_pbkdf2_sha1._calc_checksum",
        params={"self": Obj(fields={"salt": Bytes()}), "secret": Bytes()},
        globals=dict(G),
        ensures=[("checksum == PBKDF2-HMAC-SHA1(password, salt, 10000, 32)", _post("sha1", self_salt, 10000, 32))],
        replay=_replay("from passlib.hash import atlassian_pbkdf2_sha1 as h", "h(salt=b'0123456789abcdef', use_defaults=True)._calc_checksum(V['secret'].encode('latin-1'))",
                       "hashlib.pbkdf2_hmac('sha1', V['secret'].encode('latin-1'), b'0123456789abcdef', 10000, 32)", {"secret": "password"}, _pw_search),
        prop=prop, descr="any password and salt; PBKDF2 abstract",
    ))
    out.append(Contract(
        "grub_pbkdf2_sha512._calc_checksum", f"{P}::grub_pbkdf2_sha512._calc_checksum",
        params={"self": Obj(fields={"salt": Bytes(), "rounds": Int(1, 4294967295)}), "secret": Bytes()},
        globals=dict(G),
        ensures=[("checksum == PBKDF2-HMAC-SHA512(password, salt, rounds, 64)", _post("sha512", self_salt, self_rounds, 64))],
        replay=_replay("from passlib.hash import grub_pbkdf2_sha512 as h", "h(salt=b'saltsalt', rounds=7, use_defaults=True)._calc_checksum(V['secret'].encode('latin-1'))",
                       "hashlib.pbkdf2_hmac('sha512', V['secret'].encode('latin-1'), b'saltsalt', 7, 64)", {"secret": "password"}, _pw_search),
        prop=prop, descr="any password, salt, rounds; PBKDF2 abstract",
    ))
    # dlitz: the SALT handed to PBKDF2 is the configuration string itself ($p5k2$<rounds hex>$<salt>), as published
    CFG = z3.String("dlitz config string")
    g_dlitz = dict(G)
    g_dlitz["ab64_encode"] = _enc("ab64_encode")
    out.append(Contract(
        "dlitz_pbkdf2_sha1._calc_checksum", f"{P}::dlitz_pbkdf2_sha1._calc_checksum",
        params={"self": Obj(fields={"salt": Str(), "rounds": Int(1, 4294967295), "_get_config": SStub(lambda it, a, k: SStr(CFG, "str"), "_get_config", trusted="own code (render_mc3: C07)")}), "secret": Bytes()},
        globals=g_dlitz,
        ensures=[("checksum == ab64(PBKDF2-HMAC-SHA1(password, salt = the configuration string, rounds, 24))", _post("sha1", lambda it, env: CFG, self_rounds, 24, wrap=ENC))],
        replay=_replay("from passlib.hash import dlitz_pbkdf2_sha1 as h\nfrom passlib.utils.binary import ab64_encode",
                       "h(salt='saltsalt', rounds=V['rounds'], use_defaults=True)._calc_checksum(V['secret'].encode('latin-1'))",
                       "ab64_encode(hashlib.pbkdf2_hmac('sha1', V['secret'].encode('latin-1'), ('$p5k2$%s$saltsalt' % ('' if V['rounds'] == 400 else '%x' % V['rounds'])).encode('ascii'), V['rounds'], 24)).decode('ascii')",
                       {"secret": "password", "rounds": 7}, lambda v: [dict(v, rounds=r) for r in (7, 400, 401)]),
        prop=prop, descr="any password, rounds; configuration rendering and ab64 abstract",
    ))
    g_dj = dict(G)
    g_dj["b64encode"] = _enc("b64encode")
    out.append(Contract(
        "django_pbkdf2_sha256._calc_checksum", f"{DJ}::django_pbkdf2_sha256._calc_checksum",
        params={"self": Obj(fields={"_digest": Str(), "salt": Str(), "rounds": Int(1, 4294967295)}), "secret": Bytes()},
        globals=g_dj,
        ensures=[("checksum == base64(PBKDF2-HMAC-<class digest>(password, salt, rounds, native digest size)) without trailing white space",
                  lambda it, env: z3.And(z3.BoolVal(it.run.ghost.get("kdf_calls") == 1),
                                         it.to_z3(env.lookup("result")) == it.to_z3(_rstrip_spec(it, SStr(ENC(PBK(_field(it, env, "_digest"), it.to_z3(env.lookup("secret")), _field(it, env, "salt"), _field(it, env, "rounds", "int"), z3.IntVal(NONE_LEN))), "bytes")))))],
        replay=_replay("from passlib.hash import django_pbkdf2_sha256 as a, django_pbkdf2_sha1 as b",
                       "[h(salt='saltsalt', rounds=7, use_defaults=True)._calc_checksum(V['secret'].encode('latin-1')) for h in (a, b)]",
                       "[base64.b64encode(hashlib.pbkdf2_hmac(n, V['secret'].encode('latin-1'), b'saltsalt', 7)).decode('ascii') for n in ('sha256', 'sha1')]", {"secret": "password"}, _pw_search),
        prop=prop, descr="any digest name, password, salt, rounds; PBKDF2 and base64 abstract",
    ))

    # ---- fshp: PBKDF1 with password and salt REVERSED (FSHP's published deviation) ----
    PB1 = z3.Function("pbkdf1", S, S, S, z3.IntSort(), z3.IntSort(), S)

    def pb1(it, a, k):
        it.run.ghost["pb1_positional"] = len(a)
        vals = dict(zip(["digest", "secret", "salt", "rounds", "keylen"], a))
        vals.update(k)
        return SStr(PB1(it.to_z3(vals["digest"]), it.to_z3(vals["secret"]), it.to_z3(vals["salt"]), it.to_z3(vals["rounds"], "int"), it.to_z3(vals["keylen"], "int")), "bytes")

    out.append(Contract(
        "fshp._calc_checksum", "passlib/handlers/fshp.py::fshp._calc_checksum",
        params={"self": Obj(fields={"checksum_alg": Str(), "checksum_size": Int(1, 64), "salt": Bytes(), "rounds": Int(1, 4294967295)}), "secret": Bytes()},
        globals={"pbkdf1": SStub(pb1, "pbkdf1", trusted="own contract (C11/C02): RFC 2898 PBKDF1 over an abstract hash")},
        ensures=[("checksum == PBKDF1(variant digest, secret = the SALT, salt = the PASSWORD, rounds, variant size)",
                  lambda it, env: it.to_z3(env.lookup("result")) == PB1(_field(it, env, "checksum_alg"), _field(it, env, "salt"), it.to_z3(env.lookup("secret")), _field(it, env, "rounds", "int"), _field(it, env, "checksum_size", "int")))],
        replay=_replay("from passlib.hash import fshp\ndef ref(pw, salt, rounds, name, size):\n    d = hashlib.new(name, salt + pw).digest()\n    for _ in range(rounds - 1):\n        d = hashlib.new(name, d).digest()\n    return d[:size]",
                       "[fshp(variant=v, salt=b'saltsalt', rounds=5, use_defaults=True)._calc_checksum(V['secret'].encode('latin-1')) for v in (0, 1, 2, 3)]",
                       "[ref(V['secret'].encode('latin-1'), b'saltsalt', 5, n, k) for n, k in (('sha1', 20), ('sha256', 32), ('sha384', 48), ('sha512', 64))]", {"secret": "password"}, _pw_search),
        prop=prop, descr="any variant digest / size, password (bytes), salt, rounds; PBKDF1 abstract",
    ))
    # ---- scram: SaltedPassword := Hi(Normalize(password), salt, i) ----
    out.append(Contract(
        "scram.derive_digest", "passlib/handlers/scram.py::scram.derive_digest",
        params={"cls": Obj(cls=("passlib/handlers/scram.py", "scram"), is_class=True), "password": Str(), "salt": Bytes(), "rounds": Int(1, 4294967295), "alg": Str()},
        globals={"pbkdf2_hmac": G["pbkdf2_hmac"], "saslprep": SStub(lambda it, a, k: SStr(PREP(it.to_z3(a[0])), "str"), "saslprep", trusted="RFC 4013 profile: bounded stand-in (C11)")},
        ensures=[("SaltedPassword == PBKDF2-HMAC-<alg>(SASLprep(password), salt, rounds, native digest size): the password is normalised exactly once, the salt is used raw",
                  lambda it, env: z3.And(z3.BoolVal(it.run.ghost.get("kdf_calls") == 1),
                                         it.to_z3(env.lookup("result")) == PBK(it.to_z3(env.lookup("alg")), PREP(it.to_z3(env.lookup("password"))), it.to_z3(env.lookup("salt")), it.to_z3(env.lookup("rounds"), "int"), z3.IntVal(NONE_LEN))))],
        replay=_replay("from passlib.hash import scram\nfrom passlib.utils import saslprep",
                       "[scram.derive_digest(V['secret'], b'saltsalt', 7, a) for a in ('sha-1', 'sha-256', 'sha-512')]",
                       "[hashlib.pbkdf2_hmac(n, saslprep(V['secret']).encode('utf-8'), b'saltsalt', 7) for n in ('sha1', 'sha256', 'sha512')]", {"secret": "password"},
                       lambda v: [dict(v, secret=s) for s in ("a", "password", "I\u00adX", "\u2168", "x" * 65)]),
        prop=prop, descr="any text password, salt, rounds, algorithm name; PBKDF2 and SASLprep abstract",
    ))
    # ---- crypto.digest.pbkdf2_hmac: the wrapper hands hashlib exactly (canonical name, utf-8 of text arguments, rounds, keylen) ----
    NAME = z3.Function("lookup_hash(digest).name", S, S)

    def to_bytes(it, a, k):
        v = it.resolve(a[0])
        if getattr(v, "kind", None) == "bytes" or isinstance(v, bytes):
            return v
        return it.m_text_encode(v, "utf-8")

    for kind, PT in (("bytes", Bytes()), ("text", Str())):
        out.append(Contract(
            f"digest.pbkdf2_hmac[{kind} secret and salt]", "passlib/crypto/digest.py::pbkdf2_hmac",
            params={"digest": Str(), "secret": PT, "salt": PT, "rounds": Int(), "keylen": Int()},
            globals={"to_bytes": SStub(to_bytes, "to_bytes", trusted="utils.to_bytes: bytes unchanged, text encoded as utf-8"),
                     "lookup_hash": SStub(lambda it, a, k: SObj("HashInfo", fields={"name": SStr(NAME(it.to_z3(a[0])), "str")}), "lookup_hash", trusted="digest registry (bounded stand-in)"),
                     "hashlib": SObj("hashlib", fields={"pbkdf2_hmac": G["pbkdf2_hmac"]})},
            raises={"UnicodeEncodeError": None},
            ensures=[("hashlib's PBKDF2 receives the canonical digest name, the password and salt as given (text as utf-8), the caller's rounds and key length -- once",
                      lambda it, env, _k=kind: z3.And(z3.BoolVal(it.run.ghost.get("kdf_calls") == 1), z3.BoolVal(it.run.ghost.get("kdf_kinds") == ("bytes", "bytes")),
                                                      it.to_z3(env.lookup("result")) == PBK(NAME(it.to_z3(env.lookup("digest"))), _u8(it, env.lookup("secret"), _k), _u8(it, env.lookup("salt"), _k), it.to_z3(env.lookup("rounds"), "int"), it.to_z3(env.lookup("keylen"), "int"))))],
            prop=prop, descr="any digest name, rounds, key length; hashlib and the digest registry abstract",
        ))
    return out


def _u8(it, v, kind):
    if kind == "bytes":
        return it.to_z3(v)
    was = it.spec
    it.spec = True
    try:
        return it.to_z3(it.m_text_encode(it.resolve(v), "utf-8"))
    finally:
        it.spec = was


def _rstrip_spec(it, v):
    was = it.spec
    it.spec = True
    try:
        return it.m_text_rstrip(v)
    finally:
        it.spec = was
