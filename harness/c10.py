"""Bounded stand-in for C10: export / import / copy / update of generated CryptContext configurations
(generator and policy oracle shared with c04.py) and invariance of the context under failed changes
(every kind of invalid change x position x way of loading; a custom hasher whose using() raises at call k).

Observed state of a context = to_dict(), to_string(), and its decisions: default scheme per category,
the configured hasher's cost window per (scheme, category), identify / needs_update on a probe set of hashes
at the window edges of every configured scheme plus junk strings.
"""
import hashlib
import os
import random
import sys
from contextlib import contextmanager

sys.path.insert(0, os.path.dirname(os.path.dirname(os.path.abspath(__file__))))

import c04  # noqa: E402
from common import Group, main, outcome  # noqa: E402
from specs import ctx_policy as P  # noqa: E402

CATS = [None, "admin", "staff", "nobody"]
WINDOW_ATTRS = ("min_desired_rounds", "max_desired_rounds", "default_rounds", "vary_rounds", "deprecated", "default_salt_size", "truncate_error")


class G(Group):
    """Group that remembers the case being evaluated (for the witness of an unexpected exception)"""

    last_case = None

    def case(self, ident, nontrivial=True):
        self.last_case = ident
        Group.case(self, ident, nontrivial)


@contextmanager
def guarded(g, section):
    """an exception escaping a call that the property says must succeed is a failure of that case, not a harness crash"""
    try:
        yield
    except Exception as err:  # noqa: BLE001
        import traceback

        tb = traceback.extract_tb(err.__traceback__)
        where = [f"{os.path.basename(fr.filename)}:{fr.lineno}" for fr in tb[-4:]]
        g.fail(f"crash:{section}:{type(err).__name__}", f"call raised unexpectedly: {err}"[:200], {"section": section, "trace": where, "case": repr(g.last_case)[:600]})


def state(ctx, hashes):
    """(to_dict, to_string, decisions)"""
    dec = []
    for cat in CATS:
        dec.append(("default", cat, ctx.default_scheme(category=cat)))
        for s in ctx.schemes():
            h = ctx.handler(s, cat)
            dec.append(("settings", cat, s) + tuple(getattr(h, a, None) for a in WINDOW_ATTRS))
        for hs in hashes:
            name = ctx.identify(hs, category=cat)
            try:
                nu = ctx.needs_update(hs, category=cat)
            except Exception as err:  # noqa: BLE001
                nu = type(err).__name__
            dec.append(("hash", cat, hs, name, nu))
    return ctx.to_dict(), ctx.to_string(), dec


def safe_state(ctx, hashes):
    """state(), or a marker state if the context can no longer answer at all"""
    try:
        return state(ctx, hashes)
    except Exception as err:  # noqa: BLE001
        return {"<context unusable>": f"{type(err).__name__}: {err}"[:120]}, "", []


def dict_diff(a, b):
    keys = sorted(k for k in set(a) | set(b) if a.get(k, "<absent>") != b.get(k, "<absent>"))
    return {k: [repr(a.get(k, "<absent>")), repr(b.get(k, "<absent>"))] for k in keys[:4]}


def first_diff(a, b):
    if a[0] != b[0]:
        return "to_dict", dict_diff(a[0], b[0])
    if a[1] != b[1]:
        return "to_string", [a[1][:300], b[1][:300]]
    for x, y in zip(a[2], b[2]):
        if x != y:
            return "decision", [repr(x), repr(y)]
    if len(a[2]) != len(b[2]):
        return "decision", "different number of decisions"
    return None


def loosen(d):
    """to_dict modulo the type of options the context does not interpret itself (rounds, truncate_error, ...)"""
    out = {}
    for k, v in d.items():
        cat, scheme, opt = P.parse_key(k)
        if scheme is not None and opt not in P.COERCED and opt != "vary_rounds":
            v = str(v)
        out[k] = v
    return out


def ini_of(kw):
    """INI text of a keyword dictionary (None if a value has no INI spelling)"""
    lines = ["[passlib]"]
    for k, v in kw.items():
        if isinstance(v, (list, tuple)):
            if not all(isinstance(x, str) for x in v):
                return None
            v = ", ".join(v)
        elif isinstance(v, bool) or not isinstance(v, (str, int, float)):
            return None
        lines.append(f"{k} = {str(v).replace('%', '%%')}")
    return "\n".join(lines) + "\n"


def make_custom(uh, name, prefix):
    class Custom(uh.StaticHandler):
        checksum_chars = uh.LOWER_HEX_CHARS
        checksum_size = 8
        _hash_prefix = prefix

        def _calc_checksum(self, secret):
            if isinstance(secret, str):
                secret = secret.encode("utf-8")
            return hashlib.md5(secret).hexdigest()[:8]

    Custom.name = name
    Custom.__name__ = name
    return Custom


def invalid_changes(cfg, kw, rng):
    """[(kind, change dict)] - every kind of invalid change, the offending item at every position"""
    schemes = cfg["schemes"]
    out = []
    for i in range(len(schemes) + 1):
        out.append((f"unknown-scheme@{i}", {"schemes": schemes[:i] + ["no_such_scheme"] + schemes[i:]}))
    out.append(("duplicate-scheme", {"schemes": schemes + [schemes[0]]}))
    out.append(("schemes-in-category", {"admin__context__schemes": list(schemes)}))
    for i, s in enumerate(schemes):
        out.append((f"unknown-option@{i}", {f"{s}__no_such_option": 1}))
        out.append((f"unknown-option-category@{i}", {f"staff__{s}__no_such_option": "x"}))
        out.append((f"forbidden-salt@{i}", {f"{s}__salt": "abcdabcd"}))
        if s not in c04.GRID:
            out.append((f"rounds-option-without-rounds@{i}", {f"{s}__min_rounds": 5}))
        else:
            v = c04.GRID[s]["vals"]
            out.append((f"vary-negative@{i}", {f"{s}__vary_rounds": -1}))
            out.append((f"vary-above-one@{i}", {f"admin__{s}__vary_rounds": 1.5}))
            out.append((f"vary-unparsable@{i}", {f"{s}__vary_rounds": "x%"}))
            out.append((f"min-above-max@{i}", {f"{s}__min_rounds": v[-1], f"{s}__max_rounds": v[0]}))
            out.append((f"min-above-max-category@{i}", {f"staff__{s}__min_rounds": v[-1], f"staff__{s}__max_rounds": v[0], f"staff__{s}__default_rounds": v[0]}))
            out.append((f"default-outside-window@{i}", {f"{s}__min_rounds": v[1], f"{s}__max_rounds": v[2], f"{s}__default_rounds": v[-1]}))
            out.append((f"number-unparsable@{i}", {f"{s}__min_rounds": "abc"}))
            out.append((f"number-wrong-type@{i}", {f"{s}__max_rounds": [v[0]]}))
            out.append((f"salt-size-wrong-type@{i}", {f"{s}__default_rounds": 1.5}))
    out += [
        ("unknown-context-key", {"no_such_key": 1}),
        ("unknown-context-key-category", {"admin__context__no_such_key": 1}),
        ("default-not-in-schemes", {"default": "no_such_scheme"}),
        ("default-not-in-schemes-registered", {"default": next(p for p in c04.POOL + ["hex_md5"] if p not in schemes)}),
        ("default-not-in-schemes-category", {"staff__context__default": "no_such_scheme"}),
        ("deprecated-default", {"default": schemes[-1], "deprecated": [schemes[-1]]}),
        ("deprecated-default-category", {"admin__context__default": schemes[0], "admin__context__deprecated": list(schemes)}),
        ("all-deprecated", {"deprecated": list(schemes), "admin__context__deprecated": list(schemes)}),
        ("deprecated-unknown", {"deprecated": ["no_such_scheme"]}),
        ("deprecated-unknown-category", {"staff__context__deprecated": [schemes[0], "no_such_scheme"]}),
        ("auto-plus-names", {"deprecated": ["auto", schemes[0]]}),
        ("schemes-wrong-type", {"schemes": 123}),
        ("scheme-element-wrong-type", {"schemes": list(schemes) + [5]}),
        ("default-wrong-type", {"default": 5}),
        ("deprecated-wrong-type", {"deprecated": 5}),
        ("deprecated-element-wrong-type", {"deprecated": [5]}),
        ("key-too-many-parts", {"a__b__c__d": 1}),
        ("key-empty-scheme", {"__min_rounds": 1}),
        ("key-empty-option", {f"{schemes[0]}__": 1}),
    ]
    return out


def embed(change, filler, pos):
    """the offending items at position pos (0 first, 1 middle, 2 last) among harmless changes"""
    items = [(k, v) for k, v in filler.items() if k not in change]
    bad = list(change.items())
    cut = {0: 0, 1: len(items) // 2, 2: len(items)}[pos]
    return dict(items[:cut] + bad + items[cut:])


def build(tier, rng):
    import passlib.utils.handlers as uh
    from passlib import hash as H
    from passlib.context import CryptContext

    thorough = tier != "quick"
    facts = c04.load_facts()
    c04.pin_library_rng(rng)
    probes = c04.Probes(facts)
    for n in c04.POOL:  # load the lazy backends before the snapshot of the global hashers
        probes.make(n, c04.GRID[n]["vals"][0] if n in c04.GRID else None)
    globals_before = {n: dict(vars(getattr(H, n))) for n in c04.POOL}
    groups = []

    def hashes_for(cfg, extra=()):
        try:
            return [h for _, _, h in probes.for_config(cfg)] + list(extra)
        except (P.Invalid, P.Ambiguous):  # a deliberately inconsistent configuration has no window edges
            return list(extra)

    def same_state(g, key, what, before, after, wit):
        d = first_diff(before, after)
        return g.check(d is None, key + (":" + d[0] if d else ""), what, dict(wit, differs=d))

    # =============================================================================================
    g = G(
        "export-import",
        "CryptContext.to_dict / to_string / from_string / copy / update({}) / load(update=True)",
        ("1500" if not thorough else "10000") + " generated configurations (as in C04: orders, default, deprecated, categories, string-typed numbers, percent / float vary_rounds, 'all' scheme) x {CryptContext(**to_dict()), to_dict(resolve=True), from_string(to_string()), to_string(section=...), copy(), update() / update({}) / load({}, update=True)}: equal to_dict (INI: modulo the type of uninterpreted options), equal to_string, equal decisions; to_dict equals the normalised input",
    )
    n_cfg = 1500 if not thorough else 10000
    for _ in range(n_cfg):
        with guarded(g, "export-import"):
            cfg, status = c04.gen_config(rng, facts, want_invalid=0)
            if status != "valid":
                continue
            kw = P.to_kwds(cfg)
            if rng.random() < 0.1:  # alternative key spellings
                kw = {(k.replace("__", ".") if k.count("__") == 2 and rng.random() < 0.5 else k): v for k, v in kw.items()}
            wit = {"kwds": kw}
            g.case(repr(kw))
            try:
                ctx = CryptContext(**kw)
            except Exception as err:  # noqa: BLE001
                g.fail(f"ctor:{type(err).__name__}", str(err)[:160], wit)
                continue
            hs = hashes_for(cfg)
            st = state(ctx, hs)
            want = P.normalized_kwds(kw)
            g.check(st[0] == want, "export:to_dict-is-not-the-input", "to_dict() differs from the (normalised) constructor keywords", dict(wit, differs=dict_diff(st[0], want)))
            variants = {
                "dict": lambda: CryptContext(**ctx.to_dict()),
                "dict-resolved": lambda: CryptContext(**ctx.to_dict(resolve=True)),
                "load-dict": lambda: _loaded(CryptContext, ctx.to_dict()),
                "copy": lambda: ctx.copy(),
                "using": lambda: ctx.using(),
                "load-context": lambda: _loaded(CryptContext, ctx),
            }
            for name, fn in variants.items():
                o = outcome(fn)
                if g.check(o[0] == "ok", f"reload:{name}:refused", "exported configuration refused on import", dict(wit, outcome=repr(o)[:200])):
                    same_state(g, f"reload:{name}", "re-imported context differs from the original", st, state(o[1], hs), wit)
            # INI
            o = outcome(CryptContext.from_string, st[1])
            if g.check(o[0] == "ok", "reload:ini:refused", "to_string() output refused by from_string()", dict(wit, ini=st[1], outcome=repr(o)[:200])):
                st2 = state(o[1], hs)
                same_state(g, "reload:ini", "context re-imported from INI text differs from the original", (loosen(st[0]), st[1], st[2]), (loosen(st2[0]), st2[1], st2[2]), wit)
            o = outcome(lambda: CryptContext.from_string(ctx.to_string(section="other"), section="other"))
            if g.check(o[0] == "ok", "reload:ini-section:refused", "custom section refused", dict(wit, outcome=repr(o)[:200])):
                g.check(loosen(o[1].to_dict()) == loosen(st[0]), "reload:ini-section", "custom section round trip differs", wit)
            # empty changes
            for name, fn in (("update()", lambda: ctx.update()), ("update({})", lambda: ctx.update({})), ("load({},update)", lambda: ctx.load({}, update=True)), ("update(**{})", lambda: ctx.update(**{}))):
                o = outcome(fn)
                g.check(o[0] == "ok", f"empty-change:{name}:raised", "empty change raised", dict(wit, outcome=repr(o)[:160]))
            same_state(g, "empty-change", "an empty change altered the context", st, state(ctx, hs), wit)
    groups.append(g)

    # =============================================================================================
    g = G("ini-value-rendering", "CryptContext._render_ini_value / _coerce_scheme_options", "directed: float vary_rounds with three decimals, integer-valued options the context does not coerce (rounds), booleans (truncate_error), percent signs, empty deprecated list, through to_string -> from_string: same to_dict")
    for key, kw in (
        ("ini-roundtrip:vary-rounds-precision", dict(schemes=["sha256_crypt"], sha256_crypt__vary_rounds=0.125)),
        ("ini-roundtrip:vary-rounds-precision", dict(schemes=["pbkdf2_sha256"], all__vary_rounds=0.005)),
        ("ini-roundtrip:uncoerced-option-type", dict(schemes=["sha256_crypt"], sha256_crypt__rounds=1500)),
        ("ini-roundtrip:uncoerced-option-type", dict(schemes=["des_crypt"], des_crypt__truncate_error=True)),
        ("ini-roundtrip:percent", dict(schemes=["sha256_crypt"], sha256_crypt__vary_rounds="10%")),
        ("ini-roundtrip:empty-list", dict(schemes=["md5_crypt", "des_crypt"], deprecated=["des_crypt"], admin__context__deprecated=[])),
        ("ini-roundtrip:salt-size", dict(schemes=["md5_crypt"], md5_crypt__salt_size="4")),
    ):
        with guarded(g, "ini-value-rendering"):
            ctx = CryptContext(**kw)
            o = outcome(CryptContext.from_string, ctx.to_string())
            g.case(repr(kw))
            if g.check(o[0] == "ok", key, "to_string() output refused", {"kwds": kw, "outcome": repr(o)[:160]}):
                a, b = ctx.to_dict(), o[1].to_dict()
                g.check(a == b and all(type(a[k]) is type(b[k]) for k in a), key, "to_dict() after to_string -> from_string differs from before (value or type of an option changed)", {"kwds": kw, "before": repr(a), "after": repr(b), "ini": ctx.to_string()})
    groups.append(g)

    # =============================================================================================
    g = G(
        "update-sequences",
        "CryptContext.update / load(update=True) / copy(**kwds)",
        ("300" if not thorough else "2000") + " generated configurations x sequences of 4 operations out of {update(**delta), update(dict), load(dict, update=True), copy(**delta), export+import as dict / INI, copy()} with deltas taken from a second generated configuration over the same schemes: exported configuration = previous overlaid with exactly the given keys; decisions = those of a context built directly from that dictionary; a refused delta leaves everything unchanged",
    )
    n_seq = 300 if not thorough else 2000
    for _ in range(n_seq):
        with guarded(g, "update-sequences"):
            cfg, status = c04.gen_config(rng, facts, want_invalid=0)
            if status != "valid":
                continue
            model = P.normalized_kwds(P.to_kwds(cfg))
            ctx = CryptContext(**P.to_kwds(cfg))
            trace = [("init", P.to_kwds(cfg))]
            for _step in range(4):
                cfg2, _ = c04.gen_config(rng, facts, schemes=cfg["schemes"], want_invalid=0.05)
                kw2 = P.to_kwds(cfg2)
                kw2.pop("schemes")
                keys = rng.sample(sorted(kw2), rng.randrange(1, min(4, len(kw2)) + 1)) if kw2 else []
                delta = {k: kw2[k] for k in keys}
                op = rng.choice(["update-kw", "update-dict", "load-update", "copy-kw", "via-dict", "via-ini", "copy"])
                trace.append((op, delta if "update" in op or op == "copy-kw" else None))
                g.case(repr(trace))
                wit = {"trace": trace}
                hs = hashes_for(cfg) + hashes_for(cfg2)
                if op in ("via-dict", "via-ini", "copy"):
                    new = {"via-dict": lambda: CryptContext(**ctx.to_dict()), "via-ini": lambda: CryptContext.from_string(ctx.to_string()), "copy": lambda: ctx.copy()}[op]()
                    g.check(loosen(new.to_dict()) == loosen(model), f"sequence:{op}", "exported configuration after the step differs from the model", dict(wit, differs=dict_diff(loosen(new.to_dict()), loosen(model))))
                    if op != "via-ini":
                        ctx = new
                    continue
                if not delta:
                    continue
                want = dict(model)
                want.update(P.normalized_kwds(delta))
                ref = outcome(lambda: CryptContext(**want))
                before = state(ctx, hs)
                if op == "copy-kw":
                    o = outcome(lambda: ctx.copy(**delta))
                    same_state(g, "sequence:copy-changed-original", "copy(**kwds) altered the original", before, state(ctx, hs), wit)
                    target = o[1] if o[0] == "ok" else None
                else:
                    o = outcome({"update-kw": lambda: ctx.update(**delta), "update-dict": lambda: ctx.update(delta), "load-update": lambda: ctx.load(delta, update=True)}[op])
                    target = ctx
                g.check((o[0] == "ok") == (ref[0] == "ok"), "sequence:accept-differs", "update accepted / refused differently from building the merged configuration directly", dict(wit, update=repr(o)[:160], direct=repr(ref)[:160]))
                if o[0] != "ok":
                    if op != "copy-kw":
                        same_state(g, "failed-update", "a refused update altered the context", before, state(ctx, hs), wit)
                    continue
                g.check(target.to_dict() == want, "sequence:replaces-exactly-given-keys", "configuration after update() is not the previous one overlaid with the given keys", dict(wit, differs=dict_diff(target.to_dict(), want)))
                if ref[0] == "ok":
                    same_state(g, "sequence:decisions", "updated context decides differently from one built from the merged configuration", state(ref[1], hs), state(target, hs), wit)
                if op != "copy-kw":
                    model = want
    groups.append(g)

    # =============================================================================================
    g = G(
        "failed-change",
        "CryptContext.load (build new _CryptConfig, then swap)",
        ("40" if not thorough else "200") + " generated configurations x every kind of invalid change (unknown scheme at every list position, duplicate scheme, unknown / forbidden / unsupported option on the scheme at every position and per category, unknown context key, default not configured, deprecated default, all deprecated, unknown deprecated, auto + names, vary_rounds <0 / >1 / unparsable, min above max, default outside window, unparsable / mistyped numbers, mistyped schemes / default / deprecated, malformed keys) x offending item first / middle / last among harmless changes x {update(**kw), update(dict), load(dict, update=True), load(full dict), load(full INI), copy(**kw)}: whenever the call raises, to_dict / to_string / decisions are those from before",
    )
    kinds_failed, kinds_accepted = set(), set()
    n_bad = 40 if not thorough else 200
    for _ in range(n_bad):
        with guarded(g, "failed-change"):
            cfg, status = c04.gen_config(rng, facts, want_invalid=0)
            if status != "valid":
                continue
            kw = P.to_kwds(cfg)
            kwr = repr(kw)
            ctx = CryptContext(**kw)
            hs = hashes_for(cfg)
            before = state(ctx, hs)
            cfg2, _ = c04.gen_config(rng, facts, schemes=cfg["schemes"], want_invalid=0)
            filler = {k: v for k, v in P.to_kwds(cfg2).items() if k != "schemes"}
            filler = dict(list(filler.items())[:3])
            for kind, change in invalid_changes(cfg, kw, rng):
                for pos in (0, 1, 2) if thorough or rng.random() < 0.34 else (rng.randrange(3),):
                    delta = embed(change, filler, pos)
                    full = dict(before[0])
                    full.update(delta)
                    ways = {
                        "update-kw": lambda: ctx.update(**delta),
                        "update-dict": lambda: ctx.update(delta),
                        "load-update": lambda: ctx.load(delta, update=True),
                        "load-full": lambda: ctx.load(full),
                        "copy-kw": lambda: ctx.copy(**delta),
                    }
                    ini = ini_of(full)
                    if ini is not None:
                        ways["load-ini"] = lambda: ctx.load(ini)
                        ini_d = ini_of(delta)
                        if ini_d is not None:
                            ways["load-ini-update"] = lambda: ctx.load(ini_d, update=True)
                    for way, fn in ways.items():
                        if not thorough and rng.random() < 0.5:
                            continue
                        o = outcome(fn)
                        g.case((kwr, kind, pos, way))
                        base_kind = kind.split("@")[0]
                        if o[0] == "exc":
                            kinds_failed.add(base_kind)
                            if not same_state(g, f"failed-change:{base_kind}", f"the context answers differently after a failed {way}", before, safe_state(ctx, hs), {"kwds": kw, "change": repr(delta), "way": way, "error": o[1:3]}):
                                ctx = CryptContext(**kw)
                        else:
                            kinds_accepted.add(base_kind)
                            if way != "copy-kw":  # the change went through: start again from the original configuration
                                ctx = CryptContext(**kw)
    groups.append(g)

    # =============================================================================================
    g = G(
        "raising-hasher",
        "CryptContext.load exception atomicity / _CryptConfig._init_records",
        "custom unregistered hashers passed as objects (export with resolve=True, copy, update); a custom hasher at every position of a 2..4 scheme context with two categories whose using() raises RuntimeError / ValueError / KeyError / TypeError at its k-th call, k = 1..n+1 (n = calls of a successful load), during update(), load(full), copy(**kw): on failure context state, the other schemes' global hashers and the custom class unchanged; at k = n+1 the change is applied",
    )

    class Fuse:
        left = None  # None: disarmed
        exc = RuntimeError
        calls = 0

    def make_boom(name, prefix):
        base = make_custom(uh, name, prefix)

        class Boom(base):
            @classmethod
            def using(cls, **kwds):
                Fuse.calls += 1
                if Fuse.left is not None:
                    Fuse.left -= 1
                    if Fuse.left == 0:
                        if Fuse.exc is TypeError:
                            raise TypeError("using() got an unexpected keyword argument 'min_rounds'")
                        raise Fuse.exc("boom")
                return super().using(**kwds)

        Boom.name = name
        Boom.__name__ = name
        return Boom

    Boom = make_boom("boom_hash", "@boom@")
    Plain = make_custom(uh, "plain_custom", "@plain@")
    boom_hash, plain_hash = Boom.hash(c04.PW), Plain.hash(c04.PW)
    cheap = ["md5_crypt", "pbkdf2_sha256", "des_crypt", "sha1_crypt", "bsdi_crypt", "ldap_salted_sha1"]

    def global_snapshot(names):
        return {n: {k: v for k, v in vars(getattr(H, n)).items()} for n in names}

    n_ctx = 12 if not thorough else 120
    for _ in range(n_ctx):
        with guarded(g, "raising-hasher"):
            others = rng.sample(cheap, rng.randrange(1, 4))
            pos = rng.randrange(len(others) + 1)
            cfg, _ = c04.gen_config(rng, facts, schemes=others, want_invalid=0)
            kw = P.to_kwds(cfg)
            objs = list(others)
            objs.insert(pos, Boom)
            if rng.random() < 0.5:
                objs.append(Plain)
            kw["schemes"] = objs
            kw.setdefault("admin__context__deprecated", [])  # a category-specific setting: more records to build
            Fuse.left = None
            try:
                ctx = CryptContext(**kw)
            except Exception as err:  # noqa: BLE001
                g.fail(f"custom:ctor:{type(err).__name__}", f"context with custom hasher objects refused: {err}"[:200], {"kwds": repr(kw)})
                continue
            hs = hashes_for(cfg, [boom_hash, plain_hash])
            before = state(ctx, hs)
            kwr = repr(kw)
            wit = {"kwds": kwr}
            g.case(("custom-roundtrip", kwr))
            g.check(ctx.identify(boom_hash) == "boom_hash", "custom:identify", "custom hasher's hash not attributed to it", wit)
            for name, fn in (("dict-resolved", lambda: CryptContext(**ctx.to_dict(resolve=True))), ("copy", lambda: ctx.copy()), ("load-context", lambda: _loaded(CryptContext, ctx))):
                o = outcome(fn)
                if g.check(o[0] == "ok", f"custom:{name}:refused", "export with custom hasher objects refused on import", dict(wit, outcome=repr(o)[:200])):
                    same_state(g, f"custom:{name}", "re-imported context with custom hashers differs", before, state(o[1], hs), wit)
                    g.check(o[1].to_dict(resolve=True)["schemes"] == ctx.to_dict(resolve=True)["schemes"], f"custom:{name}:objects", "custom hasher objects not carried over", wit)
            # a harmless change and the number of using() calls it takes
            first = others[0]
            delta = {"staff__context__deprecated": [first] if len(objs) > 1 and ctx.default_scheme(category="staff") != first else [], "admin__context__default": "boom_hash"}
            full = dict(ctx.to_dict(resolve=True))
            full.update(delta)
            ops = {"update": lambda c: c.update(**delta), "load-full": lambda c: c.load(full), "copy-kw": lambda c: c.copy(**delta)}
            gnames = [n for n in others]
            for opname, op in ops.items():
                Fuse.left, Fuse.calls = None, 0
                trial = ctx.copy()
                calls0 = Fuse.calls
                o = outcome(op, trial)
                n_calls = Fuse.calls - calls0
                if not g.check(o[0] == "ok" and n_calls >= 1, "custom:harmless-change-refused", "harmless change refused / custom hasher never customised", dict(wit, op=opname, outcome=repr(o)[:200], calls=n_calls)):
                    continue
                after_ok = state(trial if opname != "copy-kw" else o[1], hs)
                for exc in (RuntimeError, ValueError, KeyError, TypeError):
                    for k in range(1, n_calls + 2):
                        if not thorough and exc is not RuntimeError and k not in (1, n_calls, n_calls + 1):
                            continue
                        Fuse.left = None
                        victim = ctx.copy()
                        vb = state(victim, hs)
                        gb = global_snapshot(gnames)
                        bb = dict(vars(Boom))
                        Fuse.left, Fuse.exc = k, exc
                        o = outcome(op, victim)
                        Fuse.left = None
                        g.case((kwr, opname, exc.__name__, k))
                        w2 = dict(wit, op=opname, raises=exc.__name__, at_call=k, of=n_calls, outcome=repr(o)[:160])
                        if k <= n_calls:
                            g.check(o[0] == "exc", "raising-hasher:error-swallowed", "the hasher's exception did not surface", w2)
                        if o[0] == "exc":
                            same_state(g, "raising-hasher:context-changed", "the context answers differently after a load that failed inside a hasher's using()", vb, safe_state(victim, hs), w2)
                        else:
                            res = victim if opname != "copy-kw" else o[1]
                            same_state(g, "raising-hasher:late-fuse", "with the fuse beyond the last call the change is not the normal one", after_ok, state(res, hs), w2)
                        ga = global_snapshot(gnames)
                        changed = [n for n in gnames if set(ga[n]) != set(gb[n]) or any(ga[n][a] is not gb[n][a] and ga[n][a] != gb[n][a] for a in ga[n])]
                        g.check(not changed, "raising-hasher:global-hasher-changed", "a passlib.hash object changed during the failed load", dict(w2, changed=changed))
                        ba = dict(vars(Boom))
                        g.check(set(ba) == set(bb) and all(ba[a] is bb[a] or ba[a] == bb[a] for a in ba), "raising-hasher:custom-class-changed", "the custom hasher class was written to", w2)
            Fuse.left = None
    groups.append(g)
    g = G("global-hashers-untouched", "_CryptConfig._create_record (writes only the fresh subclass)", "class __dict__ of every pool hasher in passlib.hash after all contexts, failed loads and raising hashers above: identical to the one taken at the start")
    for n in c04.POOL:
        after = dict(vars(getattr(H, n)))
        before_n = globals_before[n]
        changed = sorted(k for k in set(after) | set(before_n) if k not in after or k not in before_n or not (after[k] is before_n[k] or after[k] == before_n[k]))
        g.case(n)
        g.check(not changed, f"globals:{n}", "a passlib.hash object was written to while contexts were built / loaded", {"hasher": n, "changed": changed[:8]})
    groups.append(g)
    return groups, [], {"invalid_kinds_refused": sorted(kinds_failed), "invalid_kinds_accepted_at_least_once": sorted(kinds_accepted)}


def _loaded(cls, source):
    c = cls()
    c.load(source)
    return c


if __name__ == "__main__":
    main(build)
