"""C10 -- context config survives export/import; a failed change changes nothing."""
import z3

from contracts.trusted import COMMON, fresh_str, may_fail
from pyvc.contract import Bool, Const, Contract, Int, NoneT, Obj, Opt, Str, Union
from pyvc.runner import Bounded
from pyvc.symexec import RaiseSig, exc_class
from pyvc.values import SBool, SDict, SExc, SList, SObj, SStr, SStub, SType

LEVEL = "proof"
CTX = "passlib/context.py"
EXPLANATION = (
    "Exception atomicity of CryptContext.load: the real body is executed with every fallible step (INI parsing, key "
    "parsing, building the _CryptConfig from hashers whose using() may raise) free to raise at any point; every "
    "exceptional exit is proved to occur before the first write to self, so a failed load/update leaves the context "
    "answering as before; a successful load installs the new config, its record getters and resets the dummy-verify "
    "cache exactly once; update() with an empty source returns before any write; _norm_scheme_option refuses a 'salt' "
    "option whatever the value's type; _CryptConfig._init_options stores each source item in its (scheme, category, key) slot, a later "
    "item for the same slot replacing the earlier one (update() overlays). Export/import equality is covered by the bounded stand-in."
)
ASSUMPTIONS = [
    "_CryptConfig(source) writes only the fresh config object and the fresh subclasses returned by handler.using() (frame of using(): C09)",
    "dict(...), dict.update and StringIO do not raise",
]


def counting(name, fn):
    def call(it, args, kwargs):
        if not it.spec:
            it.run.calls.append((name, ()))
        return fn(it, args, kwargs)

    return SStub(call, name)


def _failing(name, excs, result):
    def call(it, args, kwargs):
        for e in excs:
            may_fail(it, e, f"{name}.{e}")
        return result(it, args, kwargs)

    return SStub(call, name, trusted=f"{name}: may raise {excs} at any call")


def _new_config(it, args, kwargs):
    for e in ("ValueError", "TypeError", "KeyError"):
        may_fail(it, e, f"_CryptConfig.{e}")
    cfg = SObj(it.run.fresh("new_config"), fresh=True, fields={
        "get_record": SStub(lambda i, a, k: None, "config.get_record"),
        "identify_record": SStub(lambda i, a, k: None, "config.identify_record"),
        "context_kwds": Union(Const(()), Const(("user",))).make(it, it.run.fresh("context_kwds")),
    })
    it.run.ghost["new_config"] = cfg
    return cfg


def _load_setup(kind):
    def setup(it, args):
        self = args["self"]
        def _old_iter(i, a, k):
            i.run.ghost["merge_resolve"] = k.get("resolve", a[0] if a else False)
            return SList([(("k", "a", "b"), "old")])

        old = SObj("old_config", fields={"iter_config": SStub(_old_iter, "iter_config")})
        self.fields["_config"] = Union(Const(None), Const(old)).make(it, "self._config")
        self.fields["_parse_ini_stream"] = _failing("_parse_ini_stream", ("ValueError", "KeyError"), lambda i, a, k: SDict({"schemes": fresh_str(i, "ini_value")}))
        self.fields["_parse_config_key"] = _failing("_parse_config_key", ("KeyError", "TypeError"), lambda i, a, k: (None, None, a[0]))
        self.fields["_reset_dummy_verify"] = counting("_reset_dummy_verify", lambda i, a, k: None)
        # left behind by an earlier load() of a configuration without context keywords (user=, realm=, ...)
        self.fields["_strip_unused_context_kwds"] = Union(Const(None), Const("instance override left by an earlier load")).make(it, "strip_flag0")
        self.fields["_get_record"] = "old getter"
        self.fields["_identify_record"] = "old identifier"
        it.run.ghost["old_config"] = old
        if kind == "dict":
            args["source"] = SDict({"schemes": fresh_str(it, "schemes"), "default": fresh_str(it, "default")})
        elif kind == "empty":
            args["source"] = SDict({})
        elif kind == "text":
            args["source"] = fresh_str(it, "ini_text")
        elif kind == "context":
            other_cfg = SObj("other_config", fields={"iter_config": SStub(lambda i, a, k: SList([((None, None, "schemes"), "x")]), "iter_config")})
            args["source"] = SObj("other_context", cls=__import__("pyvc.symexec", fromlist=["ClassRef"]).ClassRef.get(CTX, "CryptContext"), fields={"_config": other_cfg})
        elif kind == "bad":
            args["source"] = 5
        return {"old_config": old}

    return setup


def _installed(it, env):
    self = env.lookup("self")
    cfg = it.run.ghost.get("new_config")
    if cfg is None:
        return False
    return self.fields.get("_config") is cfg and self.fields.get("_get_record") is cfg.fields["get_record"] and self.fields.get("_identify_record") is cfg.fields["identify_record"]


def _strip_ok(it, env):
    cfg = it.run.ghost["new_config"]
    fields = it.resolve(env.lookup("self")).fields
    has_kwds = it.truth(cfg.fields["context_kwds"])
    if has_kwds is True:
        return "_strip_unused_context_kwds" not in fields
    if has_kwds is False:
        return fields.get("_strip_unused_context_kwds", "absent") is None
    import z3 as _z3
    return _z3.If(has_kwds, _z3.BoolVal("_strip_unused_context_kwds" not in fields), _z3.BoolVal(fields.get("_strip_unused_context_kwds", "absent") is None))


def _untouched(it, env):
    self = env.lookup("self")
    return self.fields.get("_get_record") == "old getter" and self.fields.get("_identify_record") == "old identifier" and not any(w[0] is self for w in it.run.writes)


CONTRACTS = []
for _kind in ("dict", "empty", "text", "context", "bad"):
    CONTRACTS.append(Contract(
        f"CryptContext.load[{_kind} source]", f"{CTX}::CryptContext.load",
        params={"self": Obj(cls=(CTX, "CryptContext")), "source": Const(None), "update": Bool(), "section": Const("passlib"), "encoding": Const("utf-8")},
        setup=_load_setup(_kind),
        globals={"new._CryptConfig": SStub(_new_config, "_CryptConfig(source)", trusted="may raise ValueError/TypeError/KeyError; writes only fresh objects"),
                 "StringIO": SStub(lambda it, a, k: a[0], "StringIO"), "unicode_or_bytes": (SType("str"), SType("bytes"))},
        raises={"ValueError": None, "TypeError": None, "KeyError": None},
        atomic=True,
        ensures=[
            ("an empty update returns before any write", lambda it, env: True if it.run.ghost.get("new_config") is not None else _untouched(it, env)),
            ("a successful load installs the new config and its record getters", lambda it, env: True if it.run.ghost.get("new_config") is None else _installed(it, env)),
            ("update(): the current configuration is merged in RESOLVED form (hasher objects, so that hashers that are not registered by name survive)",
             lambda it, env: True if "merge_resolve" not in it.run.ghost else it.truth(it.run.ghost["merge_resolve"])),
            ("after a successful load the keyword-stripping helper matches the NEW configuration: disabled (None) exactly when no scheme takes a context keyword, otherwise the class's method is in effect again (no stale per-instance None)",
             lambda it, env: True if it.run.ghost.get("new_config") is None else it.ite_bool(
                 it.truth(it.run.ghost["new_config"].fields["context_kwds"]),
                 "_strip_unused_context_kwds" not in it.resolve(env.lookup("self")).fields,
                 it.resolve(env.lookup("self")).fields.get("_strip_unused_context_kwds", "absent") is None) if hasattr(it, "ite_bool") else _strip_ok(it, env)),
            ("the dummy-verify cache is reset exactly once per installed config", lambda it, env: (it.bi_calls("_reset_dummy_verify") == (1 if it.run.ghost.get("new_config") is not None else 0))),
        ],
        descr=f"source kind: {_kind}; every fallible step may raise",
    ))

# ---- a configuration can never pin a salt ---------------------------------------------------------------
CONTRACTS.append(Contract(
    "_CryptConfig._norm_scheme_option[salt]", f"{CTX}::_CryptConfig._norm_scheme_option",
    params={"self": Obj(), "key": Const("salt"), "value": Union(Str(), __import__("pyvc.contract", fromlist=["Bytes"]).Bytes(), Int(), NoneT())},
    globals={"_coerce_scheme_options": SDict({})},
    raises={"KeyError": None},
    ensures=[("a 'salt' option is never accepted", "False")],
    descr="value of any type (str, bytes, int, None), incl. empty / zero values",
))
CONTRACTS.append(Contract(
    "_CryptConfig._norm_scheme_option[other keys]", f"{CTX}::_CryptConfig._norm_scheme_option",
    params={"self": Obj(), "key": Union(Const("rounds"), Const("min_rounds"), Const("vary_rounds"), Const("salt_size"), Const("ident")), "value": Union(Int(), NoneT())},
    globals={"_coerce_scheme_options": SDict({})},
    ensures=[("non-string values pass through unchanged", "result[0] == key and implies(value is None, result[1] is None) and implies(value is not None, result[1] == value)")],
))

from contracts import c10_options  # noqa: E402

CONTRACTS += c10_options.CONTRACTS
FINITE = c10_options.FINITE
from contracts import c04_policy as _pol  # noqa: E402

# computing the per-category defaults must not write into the stored options (they are what to_dict() / to_string() export)
CONTRACTS += [c for c in _pol.CONTRACTS if c.id.startswith("_init_default_schemes[2 schemes")]
BOUNDED = [Bounded("c10", "harness/c10.py", descr="export/import equality and failed-change invariance on generated configs", timeout=900)]

MUTANTS = [
    ("load: config swapped before it is built", CTX, "        config = _CryptConfig(source)\n        self._config = config\n", "        self._config = None\n        config = _CryptConfig(source)\n        self._config = config\n", "refute"),
    ("load: dummy-verify cache not reset", CTX, "        self._config = config\n        self._reset_dummy_verify()\n", "        self._config = config\n", "refute"),
    ("load: record getter installed before the config is built", CTX, "        config = _CryptConfig(source)\n        self._config = config\n        self._reset_dummy_verify()\n        self._get_record = config.get_record\n", "        self._get_record = None\n        config = _CryptConfig(source)\n        self._config = config\n        self._reset_dummy_verify()\n        self._get_record = config.get_record\n", "refute"),
    ("_norm_scheme_option: non-strings returned before the salt check", CTX, "        # check for invalid options\n        if key in _forbidden_scheme_options:\n            raise KeyError(f\"{key!r} option not allowed in CryptContext configuration\")\n", "        if not isinstance(value, str):\n            return key, value\n        # check for invalid options\n        if key in _forbidden_scheme_options:\n            raise KeyError(f\"{key!r} option not allowed in CryptContext configuration\")\n", "refute"),
    ("load: harmless reordering of the last two assignments", CTX, "        self._get_record = config.get_record\n        self._identify_record = config.identify_record\n", "        self._identify_record = config.identify_record\n        self._get_record = config.get_record\n", "hold"),
]
MUTANTS += c10_options.MUTANTS
MUTANTS += [("update(): current config merged by scheme NAME (custom unregistered hashers lost)", CTX, "            source = dict(self._config.iter_config(resolve=True))", "            source = dict(self._config.iter_config())", "refute", r"CryptContext.load\[dict")]
MUTANTS += [("load(): keyword stripping stays disabled after a reload that adds a scheme with a context keyword", CTX, "            self.__dict__.pop(\"_strip_unused_context_kwds\", None)\n", "            pass\n", "refute", r"CryptContext.load\[dict")]
