"""C16, continued: _CommonFile._load_lines establishes the representation invariant from ANY sequence of lines.

lines: abstract finite iterable (unknown length), line i = LINE(i); a line is a comment/blank line or a record line
(abstract predicate through the real lstrip()/startswith('#') test); _parse_record is abstract: key = KEY(line), value =
VAL(line), free to raise ValueError.  The local dict ``records`` is modelled as a symbolic map (arrays), the local list
``source`` as the ghost multiset of its (_RECORD, key) entries (as in c16.py)."""
import z3

from contracts.trusted import may_fail
from pyvc.contract import Bytes, Const, Contract, Loop, Obj, Str
from pyvc.values import SAbsIter, SBool, SInt, SMap, SObj, SStr, SStub

A = "passlib/apache.py"
S = z3.StringSort()
LINE = z3.Function("line", z3.IntSort(), S)
KEY = z3.Function("record_key", S, S)
VAL = z3.Function("record_value", S, S)


def _records(it):
    dom = z3.K(S, z3.BoolVal(False))
    arr = z3.K(S, z3.StringVal(""))
    m = SMap(dom, arr, S, lambda e: SStr(e, "bytes"), "records")
    it.run.ghost["records"] = m
    return m


def _source(it):
    tok = {"arr": z3.K(S, z3.IntVal(0)), "skipped_entries": 0}

    def append(i, a, k):
        tag, payload = i.unpack(a[0], 2)
        if i.resolve(tag) == "record":
            kz = i.to_z3(payload)
            tok["arr"] = z3.Store(tok["arr"], kz, z3.Select(tok["arr"], kz) + 1)
            tok["last_skipped"] = None
        else:
            tok["last_skipped"] = i.to_z3(payload)  # a block of comment / blank lines, kept verbatim

    def havoc(i, name):
        tok["arr"] = z3.Const(i.run.fresh(name + ".count"), tok["arr"].sort())
        tok["last_skipped"] = None  # what the loop appended last is not tracked; only the block appended AFTER the loop is

    o = SObj("_source (ghost multiset)", fresh=True, fields={"append": SStub(append, "_source.append"), "__havoc__": havoc})
    it.run.ghost["tokens"] = tok
    return o


def _inv_at(it, k):
    g = it.run.ghost
    c = z3.Select(g["tokens"]["arr"], k)
    d = z3.Select(g["records"].dom, k)
    return z3.And(c >= 0, c <= 1, d == (c == 1))


Q = z3.String("any_key")  # free constant: an invariant stated at Q holds for every key


def _inv(it, env):
    return _inv_at(it, Q)


def _inv_touched(it, env):
    """the same invariant at the key of the line this iteration reads"""
    i = env.lookup("__i0__")
    return _inv_at(it, KEY(LINE(it.to_z3(i, "int"))))


def _setup(it, args):
    n = z3.Int("number_of_lines")
    it.run.assume(n >= 0)
    args["lines"] = SAbsIter(SInt(n), lambda i: SStr(LINE(it.to_z3(i, "int")), "bytes"), "lines")

    def parse(i, a, k):
        may_fail(i, "ValueError", "_parse_record")
        ln = i.to_z3(a[0])
        return (SStr(KEY(ln), "bytes"), SStr(VAL(ln), "bytes"))

    self = args["self"]
    self.fields["_parse_record"] = SStub(parse, "_parse_record", trusted="(key, value) are functions of the line; malformed lines raise ValueError")
    return None


def _post_tail(it, env):
    """the block of trailing comment / blank lines stored last ends with a line terminator: whatever is appended to the
    file's text afterwards starts on a line of its own"""
    last = it.run.ghost["tokens"].get("last_skipped")
    if last is None:
        return z3.BoolVal(True)
    return z3.Or(z3.SuffixOf(z3.StringVal("\n"), last), z3.SuffixOf(z3.StringVal("\r"), last))


def _post(it, env):
    self = it.resolve(env.lookup("self"))
    g = it.run.ghost
    same = self.fields.get("_records") is g["records"] and isinstance(self.fields.get("_source"), SObj) and self.fields["_source"].name.startswith("_source")
    return z3.And(z3.BoolVal(bool(same)), _inv(it, env))


CONTRACTS = [
    Contract(
        "_CommonFile._load_lines", f"{A}::_CommonFile._load_lines",
        params={"self": Obj(), "lines": None},
        setup=_setup,
        globals={"_RECORD": "record", "_SKIPPED": "skipped", "_BHASH": b"#",
                 "logging": SObj("logging", fields={"warning": SStub(lambda i, a, k: None, "logging.warning")})},
        local_models={"records": _records, "source": _source},
        loops={"_load_lines#0": Loop(invariant=[_inv], instances=[_inv_touched],
                                     modifies=["idx", "line", "tmp", "key", "value", "skipped", "records", "source"])},
        raises={"ValueError": lambda it, env: z3.BoolVal("_records" not in it.resolve(env.lookup("self")).fields)},
        ensures=[("after loading ANY sequence of lines: each user has exactly one source entry, no key more than one (duplicate lines dropped), and the new maps are installed together", _post),
                 ("a trailing block of comment lines is stored with a final line terminator (a record appended later cannot merge with it)", _post_tail)],
        descr="any number of lines, any mixture of comment / blank / record / duplicate / malformed lines",
    )
]

MUTANTS = [
    ("_load_lines: a duplicate user line gets a second source entry", A, "                # NOTE: the duplicate line is dropped; keeping it as \"skipped\" text\n                #       would write the user out twice (and bring a deleted user back).\n                continue\n", "                source.append((_RECORD, key))\n                continue\n", "refute", "_load_lines"),
    ("_load_lines: record stored without a source entry", A, "            records[key] = value\n            source.append((_RECORD, key))\n", "            records[key] = value\n", "refute", "_load_lines"),
    ("_load_lines: records installed before parsing finished (not atomic)", A, "        records = {}\n        source = []\n        skipped = b\"\"\n", "        records = self._records = {}\n        source = []\n        skipped = b\"\"\n", "refute", "_load_lines"),
]


# ---- HtpasswdFile.check_password: None for unknown users, the context's verdict otherwise, an upgraded hash stored in place -------
def _cp_setup(it, args):
    dom = z3.Array("records.dom", S, z3.BoolSort())
    arr = z3.Array("records.val", S, S)
    records = SMap(dom, arr, S, lambda e: SStr(e, "bytes"), "records")
    ok = z3.Bool("context verifies the password")
    has_new = z3.Bool("context returns an upgraded hash")
    new_hash = z3.String("upgraded hash")
    seen = {}

    def vau(i, a, k):
        seen["password"], seen["hash"] = i.resolve(a[0]), i.resolve(a[1])
        if i.run.branch(has_new):
            return (SBool(ok), SStr(new_hash, "bytes"))
        return (SBool(ok), None)

    self = args["self"]
    self.fields.update({"_records": records, "encoding": "utf-8", "_encode_user": SStub(lambda i, a, k: a[0], "_encode_user (identity on valid bytes)"),
                        "context": SObj("context", fields={"verify_and_update": SStub(vau, "context.verify_and_update (C04)")}),
                        "_autosave": SStub(lambda i, a, k: None, "_autosave")})
    it.run.ghost.update({"dom0": dom, "arr0": arr, "records": records, "ok": ok, "has_new": has_new, "new_hash": new_hash, "seen": seen})
    return None


def _cp_post(it, env):
    g = it.run.ghost
    user = it.to_z3(env.lookup("user"))
    known = z3.Select(g["dom0"], user)
    res = it.resolve(env.lookup("result"))
    q = z3.String("other user")
    r = g["records"]
    untouched = z3.Implies(q != user, z3.And(z3.Select(r.dom, q) == z3.Select(g["dom0"], q), z3.Select(r.arr, q) == z3.Select(g["arr0"], q)))
    stored = z3.Select(r.arr, user)
    if res is None:
        return z3.And(z3.Not(known), untouched, z3.Select(r.dom, user) == known)
    if "hash" not in g["seen"]:
        return False  # a verdict was given without consulting the context
    upgraded = z3.And(g["ok"], g["has_new"])
    return z3.And(known, it.to_zbool(it.truth(res)) == g["ok"], untouched, z3.Select(r.dom, user),
                  stored == z3.If(upgraded, g["new_hash"], z3.Select(g["arr0"], user)),
                  it.to_z3(g["seen"]["hash"]) == z3.Select(g["arr0"], user), it.to_z3(g["seen"]["password"]) == it.to_z3(env.lookup("password")))


from pyvc.contract import Bytes  # noqa: E402

CONTRACTS.append(Contract(
    "HtpasswdFile.check_password", f"{A}::HtpasswdFile.check_password",
    params={"self": Obj(), "user": Bytes(), "password": Bytes()},
    setup=_cp_setup,
    ensures=[("None exactly for unknown users; otherwise the context's verdict on (password, stored hash); an upgraded hash replaces the stored one only after a successful check; every other record untouched", _cp_post)],
    descr="any record map, any user, any verdict of the context",
))
MUTANTS += [
    ("check_password: upgraded hash stored even when the password was wrong", A, "        if ok and new_hash is not None:\n", "        if new_hash is not None:\n", "refute", "check_password"),
    ("check_password: unknown user reported as a wrong password", A, "        if hash is None:\n            return None\n        if isinstance(password, str):", "        if hash is None:\n            return False\n        if isinstance(password, str):", "refute", "check_password"),
]


# ---- load_if_changed: the file is re-read whenever its modification time differs from the recorded one (older or newer) ----------
def _lic_setup(it, args):
    from pyvc.contract import Int as _Int
    self = args["self"]
    now = z3.Int("mtime of the file now")
    n = {"load": 0}

    def load(i, a, k):
        n["load"] += 1
        return True

    self.fields.update({"_path": "/some/file", "load": SStub(load, "self.load")})
    it.genv.vars["os"] = SObj("os", fields={"path": SObj("os.path", fields={"getmtime": SStub(lambda i, a, k: SInt(now), "os.path.getmtime")})})
    it.run.ghost.update({"n": n, "now": now})
    return {"now": SInt(now)}


from pyvc.contract import Int as _I  # noqa: E402

CONTRACTS.append(Contract(
    "_CommonFile.load_if_changed", f"{A}::_CommonFile.load_if_changed",
    params={"self": Obj(fields={"_mtime": _I(lo=0)})},
    setup=_lic_setup,
    ensures=[("the file is re-read exactly when no time was recorded or its modification time DIFFERS from the recorded one -- also when it went backwards (restored backup)",
              lambda it, env: z3.And(it.to_zbool(it.truth(env.lookup("result"))) == z3.Or(it.to_z3(it.resolve(env.lookup("self")).fields["_mtime"], "int") == 0, it.to_z3(it.resolve(env.lookup("self")).fields["_mtime"], "int") != it.run.ghost["now"]),
                                     z3.BoolVal(it.run.ghost["n"]["load"] == 1) == it.to_zbool(it.truth(env.lookup("result")))))],
    descr="any recorded and any current modification time",
))
MUTANTS.append(("load_if_changed: an older file on disk is not re-read", A, "        if self._mtime and self._mtime == os.path.getmtime(self._path):", "        if self._mtime and self._mtime >= os.path.getmtime(self._path):", "refute", "load_if_changed"))


# ---- _render_record: a record is rendered for BOTH forms a stored hash can take -- bytes (loaded / set_hash) and native
#      text (check_password stores the upgraded hash as verify_and_update() returned it) -- so a later export cannot fail ----
def _render_bytes_model(it, a, k):
    from pyvc.values import SStr
    parts = []
    for v in a[1:]:
        v = it.resolve(v)
        parts.append(it.to_z3(v))
    fmt = it.static_str(a[0]) if hasattr(it, "static_str") else None
    if fmt is None:
        raw = it.resolve(a[0])
        fmt = raw if isinstance(raw, str) else z3.simplify(it.to_z3(raw)).as_string()
    pieces = fmt.split("%s")
    assert len(pieces) == len(parts) + 1
    out = [z3.StringVal(pieces[0])]
    for p_, piece in zip(parts, pieces[1:]):
        out += [p_, z3.StringVal(piece)]
    return SStr(z3.Concat(*out), "bytes")


def _rr_replay(cls, args, want):
    from pyvc.replay import py_replay
    return py_replay(f"from passlib.apache import {cls}", f"r = {cls}()._render_record({args})", f"exc is None and r == {want}", {"hash": "$apr1$abc$defghijk"})


for _kind, _P in (("bytes hash", Bytes()), ("text hash", Str())):
    CONTRACTS.append(Contract(
        f"HtpasswdFile._render_record[{_kind}]", f"{A}::HtpasswdFile._render_record",
        params={"self": Obj(), "user": Bytes(), "hash": _P},
        globals={"render_bytes": SStub(_render_bytes_model, "render_bytes", trusted="utils.render_bytes: %s-substitution with bytes decoded / text encoded as latin-1")},
        requires=[lambda it, env: it.all_codes_below(it.to_z3(env.lookup("hash")), 128)],
        ensures=[("the record line is user:hash followed by a newline, whichever of the two forms the stored hash has",
                  lambda it, env: it.to_z3(env.lookup("result")) == z3.Concat(it.to_z3(env.lookup("user")), z3.StringVal(":"), it.to_z3(env.lookup("hash")), z3.StringVal("\n")))],
        replay=_rr_replay("HtpasswdFile", "b'user', V['hash']" if _kind == "text hash" else "b'user', V['hash'].encode('ascii')", "b'user:' + V['hash'].encode('ascii') + b'\\n'"),
        descr="any user bytes, any ASCII hash",
    ))
    CONTRACTS.append(Contract(
        f"HtdigestFile._render_record[{_kind}]", f"{A}::HtdigestFile._render_record",
        params={"self": Obj(), "key": Const(None), "hash": _P},
        setup=lambda it, args: args.__setitem__("key", (SStr(z3.String("user"), "bytes"), SStr(z3.String("realm"), "bytes"))) or {"user": SStr(z3.String("user"), "bytes"), "realm": SStr(z3.String("realm"), "bytes")},
        globals={"render_bytes": SStub(_render_bytes_model, "render_bytes", trusted="utils.render_bytes: %s-substitution with bytes decoded / text encoded as latin-1")},
        requires=[lambda it, env: it.all_codes_below(it.to_z3(env.lookup("hash")), 128)],
        ensures=[("the record line is user:realm:hash followed by a newline, whichever of the two forms the stored hash has",
                  lambda it, env: it.to_z3(env.lookup("result")) == z3.Concat(z3.String("user"), z3.StringVal(":"), z3.String("realm"), z3.StringVal(":"), it.to_z3(env.lookup("hash")), z3.StringVal("\n")))],
        replay=_rr_replay("HtdigestFile", "(b'user', b'realm'), V['hash']" if _kind == "text hash" else "(b'user', b'realm'), V['hash'].encode('ascii')", "b'user:realm:' + V['hash'].encode('ascii') + b'\\n'"),
        descr="any user / realm bytes, any ASCII hash",
    ))


# ---- save: the recorded modification time belongs to the BOUND file: exporting to another path must not touch it (otherwise
#      the next load_if_changed() re-reads the untouched bound file and throws the unsaved edits away) ----
def _save_setup(it, args):
    self = args["self"]
    written = []
    MT = z3.Function("getmtime", z3.StringSort(), z3.IntSort())

    def opener(i, a, k):
        written.append(i.resolve(a[0]))
        fh = SObj(i.run.fresh("file"), fresh=True, fields={"writelines": SStub(lambda i2, a2, k2: None, "fh.writelines"), "__exit__": SStub(lambda i2, a2, k2: False, "__exit__")})
        fh.fields["__enter__"] = SStub(lambda i2, a2, k2: fh, "__enter__")
        return fh

    it.genv.vars["open"] = SStub(opener, "open", trusted="opens the named file for writing")
    it.genv.vars["os"] = SObj("os", fields={"path": SObj("os.path", fields={"getmtime": SStub(lambda i, a, k: SInt(MT(i.to_z3(a[0]))), "os.path.getmtime")})})
    self.fields["_iter_lines"] = SStub(lambda i, a, k: SObj("lines"), "_iter_lines")
    it.run.ghost.update({"written": written, "MT": MT, "old_mtime": it.to_z3(self.fields["_mtime"], "int")})
    return None


def _save_post(explicit):
    def post(it, env):
        g = it.run.ghost
        self = it.resolve(env.lookup("self"))
        now = it.to_z3(self.fields["_mtime"], "int")
        if explicit:
            path = it.to_z3(env.lookup("path"))
            one = len(g["written"]) == 1
            return z3.And(z3.BoolVal(one), it.to_z3(g["written"][0]) == path if one else z3.BoolVal(False), now == g["old_mtime"])
        own = it.to_z3(self.fields["_path"])
        one = len(g["written"]) == 1
        return z3.And(z3.BoolVal(one), it.to_z3(g["written"][0]) == own if one else z3.BoolVal(False), now == g["MT"](own))
    return post


CONTRACTS.append(Contract(
    "_CommonFile.save[explicit path]", f"{A}::_CommonFile.save",
    params={"self": Obj(cls=(A, "_CommonFile"), fields={"_path": Str(), "_mtime": _I(lo=0)}), "path": Str()},
    setup=_save_setup,
    ensures=[("exactly the named file is written and the recorded modification time of the bound file is left alone", _save_post(True))],
    descr="any bound path, any export path (equal or not), any recorded time",
))
CONTRACTS.append(Contract(
    "_CommonFile.save[bound file]", f"{A}::_CommonFile.save",
    params={"self": Obj(cls=(A, "_CommonFile"), fields={"_path": Str(), "_mtime": _I(lo=0)}), "path": Const(None)},
    setup=_save_setup,
    requires=["len(self._path) > 0"],
    ensures=[("exactly the bound file is written and its new modification time is recorded", _save_post(False))],
    descr="any non-empty bound path",
))
MUTANTS.append(("save: an export to another path records that file's time as the bound file's", A, "        if path is not None:\n            with open(path, \"wb\") as fh:\n                fh.writelines(self._iter_lines())\n", "        if path is not None:\n            with open(path, \"wb\") as fh:\n                fh.writelines(self._iter_lines())\n            self._mtime = os.path.getmtime(path)\n", "refute", "_CommonFile.save"))

MUTANTS.append(("_load_lines: trailing comment block stored without its line terminator", A, "        if skipped.rstrip():\n            # NOTE: a last line without newline must not swallow a record appended after it.\n            if not skipped.endswith((b\"\\n\", b\"\\r\")):\n                skipped += b\"\\n\"\n            source.append((_SKIPPED, skipped))", "        skipped = skipped.rstrip()\n        if skipped:\n            source.append((_SKIPPED, skipped))", "refute", "_load_lines"))
