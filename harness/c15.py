"""Bounded stand-in for C15: a TOTP configuration through to_uri/from_uri, to_json/from_json, to_dict/from_dict
(and from_source) must come back with the same key, algorithm, digits, period, label and issuer, hence the same
codes (reference: plain RFC 4226/6238 with stdlib hmac); hostile label/issuer text; class-level defaults set with
TOTP.using(); corrupted sources are refused with ValueError; application secrets (AppWallet).

The known class-default elision defect is isolated under the key "totp:class-default-elision"; the general grid
avoids exactly that witness class (instance value equal to the literal default 6/sha1/30 while the class default
set via using() differs).
"""
import hashlib
import hmac
import json
import logging
import struct
import time as _time

from common import Group, main, outcome


class G(Group):
    def __init__(self, *a):
        super().__init__(*a)
        self.elapsed = None

    def done(self):
        self.elapsed = round(_time.time() - self.t0, 2)
        return self

    def out(self):
        d = super().out()
        if self.elapsed is not None:
            d["seconds"] = self.elapsed
        return d


def hotp(key, counter, digits, alg):
    mac = hmac.new(key, struct.pack(">Q", counter), getattr(hashlib, alg)).digest()
    off = mac[-1] & 0x0F
    code = struct.unpack(">I", mac[off : off + 4])[0] & 0x7FFFFFFF
    return str(code % 10**digits).zfill(digits)


ALGS = ("sha1", "sha256", "sha512")
LITERAL = {"digits": 6, "alg": "sha1", "period": 30}
# hostile alphabet of the property + letters/digits that form escapes ("%2F", "%41") + a few more separators
CORE = [" ", "@", "/", "%", "&", "=", "+", "?", "#", ":", "é", "日", "\U0001f600", "a", "Z", "2", "5", "F", ";", ",", '"', "\\", "-", "~"]
RARE = ["\u00a0", "\t", "\u2003", "ß", "\u0301", "'", "<", "[", "]", "{", "|", "^", "`", "*", "!", "$", "(", ")", "."]
FIELDS = ("key", "alg", "digits", "period", "label", "issuer")


def refused(fn, *a):
    """None if fn(*a) raises ValueError (or a subclass); otherwise a description of what happened"""
    try:
        v = fn(*a)
    except ValueError:
        return None
    except Exception as err:  # noqa: BLE001
        return f"{type(err).__name__}: {str(err)[:100]}"
    return f"accepted: {v!r}"[:120]


def blank(s):
    return s is not None and s != "" and s.strip() == ""


def build(tier, rng):
    quick = tier == "quick"
    from passlib import totp as totp_mod
    from passlib.totp import TOTP, AppWallet

    logging.disable(logging.WARNING)  # lookup_hash logs a warning for every unknown algorithm name of the corrupted sources
    groups = []
    skipped = []
    stats = {"inadmissible": 0}

    def fields(o):
        return {f: getattr(o, f) for f in FIELDS}

    def jf(d):
        return {k: (v.hex() if isinstance(v, bytes) else v) for k, v in d.items()}

    classes = [
        ("TOTP", TOTP, {}),
        ("using(digits=8)", TOTP.using(digits=8), {"digits": 8}),
        ("using(alg=sha256)", TOTP.using(alg="sha256"), {"alg": "sha256"}),
        ("using(period=60)", TOTP.using(period=60), {"period": 60}),
        ("using(issuer)", TOTP.using(issuer="Acme & Co"), {"issuer": "Acme & Co"}),
        ("using(all)", TOTP.using(digits=7, alg="sha512", period=45, issuer="x@y/z %"), {"digits": 7, "alg": "sha512", "period": 45, "issuer": "x@y/z %"}),
        ("using(literals)", TOTP.using(digits=6, alg="sha1", period=30), {}),
        ("using(digits=10,period=1)", TOTP.using(digits=10, period=1), {"digits": 10, "period": 1}),
    ]

    def choices(cdef, name, values):
        """instance values for a parameter; never the literal default when the class default differs (that
        witness class is the known elision defect, isolated below)"""
        out = [None] + list(values)
        if cdef.get(name, LITERAL[name]) != LITERAL[name]:
            out = [v for v in out if v != LITERAL[name]]
        return out

    def loaders(cls, obj, fmt, uri_args=None):
        """[(description, thunk)] producing a loaded object, or raising"""
        if fmt == "uri":
            ser = obj.to_uri(**(uri_args or {}))
            return ser, [("from_uri", lambda: cls.from_uri(ser)), ("from_source", lambda: cls.from_source(ser)), ("from_uri(bytes)", lambda: cls.from_uri(ser.encode("ascii")))]
        if fmt == "json":
            ser = obj.to_json()
            return ser, [("from_json", lambda: cls.from_json(ser)), ("from_source", lambda: cls.from_source(ser)), ("from_json(bytes)", lambda: cls.from_json(ser.encode("ascii")))]
        ser = obj.to_dict()
        return ser, [("from_dict", lambda: cls.from_dict(dict(ser))), ("from_source", lambda: cls.from_source(dict(ser))), ("from_dict(json)", lambda: cls.from_dict(json.loads(json.dumps(ser))))]

    def roundtrip(g, cname, cls, kw, times, uri_args=None, formats=("uri", "json", "dict")):
        """construct, serialise in each format, load back, compare.  Returns False if inadmissible."""
        w0 = {"class": cname, "kwds": jf(kw)}
        o = outcome(cls, format="raw", **kw)
        if o[0] != "ok":
            text = [kw.get("label"), kw.get("issuer")]
            if o[1] == "ValueError" and any(t and ":" in t for t in text):
                stats["inadmissible"] += 1
                return False  # documented: ':' is reserved by the key-URI format
            g.fail("ctor:refused", "constructor refused an admissible configuration", dict(w0, outcome=repr(o)))
            return False
        obj = o[1]
        exp = fields(obj)
        # construction keeps what was given
        cdef = dict(LITERAL, issuer=None)
        cdef.update({k: getattr(cls, k) for k in ("digits", "alg", "period", "issuer")})
        for f in FIELDS:
            given = kw.get(f)
            want = given if given not in (None, "") else (cdef.get(f) if f != "label" else None)
            g.check(exp[f] == want, f"ctor:{f}", "constructed object does not carry the requested value", dict(w0, field=f, got=repr(exp[f]), want=repr(want)))
        for fmt in formats:
            ua = uri_args if fmt == "uri" else None
            want = dict(exp)
            if ua:
                for k, v in ua.items():
                    if v:
                        want[k] = v
            try:
                ser, thunks = loaders(cls, obj, fmt, ua)
            except ValueError as err:
                if fmt == "uri" and (not want["label"] or any(t and ":" in t for t in (want["label"], want["issuer"]))):
                    stats["inadmissible"] += 1  # documented: a URI needs a label; ':' reserved
                    continue
                g.fail(f"serialise:{fmt}:raised", "serialisation raised for an admissible object", dict(w0, error=repr(err)))
                continue
            except Exception as err:  # noqa: BLE001
                g.fail(f"serialise:{fmt}:raised", "serialisation raised for an admissible object", dict(w0, error=repr(err)))
                continue
            if fmt == "json":
                g.check(isinstance(ser, str) and outcome(json.loads, ser) == ("ok", obj.to_dict()), "json:is-dict", "to_json is not the JSON text of to_dict", dict(w0, json=ser))
            if fmt == "uri":
                g.check(isinstance(ser, str) and ser.isascii() and ser.startswith("otpauth://totp/") and " " not in ser, "uri:shape", "to_uri is not an ASCII otpauth://totp/ URI without blanks", dict(w0, uri=ser))
            for how, thunk in thunks:
                w = dict(w0, format=fmt, via=how, serialised=ser if isinstance(ser, str) else jf(ser))
                lab = want["label"]
                try:
                    back = thunk()
                except Exception as err:  # noqa: BLE001
                    if fmt == "uri" and blank(lab) and "missing label" in str(err):
                        # recorded finding: to_uri() renders a label of white space only, from_uri() strips it and then misses it
                        g.fail("totp:uri-label-blank", "to_uri accepts a label consisting of white space only, from_uri then refuses its own URI (missing label)", dict(w, error=repr(err)))
                    elif fmt == "uri" and blank(lab) and isinstance(err, AssertionError):
                        g.fail("totp:uri-label-blank", "to_uri accepts a label consisting of white space only, from_uri then dies with AssertionError", dict(w, error=repr(err)))
                    else:
                        g.fail(f"roundtrip:{fmt}:load-raised", "loading the serialised form raised", dict(w, error=repr(err)))
                    continue
                got = fields(back)
                if got == want and isinstance(back, cls):
                    for t in times:
                        tk = outcome(lambda: back.generate(t).token)
                        ref = hotp(exp["key"], t // exp["period"], exp["digits"], exp["alg"])
                        g.check(tk == ("ok", ref), f"roundtrip:{fmt}:token", "loaded object generates another code than the reference for the original configuration", dict(w, time=t, outcome=repr(tk), want=ref))
                    continue
                diff = sorted(f for f in FIELDS if got[f] != want[f])
                if fmt == "uri" and diff == ["label"] and lab and lab != lab.strip() and got["label"] == (lab.strip() or None):
                    g.fail("totp:uri-label-edge-space", "a label with leading/trailing white space comes back stripped from the URI", dict(w, label=lab, got=got["label"]))
                    continue
                g.fail(f"roundtrip:{fmt}:{'+'.join(diff) or 'class'}", "loaded object differs from the serialised one", dict(w, want=jf(want), got=jf(got)))
        return True

    def rand_text(n=None, pool=None):
        n = rng.randrange(0, 7) if n is None else n
        pool = pool or (CORE * 3 + RARE)
        return "".join(rng.choice(pool) for _ in range(n))

    # ---- the grid: configuration x classes --------------------------------------------------------------
    g = G("roundtrip-grid", "TOTP.to_uri/from_uri/to_json/from_json/to_dict/from_dict", "8 classes (TOTP and TOTP.using(digits/alg/period/issuer...)) x key sizes 1..64 x alg x digits 6..10 and class default x periods 1,30,60,3600,random and class default x random label/issuer over the hostile alphabet (length 0..6) x uri/json/dict x from_X / from_source / bytes input; excluded: instance value = literal default while class default differs")
    reps = 1 if quick else 6
    # the two white-space witnesses, always (so that the keys reported by this group do not depend on the seed)
    for lab in (" ", " user", "user\u00a0"):
        ok = roundtrip(g, "TOTP", TOTP, {"key": b"0123456789abcdefghij", "label": lab}, [59])
        g.case(("white-space-label", lab), nontrivial=ok)
    for cname, cls, cdef in classes:
        for size in range(1, 65):
            for _ in range(reps):
                key = rng.randbytes(size)
                for alg in choices(cdef, "alg", ALGS):
                    for digits in rng.sample(choices(cdef, "digits", range(6, 11)), 3):
                        period = rng.choice(choices(cdef, "period", [1, 30, 60, 3600, rng.randrange(1, 3601)]))
                        label = rng.choice(["user", "user@example.org", rand_text(), rand_text()])
                        issuer = rng.choice([None, "Example", rand_text(), rand_text()])
                        kw = {"key": key, "alg": alg, "digits": digits, "period": period, "label": label, "issuer": issuer}
                        kw = {k: v for k, v in kw.items() if v is not None}
                        times = [0, 59, rng.randrange(2**40)]
                        ok = roundtrip(g, cname, cls, kw, times)
                        g.case((cname, size, alg, digits, period, label, issuer), nontrivial=ok)
    groups.append(g.done())

    # ---- hostile text, exhaustively for short strings ---------------------------------------------------
    maxlen = 2 if quick else 3
    g = G("roundtrip-text", "TOTP.to_uri/from_uri (quoting), to_json, to_dict", f"every string of length 0..{maxlen} over {len(CORE)} symbols (space @ / % & = + ? # : non-ASCII, escape-forming letters, ; , \" \\ - ~) as label (x 3 issuers) and as issuer (x 2 labels), random strings of length 3..6 incl. rarer symbols; label/issuer given to the constructor or to to_uri(); classes TOTP and using(issuer=...)")
    texts = [""]
    layer = [""]
    for _ in range(maxlen):
        layer = [s + c for s in layer for c in CORE]
        texts += layer
    texts += [rand_text(rng.randrange(3, 7)) for _ in range(3000 if quick else 40000)]
    key = rng.randbytes(20)
    tcls = [classes[0], classes[4]]
    for i, s in enumerate(texts):
        cname, cls, cdef = tcls[i % 2]
        for issuer in (None, "Acme", " i&=%+?#/"):
            kw = {"key": key, "label": s}
            if issuer:
                kw["issuer"] = issuer
            ok = roundtrip(g, cname, cls, kw, [59])
            g.case(("label", cname, s, issuer), nontrivial=ok)
        for label in ("user", "a@b c/d"):
            kw = {"key": key, "label": label, "issuer": s}
            ok = roundtrip(g, cname, cls, kw, [59])
            g.case(("issuer", cname, s, label), nontrivial=ok)
        if i % 4 == 0 and s:
            # label / issuer supplied at serialisation time
            other = rand_text(rng.randrange(0, 4))
            ok = roundtrip(g, cname, cls, {"key": key}, [59], uri_args={"label": s, "issuer": other}, formats=("uri",))
            g.case(("to_uri-args", cname, s, other), nontrivial=ok)
    # label and issuer both hostile
    for _ in range(2000 if quick else 40000):
        cname, cls, cdef = rng.choice(classes)
        kw = {"key": rng.randbytes(rng.randrange(1, 33)), "label": rand_text(rng.randrange(1, 7)), "issuer": rand_text(rng.randrange(0, 7))}
        ok = roundtrip(g, cname, cls, kw, [59])
        g.case(("both", cname, kw["label"], kw["issuer"]), nontrivial=ok)
    groups.append(g.done())

    # ---- the known defect, isolated -----------------------------------------------------------------------
    g = G("class-default-elision", "TOTP.to_dict/_to_uri_params vs from_dict/from_uri defaults", "for digits / alg / period: class default set via using() to a non-literal value, instance created with the literal default 6 / sha1 / 30, serialised (uri, json, dict) and loaded through the same class")
    key = b"0123456789abcdefghij"
    for name, cvals in (("digits", (7, 8, 9, 10)), ("alg", ("sha256", "sha512")), ("period", (1, 60, 3600))):
        for cval in cvals:
            T = TOTP.using(**{name: cval})
            obj = T(key=key, format="raw", label="user", **{name: LITERAL[name]})
            assert getattr(obj, name) == LITERAL[name]
            for fmt, ser, load in (("dict", obj.to_dict, T.from_dict), ("json", obj.to_json, T.from_json), ("uri", obj.to_uri, T.from_uri), ("source", obj.to_json, T.from_source)):
                g.case((name, cval, fmt))
                o = outcome(lambda: getattr(load(ser()), name))
                g.check(o == ("ok", LITERAL[name]), "totp:class-default-elision", "a value equal to the literal default (6/sha1/30) is omitted when serialising, and restored from the class default set via using() when loading", {"parameter": name, "class_default": cval, "instance_value": LITERAL[name], "format": fmt, "serialised": repr(ser()), "outcome": repr(o)})
    groups.append(g.done())

    # ---- corrupted / inconsistent sources -------------------------------------------------------------
    g = G("corrupted-sources", "TOTP.from_uri/from_json/from_dict/from_source", "conflicting issuers, duplicate parameters (each), missing / empty secret, unknown otp type, wrong scheme, missing label, malformed and out-of-range digits/period, unknown algorithm, malformed secret, unknown / missing / stale version, missing type, missing key, non-dict and malformed JSON; each mandatory dict entry deleted in turn; single-character corruptions of valid URIs (refused with ValueError or loaded, never another exception)")
    S = "GEZDGNBVGY3TQOJQGEZDGNBVGY3TQOJQ"
    bad_uris = {
        "conflicting-issuers": f"otpauth://totp/a:b?secret={S}&issuer=c",
        "conflicting-issuers-case": f"otpauth://totp/Acme:b?secret={S}&issuer=acme",
        "conflicting-issuers-space": f"otpauth://totp/Acme:b?secret={S}&issuer=Acme%20",
        "two-prefixes": f"otpauth://totp/a:b:c?secret={S}",
        "duplicate-secret": f"otpauth://totp/a?secret={S}&secret={S}",
        "duplicate-secret-differing": f"otpauth://totp/a?secret={S}&secret=GEZDGNBVGY3TQOJR",
        "duplicate-issuer": f"otpauth://totp/a?secret={S}&issuer=x&issuer=x",
        "duplicate-digits": f"otpauth://totp/a?secret={S}&digits=6&digits=8",
        "duplicate-period": f"otpauth://totp/a?secret={S}&period=30&period=60",
        "duplicate-algorithm": f"otpauth://totp/a?secret={S}&algorithm=SHA1&algorithm=SHA256",
        "duplicate-label": f"otpauth://totp/a?secret={S}&label=b",
        # the same name twice is a duplicate however it is spelled (capitalised / upper-case names are what some apps export)
        "duplicate-Secret": f"otpauth://totp/a?Secret={S}&Secret=GEZDGNBVGY3TQOJR",
        "duplicate-SECRET": f"otpauth://totp/a?secret={S}&SECRET={S}&SECRET=GEZDGNBVGY3TQOJR",
        "duplicate-Issuer": f"otpauth://totp/a?secret={S}&Issuer=Good&Issuer=Evil",
        "duplicate-Digits": f"otpauth://totp/a?secret={S}&Digits=8&Digits=6",
        "duplicate-Period": f"otpauth://totp/a?secret={S}&Period=30&Period=3600",
        "duplicate-Algorithm": f"otpauth://totp/a?secret={S}&Algorithm=SHA1&Algorithm=SHA512",
        "missing-secret": "otpauth://totp/a",
        "missing-secret-other-params": "otpauth://totp/a?issuer=x&digits=6",
        "empty-secret": "otpauth://totp/a?secret=",
        "empty-secret-more": "otpauth://totp/a?secret=&issuer=x",
        "unknown-type": f"otpauth://xotp/a?secret={S}",
        "empty-type": f"otpauth:///a?secret={S}",
        "type-totp2": f"otpauth://totp2/a?secret={S}",
        "wrong-scheme": f"http://totp/a?secret={S}",
        "no-scheme": f"totp/a?secret={S}",
        "missing-label": f"otpauth://totp/?secret={S}",
        "missing-label-nopath": f"otpauth://totp?secret={S}",
        "digits-text": f"otpauth://totp/a?secret={S}&digits=six",
        "digits-float": f"otpauth://totp/a?secret={S}&digits=6.0",
        "digits-5": f"otpauth://totp/a?secret={S}&digits=5",
        "digits-11": f"otpauth://totp/a?secret={S}&digits=11",
        "digits-negative": f"otpauth://totp/a?secret={S}&digits=-6",
        "period-0": f"otpauth://totp/a?secret={S}&period=0",
        "period-negative": f"otpauth://totp/a?secret={S}&period=-30",
        "period-text": f"otpauth://totp/a?secret={S}&period=half",
        "unknown-algorithm": f"otpauth://totp/a?secret={S}&algorithm=MD9",
        "secret-not-base32": "otpauth://totp/a?secret=GEZDGNBVGY3TQOJ1",
        "secret-bad-length": "otpauth://totp/a?secret=GEZ",
        "secret-punctuation": "otpauth://totp/a?secret=GEZD!NBVGY3TQOJQ",
    }
    for tag, uri in bad_uris.items():
        for how, fn in (("from_uri", TOTP.from_uri), ("from_source", TOTP.from_source)):
            if how == "from_source" and not uri.startswith("otpauth://"):
                continue
            g.case((tag, how))
            o = refused(fn, uri)
            g.check(o is None, f"corrupt:uri:{tag}", "inconsistent / incomplete URI not refused with ValueError", {"uri": uri, "via": how, "outcome": o})
    good = {"v": 1, "type": "totp", "key": S, "label": "a", "issuer": "i", "digits": 8, "alg": "sha256", "period": 60}
    o = outcome(lambda: fields(TOTP.from_dict(dict(good))))
    g.check(o[0] == "ok" and o[1]["digits"] == 8 and o[1]["alg"] == "sha256" and o[1]["period"] == 60 and o[1]["label"] == "a" and o[1]["issuer"] == "i", "corrupt:dict:control", "the well-formed control dictionary does not load", {"outcome": repr(o)})
    bad_dicts = {
        "missing-type": {k: v for k, v in good.items() if k != "type"},
        "missing-version": {k: v for k, v in good.items() if k != "v"},
        "missing-key": {k: v for k, v in good.items() if k != "key"},
        "version-0": dict(good, v=0),
        "version-2": dict(good, v=2),
        "version-99": dict(good, v=99),
        "version-negative": dict(good, v=-1),
        "version-none": dict(good, v=None),
        "unknown-type": dict(good, type="xotp"),
        "type-upper": dict(good, type="TOTP2"),
        "type-empty": dict(good, type=""),
        "digits-5": dict(good, digits=5),
        "digits-11": dict(good, digits=11),
        "period-0": dict(good, period=0),
        "unknown-alg": dict(good, alg="md9"),
        "key-not-base32": dict(good, key="GEZDGNBVGY3TQOJ1"),
        "label-colon": dict(good, label="a:b"),
        "issuer-colon": dict(good, issuer="a:b"),
        "empty": {},
    }
    for tag, d in bad_dicts.items():
        for how, fn, arg in (("from_dict", TOTP.from_dict, d), ("from_json", TOTP.from_json, json.dumps(d)), ("from_source(dict)", TOTP.from_source, d), ("from_source(json)", TOTP.from_source, json.dumps(d))):
            g.case((tag, how))
            o = refused(fn, arg if not isinstance(arg, dict) else dict(arg))
            g.check(o is None, f"corrupt:dict:{tag}", "inconsistent / incomplete dictionary not refused with ValueError", {"source": arg, "via": how, "outcome": o})
    for tag, d in {"version-text": dict(good, v="1"), "digits-text": dict(good, digits="8"), "period-text": dict(good, period="60"), "key-int": dict(good, key=5), "type-int": dict(good, type=5), "hotp": dict(good, type="hotp")}.items():
        g.case((tag, "lenient"))
        o = outcome(TOTP.from_dict, d)
        g.check(o[0] == "exc", f"corrupt:dict:{tag}", "ill-typed dictionary entry accepted", {"source": d, "outcome": repr(o)})
    g.case("hotp-uri")
    o = outcome(TOTP.from_uri, f"otpauth://hotp/a?secret={S}&counter=1")
    g.check(o[0] == "exc", "corrupt:uri:hotp", "an hotp URI was loaded as TOTP", {"outcome": repr(o)})
    for tag, src in {"not-json": "xx", "truncated-json": '{"type":"totp","v":1', "json-list": "[]", "json-null": "null", "json-number": "5", "json-string": '"totp"', "empty": ""}.items():
        for how, fn in (("from_json", TOTP.from_json), ("from_source", TOTP.from_source)):
            g.case((tag, how))
            o = refused(fn, src)
            g.check(o is None, f"corrupt:json:{tag}", "malformed JSON source not refused with ValueError", {"source": src, "via": how, "outcome": o})
    for src in (None, 5, 1.5, ["otpauth://totp/a"]):
        g.case(("type", repr(src)))
        o = outcome(TOTP.from_source, src)
        g.check(o[0] == "exc" and o[3], "corrupt:source-type", "source of a wrong type not refused with TypeError/ValueError", {"source": repr(src), "outcome": repr(o)})
    # an encrypted key without configured secrets must be refused (class of the error not pinned here)
    g.case("enckey-no-wallet")
    o = outcome(TOTP.from_dict, {"v": 1, "type": "totp", "enckey": {"v": 1, "c": 4, "t": "1", "s": "AAAAAAAA", "k": "AAAAAAAA"}})
    g.check(o[0] == "exc" and o[3], "corrupt:enckey-no-wallet", "encrypted key accepted although no application secret is configured", {"outcome": repr(o)})
    # sources that are refused, but not with ValueError (each pinned under its own key)
    for tag, fkey, uri in (
        ("label-blank", "totp:uri-label-blank", f"otpauth://totp/%20?secret={S}"),
        ("label-empty-after-issuer", "totp:uri-label-blank", f"otpauth://totp/Acme:?secret={S}&issuer=Acme"),
        ("algorithm-blank", "corrupt:uri:algorithm-blank", f"otpauth://totp/a?secret={S}&algorithm=%20"),
        ("algorithm-nul", "corrupt:uri:algorithm-nul", f"otpauth://totp/a?secret={S}&algorithm=SHA%001"),
    ):
        g.case((tag, "from_uri"))
        o = refused(TOTP.from_uri, uri)
        g.check(o is None, fkey, "URI without a usable label / with a garbage algorithm name is not refused with ValueError", {"uri": uri, "outcome": o})
    # single-character corruptions of valid URIs
    nfuzz = 20000 if quick else 400000
    subst = list("%&=:/?#+ @;,.-_~[]0aZ") + ["%2", "%ZZ", "%00", "é", "&&", "=="]
    for i in range(nfuzz):
        base = TOTP(key=rng.randbytes(rng.randrange(1, 21)), format="raw", digits=rng.randrange(6, 11), alg=rng.choice(ALGS), period=rng.choice([1, 30, 60]), label=rng.choice(["user", "a@b", "a b"]), issuer=rng.choice([None, "Acme", "x y"])).to_uri() if i % 16 == 0 else base
        pos = rng.randrange(len("otpauth:"), len(base) + 1)
        r = rng.random()
        if r < 0.35:
            uri = base[:pos] + base[pos + 1 :]
        elif r < 0.7:
            uri = base[:pos] + rng.choice(subst) + base[pos + 1 :]
        elif r < 0.85:
            uri = base[:pos] + rng.choice(subst) + base[pos:]
        else:
            uri = base[:pos]
        g.case(("fuzz", uri))
        try:
            back = TOTP.from_uri(uri)
        except (ValueError, NotImplementedError):
            continue
        except Exception as err:  # noqa: BLE001
            # the three classes pinned by explicit sources above keep their keys, whatever the seed finds
            msg = str(err)
            if isinstance(err, AssertionError) and "label" in msg:
                fkey = "totp:uri-label-blank"
            elif isinstance(err, AssertionError) and msg == "":
                fkey = "corrupt:uri:algorithm-blank"
            elif isinstance(err, TypeError) and "name must be a string" in msg:
                fkey = "corrupt:uri:algorithm-nul"
            else:
                fkey = f"corrupt:fuzz:{type(err).__name__}"
            g.fail(fkey, "a corrupted URI is neither loaded nor refused with ValueError", {"uri": uri, "error": repr(err)})
            continue
        # whatever was loaded must be a usable object
        tk = outcome(lambda: back.generate(59).token)
        g.check(tk[0] == "ok" and 6 <= back.digits <= 10 and back.period >= 1 and len(tk[1]) == back.digits, "corrupt:fuzz:object", "a corrupted URI was loaded into an unusable object", {"uri": uri, "outcome": repr(tk)})
    groups.append(g.done())

    # ---- application secrets --------------------------------------------------------------------------------
    def wallet_checks(g, W, tag):
        """W: wallet class.  Keys encrypted under one wallet decrypt under every wallet that still lists the secret."""
        s1, s2, s3 = "secret-one", "s3cr3t two é", "third"
        for cost in (1, 4) if quick else (1, 4, 8):
            for secrets, default in (({"1": s1}, "1"), ({"1": s1, "2": s2}, "2"), ({"2": s2, "10": s3}, "10"), ({"2016-01-01": s1, "2016-05-16": s2}, "2016-05-16"), ({"a": s1, "B": s2}, "a"), ({1: s1, 2: s2}, "2")):
                w = W(secrets=secrets, encrypt_cost=cost)
                g.case((tag, "default-tag", repr(secrets), cost))
                g.check(w.default_tag == default and w.has_secrets, f"{tag}:default-tag", "default tag is not the largest tag (numeric order if all numeric)", {"secrets": repr(secrets), "got": w.default_tag, "want": default})
                T = TOTP.using(wallet=w)
                for size in (1, 10, 20, 32, 64):
                    key = rng.randbytes(size)
                    alg, digits, period = rng.choice(ALGS), rng.randrange(7, 11), rng.choice([1, 60, 3600])
                    obj = T(key=key, format="raw", alg=alg, digits=digits, period=period, label="user", issuer="Acme")
                    for fmt, ser, load in (("dict", obj.to_dict, T.from_dict), ("json", obj.to_json, T.from_json), ("source", obj.to_json, T.from_source)):
                        g.case((tag, fmt, repr(secrets), cost, key))
                        o = outcome(ser)
                        wit = {"wallet": tag, "secrets": repr(secrets), "cost": cost, "format": fmt, "key": key.hex()}
                        if o[0] != "ok":
                            g.fail(f"{tag}:serialise", "serialising with application secrets raised", dict(wit, outcome=repr(o)))
                            continue
                        data = o[1] if isinstance(o[1], dict) else json.loads(o[1])
                        enc = data.get("enckey")
                        g.check("key" not in data and isinstance(enc, dict) and enc.get("t") == default and enc.get("c") == cost and enc.get("v") == 1, f"{tag}:enckey-shape", "serialised form does not carry the key encrypted under the default tag / cost", dict(wit, data=data))
                        back = outcome(lambda: load(ser()))
                        ok = back[0] == "ok" and fields(back[1]) == fields(obj) and not back[1].changed
                        g.check(ok, f"{tag}:roundtrip", "encrypted key does not decrypt to the original under the same wallet", dict(wit, outcome=repr(back)))
                        # wallets that still list the secret (other default tag, other cost, extra secrets)
                        norm = {str(k): v for k, v in secrets.items()}
                        others = [W(secrets=dict(norm, zz9="newer"), encrypt_cost=cost), W(secrets=norm, encrypt_cost=cost + 1), W(secrets={default: norm[default]}, encrypt_cost=cost), W(secrets=dict(norm, zz9="newer"), default_tag=default, encrypt_cost=cost)]
                        for k, w2 in enumerate(others):
                            T2 = TOTP.using(wallet=w2)
                            b2 = outcome(lambda: T2.from_dict(json.loads(json.dumps(data))))
                            ok = b2[0] == "ok" and fields(b2[1]) == fields(obj)
                            g.check(ok, f"{tag}:still-listed", "encrypted key does not decrypt to the original under a wallet that still lists the secret", dict(wit, other=k, outcome=repr(b2)))
                            if ok:
                                g.check(b2[1].changed == (k in (0, 1)), f"{tag}:needs-recrypt", "changed flag does not tell whether the tag / cost is out of date", dict(wit, other=k, changed=b2[1].changed))
                        # a wallet that no longer lists the secret cannot decrypt
                        T3 = TOTP.using(wallet=W(secrets={"other": "x"}, encrypt_cost=cost))
                        b3 = outcome(lambda: T3.from_dict(json.loads(json.dumps(data))))
                        g.check(b3[0] == "exc", f"{tag}:unlisted", "a key encrypted under a secret that is no longer listed was loaded", dict(wit, outcome=repr(b3)))
                    # plain serialisation on request, and the URI never carries the encrypted key
                    d = obj.to_dict(encrypt=False)
                    g.check(d.get("key") and "enckey" not in d and fields(T.from_dict(d)) == fields(obj), f"{tag}:encrypt-false", "to_dict(encrypt=False) round trip", {"wallet": tag, "data": d})
        # secrets in the three accepted notations
        for src in ({"1": "aa", "2": "bb"}, '{"1": "aa", "2": "bb"}', "1: aa\n2: bb\n", "# comment\n1:aa\n\n 2 : bb \n"):
            g.case((tag, "secrets-notation", repr(src)))
            o = outcome(lambda: (lambda w: (w.get_secret("1"), w.get_secret("2"), w.default_tag))(W(secrets=src)))
            g.check(o == ("ok", (b"aa", b"bb", "2")), f"{tag}:secrets-notation", "secrets given as dict / JSON / 'tag: value' lines do not denote the same secrets", {"source": repr(src), "outcome": repr(o)})
        for bad in ({"bad tag": "x"}, {"": "x"}, {"1": ""}, {"-x": "y"}, "nonsense"):
            g.case((tag, "bad-secrets", repr(bad)))
            o = outcome(W, secrets=bad)
            g.check(o[0] == "exc" and o[3], f"{tag}:bad-secrets", "malformed tag / empty secret not refused", {"source": repr(bad), "outcome": repr(o)})

    if totp_mod.AES_SUPPORT:
        g = G("wallet-aes", "AppWallet.encrypt_key/decrypt_key", "AES (cryptography) present: tags numeric/date/alphabetic x costs x key sizes 1..64 x dict/json/source x wallets still listing / no longer listing the secret")
        wallet_checks(g, AppWallet, "wallet")
        groups.append(g.done())
    else:
        skipped.append("wallet-aes: the 'cryptography' package is not installed (passlib.totp.AES_SUPPORT is False): encrypted-key round trips under real AES-256-CTR not run")

    class XorWallet(AppWallet):
        """the real AppWallet (tags, costs, PBKDF2 key derivation, dictionary format) with the AES-CTR primitive
        replaced by a stdlib key stream (SHA-256 in counter mode), so the wallet logic can run without AES"""

        @staticmethod
        def _cipher_aes_key(value, secret, salt, cost, decrypt=False):
            keyiv = hashlib.pbkdf2_hmac("sha256", secret, salt, 1 << cost, 48)
            stream = b"".join(hashlib.sha256(keyiv + struct.pack(">Q", i)).digest() for i in range(len(value) // 32 + 1))
            return bytes(a ^ b for a, b in zip(value, stream))

    g = G("wallet-logic-substituted-cipher", "AppWallet (tags, costs, enckey format) with a stand-in stream cipher", "NOT the AES path: AppWallet subclass whose cipher primitive is a stdlib SHA-256 key stream; tags numeric/date/alphabetic x costs x key sizes 1..64 x dict/json/source x wallets still listing / no longer listing the secret; secrets notations")
    wallet_checks(g, XorWallet, "wallet-logic")
    groups.append(g.done())

    return groups, skipped, stats


if __name__ == "__main__":
    main(build)
