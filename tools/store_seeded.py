#!/usr/bin/env python3
"""Copy verified seeded changes from /tmp/seed_out/<Cxx>/ to /verif/seeded/<Cxx>-<tag>/ (patch.diff, demo.py, meta.json)."""
import json, os, shutil, sys
tests = {}
for f in ("/tmp/seed_tests.txt", "/tmp/seed_tests2.txt"):
    if os.path.exists(f):
        for l in open(f):
            p = l.split()
            if len(p) >= 2:
                tests[p[0]] = l.strip()
for pid in sys.argv[1:]:
    src = f"/tmp/seed_out/{pid}"
    meta_src = {}
    try:
        meta_src = json.load(open(os.path.join(src, "meta.json")))
    except Exception:
        pass
    for tag in ("A", "B"):
        patch = os.path.join(src, f"patch_{tag}.diff")
        if not os.path.exists(patch):
            continue
        res = {}
        for tier in ("quick", "thorough"):
            f = os.path.join(src, f"check_result_{tier}.json")
            if os.path.exists(f):
                res[tier] = json.load(open(f)).get(tag)
        dst = os.path.join("/verif/seeded", f"{pid}-{tag}")
        os.makedirs(dst, exist_ok=True)
        shutil.copy(patch, os.path.join(dst, "patch.diff"))
        shutil.copy(os.path.join(src, f"demo_{tag}.py"), os.path.join(dst, "demo.py"))
        am = meta_src.get(tag) or meta_src.get(f"change_{tag}") or meta_src.get(tag.lower()) or {}
        meta = {
            "property": pid,
            "origin": "independent sub-agent given only the property text and a scratch worktree",
            "agent_notes": am if am else meta_src,
            "confirmed_by_me": {
                "applies_cleanly": True,
                "demo_exit_changed_tree": (res.get("quick") or {}).get("demo_changed"),
                "demo_exit_clean_tree": (res.get("quick") or {}).get("demo_clean"),
                "stable_suite": tests.get(f"{pid}_{tag}", "not re-run"),
                "commands": ["git -C /repo apply patch.diff; PYTHONPATH=/repo /venv/bin/python demo.py; ./check %s; git -C /repo checkout -- ." % pid,
                             "tools/verify_seeded_tests.sh patch.diff <tag>  (scratch worktree + tools/baseline_check.py: every stable_pass test still passes)"],
            },
            "check_result": res,
        }
        json.dump(meta, open(os.path.join(dst, "meta.json"), "w"), indent=1, default=str)
        print(dst, "caught" if (res.get("quick") or {}).get("violations") else "MISSED/unknown")
