"""C12, continued: transposed encode/decode over the offset tables the hashes use; padding-bit repair."""
import z3

from pyvc import extract
from pyvc.contract import BytesOfLen, Const, Contract, Obj, Str
from pyvc.runner import Finite
from pyvc.values import SInt, SList, SObj, SStr, SStub

B = "passlib/utils/binary.py"


def _tables():
    out = {
        "md5_crypt._transpose_map": tuple(extract.module_constant("passlib/handlers/md5_crypt.py", "_transpose_map")),
        "sha2_crypt._256_transpose_map": tuple(extract.module_constant("passlib/handlers/sha2_crypt.py", "_256_transpose_map")),
        "sha2_crypt._512_transpose_map": tuple(extract.module_constant("passlib/handlers/sha2_crypt.py", "_512_transpose_map")),
        "sun_md5_crypt._chk_offsets": tuple(extract.module_constant("passlib/handlers/sun_md5_crypt.py", "_chk_offsets")),
        "libpass.sha_crypt._256_transpose_map": tuple(extract.module_constant("libpass/hashers/sha_crypt.py", "_256_transpose_map")),
        "libpass.sha_crypt._512_transpose_map": tuple(extract.module_constant("libpass/hashers/sha_crypt.py", "_512_transpose_map")),
    }
    return out


def _capture_encode(it, args, kwargs):
    it.run.ghost["encoded"] = it.resolve(args[0])
    return SStr(z3.String(it.run.fresh("encoded")), "bytes")


def _enc_post(table):
    def post(it, env):
        got = it.static_items_req(it.run.ghost["encoded"])
        src = it.static_items_req(it.resolve(env.lookup("source")))
        if len(got) != len(table):
            return False
        return z3.And(*[it.to_z3(g, "int") == it.to_z3(src[o], "int") for g, o in zip(got, table)])

    return post


def _dec_setup(n):
    def setup(it, args):
        tmp = SList([SInt(z3.Int(f"tmp{k}")) for k in range(n)], "bytes")
        for x in tmp.items:
            it.run.assume(z3.And(x.e >= 0, x.e < 256))
        args["self"].fields["decode_bytes"] = SStub(lambda i, a, k: tmp, "decode_bytes", trusted="decode_bytes returns len(offsets) bytes (chunk codecs under their own contracts)")
        it.run.ghost["tmp"] = tmp
        return None

    return setup


def _dec_post(table):
    def post(it, env):
        res = it.static_items_req(it.resolve(env.lookup("result")))
        tmp = it.run.ghost["tmp"].items
        if len(res) != len(table):
            return False
        return z3.And(*[it.to_z3(res[o], "int") == tmp[k].e for k, o in enumerate(table)])

    return post


CONTRACTS = []
seen = set()
for name, table in _tables().items():
    if table in seen:
        continue
    seen.add(table)
    n = len(table)
    CONTRACTS.append(Contract(
        f"encode_transposed_bytes[{name}]", f"{B}::Base64Engine.encode_transposed_bytes",
        params={"self": Obj(cls=(B, "Base64Engine"), fields={"encode_bytes": SStub(_capture_encode, "encode_bytes", trusted="chunk codecs under their own contracts")}),
                "source": BytesOfLen(n), "offsets": Const(table)},
        ensures=[("the encoder receives byte k = source[offsets[k]]", _enc_post(table))],
        descr=f"every {n}-byte digest, the shipped table",
    ))
    if sorted(table) == list(range(n)):
        CONTRACTS.append(Contract(
            f"decode_transposed_bytes[{name}]", f"{B}::Base64Engine.decode_transposed_bytes",
            params={"self": Obj(cls=(B, "Base64Engine")), "source": Str(), "offsets": Const(table)},
            setup=_dec_setup(n),
            ensures=[("result[offsets[k]] = decoded byte k: the inverse of the transposition", _dec_post(table))],
            descr=f"every decoded {n}-byte string, the shipped table",
        ))


def _permutations():
    fails, cases = [], 0
    for name, t in _tables().items():
        cases += len(t)
        if sorted(t) != list(range(len(t))):
            fails.append({"key": f"transpose-table-not-a-permutation:{name}", "what": "offset table is not a permutation of range(len): decode_transposed_bytes cannot invert it", "witness": {"table": list(t)}})
    return {"cases": cases, "failures": fails, "samples": [{"tables": sorted(_tables())}]}


FINITE = [Finite("transpose-tables-are-permutations", _permutations, "every shipped transposition table is a permutation of its index range (so the two contracts compose to the identity)")]


# ---- padding-bit repair: finite and complete over the final character -----------------------------------------
def _repair_all():
    import functools

    from pyvc.concrete import load_class

    class _Exc:
        @staticmethod
        def ExpectedStringError(value, what):
            return TypeError(what)

    ns = {"memoized_property": functools.cached_property, "exc": _Exc}
    cls = load_class(B, "Base64Engine", ["__init__", "charmap", "_Base64Engine__make_padset" if False else "__make_padset", "_padinfo2", "_padinfo3", "check_repair_unused",
                                          "_encode_bytes_big", "_encode_bytes_little", "_decode_bytes_big", "_decode_bytes_little"], ns)
    charmaps = {"HASH64_CHARS": extract.module_constant(B, "HASH64_CHARS"), "BCRYPT_CHARS": extract.module_constant(B, "BCRYPT_CHARS")}
    engines = [("h64", "HASH64_CHARS", False), ("h64big", "HASH64_CHARS", True), ("bcrypt64", "BCRYPT_CHARS", True)]
    fails, cases = [], 0
    for ename, cmname, big in engines:
        cm = charmaps[cmname]
        eng = cls(cm, big=big)
        for tail in (0, 1, 2, 3):
            unused = {2: 4, 3: 2}.get(tail, 0)
            bits = 0 if not unused else ((1 << unused) - 1 if big else ((1 << unused) - 1) << (6 - unused))
            for prefix_kind in (0, 1):
                for as_text in (False, True):
                    for code in range(256):
                        body_len = tail - 1 if tail else 3
                        prefix = (cm[0] if prefix_kind == 0 else cm[37]) * (4 + body_len)
                        last = chr(code)
                        src = prefix + last
                        arg = src if as_text else src.encode("latin-1")
                        cases += 1
                        # oracle from the property statement: only the unused bits of the last sextet may be cleared
                        if tail == 1:
                            want = "ValueError"
                        elif tail == 0:
                            want = (False, arg)
                        elif last not in cm:
                            want = "ValueError"
                        else:
                            idx = cm.index(last)
                            new = idx & ~bits
                            rep = prefix + cm[new]
                            want = (new != idx, rep if as_text else rep.encode("latin-1"))
                        try:
                            got = eng.check_repair_unused(arg)
                        except ValueError:
                            got = "ValueError"
                        except Exception as err:  # noqa: BLE001
                            got = type(err).__name__
                        if got != want and len(fails) < 20:
                            fails.append({"key": f"repair-unused:{ename}:tail{tail}:{'str' if as_text else 'bytes'}:{code}", "what": f"check_repair_unused gave {got!r}, definition gives {want!r}",
                                          "witness": {"engine": ename, "source": repr(arg)}})
    return {"cases": cases, "failures": fails, "samples": [{"engine": "h64", "tail": 2, "unused_bits_mask": 60}],
            "functions": [{"file": B, "function": f"Base64Engine.{m}", "contract": "finite:repair-unused"} for m in ("check_repair_unused", "_padinfo2", "_padinfo3", "__make_padset", "__init__")]}


FINITE.append(Finite("repair-unused-every-final-character", _repair_all,
                     "check_repair_unused of the three shipped engines on every final byte/character, every length class mod 4, text and bytes: clears exactly the unused bits, refuses foreign characters and length 1 mod 4"))


# ---- the dot-variant and typo-correcting wrappers translate their input whatever its type ---------------------------------
def _capture(name):
    def f(it, a, k):
        it.run.ghost[name] = it.resolve(a[0])
        return SStr(z3.String(it.run.fresh("decoded")), "bytes")

    return SStub(f, name)


def _ab64_post(it, env):
    got = it.to_z3(it.run.ghost["b64s_decode"])
    data = SStr(it.to_z3(env.lookup("data")), "bytes")  # ASCII input: the bytes are the characters
    want = it.to_z3(it.m_text_replace(data, b".", b"+"))  # replace-all, in the engine's own model of bytes.replace
    return got == want  # as text or as bytes: b64s_decode takes either


from pyvc.contract import Bytes  # noqa: E402

for _file, _tag in ((B, "passlib"), ("libpass/_utils/deprecated.py", "libpass")):
    for _kind, _t in (("text", Str()), ("bytes", Bytes())):
        CONTRACTS.append(Contract(
            f"ab64_decode[{_tag}, {_kind}]", f"{_file}::ab64_decode",
            params={"data": _t},
            globals={"b64s_decode": _capture("b64s_decode")},
            requires=[lambda it, env: it.all_codes_below(it.to_z3(env.lookup("data")), 128)],
            raises={"ValueError": None},
            ensures=[("the standard decoder receives the input with every '.' mapped to '+', for text and bytes input alike", _ab64_post)],
            descr=f"every ASCII {_kind} input",
        ))


def _b32_table():
    """_b32_translate, computed by the REAL compile_byte_translation from the mapping literal in the source"""
    import ast as _ast

    from pyvc.concrete import load_function

    tree, _ = extract.module_ast(B)
    mapping = None
    for st in tree.body:
        if isinstance(st, _ast.Assign) and any(isinstance(t, _ast.Name) and t.id == "_b32_translate" for t in st.targets) and isinstance(st.value, _ast.Call):
            mapping = _ast.literal_eval(st.value.args[0])
    if mapping is None:
        raise extract.ExtractError("_b32_translate = compile_byte_translation({...}) not found")
    fn, _info = load_function(f"{B}::compile_byte_translation", {"_TRANSLATE_SOURCE": [bytes([i]) for i in range(256)], "unicode_or_bytes": (str, bytes), "B_EMPTY": b"", "Mapping": dict, "AnyStr": str})
    return fn(mapping)


def _b32_post(it, env):
    got = it.to_z3(it.run.ghost["_b32decode"])
    data = SStr(it.to_z3(env.lookup("source")), "bytes")
    table = _b32_table()
    old = it.spec
    it.spec = True
    try:
        tr = it.to_z3(it.m_text_translate(data, table))
    finally:
        it.spec = old
    n = z3.Length(tr)
    pad = (8 - n % 8) % 8
    return z3.And(z3.PrefixOf(tr, got), z3.Length(got) == n + pad, z3.Length(got) % 8 == 0,
                  z3.InRe(z3.SubString(got, n, pad), z3.Star(z3.Re("="))))


for _kind, _t in (("text", Str()), ("bytes", Bytes())):
    CONTRACTS.append(Contract(
        f"b32decode[{_kind}]", f"{B}::b32decode",
        params={"source": _t},
        globals={"_b32decode": _capture("_b32decode"), "_b32_translate": _b32_table()},
        requires=[lambda it, env: it.all_codes_below(it.to_z3(env.lookup("source")), 128)],
        ensures=[("the standard decoder receives the input with the mistyped characters corrected ('8' -> 'B', '0' -> 'O'), padded with '=' to a multiple of 8 -- for text and bytes input alike", _b32_post)],
        descr=f"every ASCII {_kind} input",
    ))


# ---- the unpadded base64 helper restores exactly the padding that was stripped ------------------------------------------------
def _b64s_post(it, env):
    got = it.to_z3(it.run.ghost["a2b_base64"])
    data = it.to_z3(env.lookup("data"))
    n = z3.Length(data)
    pad = z3.If(n % 4 == 2, z3.StringVal("=="), z3.If(n % 4 == 3, z3.StringVal("="), z3.StringVal("")))
    return z3.And(got == z3.Concat(data, pad), z3.Length(got) % 4 == 0)


for _file, _tag, _stub in ((B, "passlib", "a2b_base64"), ("libpass/_utils/deprecated.py", "libpass", "binascii")):
    for _kind, _t in (("text", Str()), ("bytes", Bytes())):
        _g = {"a2b_base64": _capture("a2b_base64")} if _stub == "a2b_base64" else {"binascii": SObj("binascii", fields={"a2b_base64": _capture("a2b_base64"), "Error": __import__("pyvc.symexec", fromlist=["exc_class"]).exc_class("ValueError")})}
        CONTRACTS.append(Contract(
            f"b64s_decode[{_tag}, {_kind}]", f"{_file}::b64s_decode",
            params={"data": _t},
            globals=_g,
            requires=[lambda it, env: it.all_codes_below(it.to_z3(env.lookup("data")), 128)],
            raises_iff={"ValueError": "len(data) % 4 == 1"},
            ensures=[("the standard decoder receives the input padded with '=' to a multiple of four ('==' after two leftover characters, '=' after three); one leftover character is refused", _b64s_post)],
            descr=f"every ASCII {_kind} input",
        ))
