"""Bounded stand-in for C12: binary-to-text encoders driven exhaustively / densely against oracles written
from the definitions and the stdlib base64 module (under alphabet translation).

Engines h64 (little-endian), h64big, bcrypt64, Base64Engine over random charmaps; b64s/ab64 helpers; base32
with typo repair; encode_int6/12/24/30/64; padding-bit repair; transposed codecs; the libpass copies.
"""
import base64
import binascii
import time

from common import Group, main, outcome

STD = b"ABCDEFGHIJKLMNOPQRSTUVWXYZabcdefghijklmnopqrstuvwxyz0123456789+/"
H64 = b"./0123456789ABCDEFGHIJKLMNOPQRSTUVWXYZabcdefghijklmnopqrstuvwxyz"
BC64 = b"./ABCDEFGHIJKLMNOPQRSTUVWXYZabcdefghijklmnopqrstuvwxyz0123456789"
B32 = "ABCDEFGHIJKLMNOPQRSTUVWXYZ234567"


class CGroup(Group):
    """Group with a bulk counter (exhaustive blocks are not stored one ident per case)"""

    def __init__(self, *a):
        super().__init__(*a)
        self.extra = 0
        self.elapsed = None

    def done(self):
        self.elapsed = round(time.time() - self.t0, 2)
        return self

    def bulk(self, n, ident):
        self.cases += n
        self.extra += n
        if len(self.samples) < 3:
            self.samples.append(ident)

    def out(self):
        d = super().out()
        d["distinct"] += self.extra
        if self.elapsed is not None:
            d["seconds"] = self.elapsed
        return d


# ---------------------------------------------------------------------------------------------------
# oracles (never the library)
# ---------------------------------------------------------------------------------------------------
def digits_little(data):
    """definition: 24-bit group g = b0 + b1*2^8 + b2*2^16, digit k = (g >> 6k) & 63; a 1-byte tail gives
    2 digits, a 2-byte tail 3 digits"""
    out = []
    for i in range(0, len(data), 3):
        grp = data[i : i + 3]
        g = 0
        for j, b in enumerate(grp):
            g += b << (8 * j)
        for k in range((8 * len(grp) + 5) // 6):
            out.append((g >> (6 * k)) & 63)
    return out


def digits_big(data):
    """standard base64 bit order: the bytes as one big-endian number, zero-padded on the right to a multiple
    of 6 bits, digits most significant first"""
    nbits = 8 * len(data)
    pad = -nbits % 6
    n = int.from_bytes(data, "big") << pad
    cnt = (nbits + pad) // 6
    return [(n >> (6 * (cnt - 1 - k))) & 63 for k in range(cnt)]


def ref_encode(data, cm, big):
    return bytes(cm[d] for d in (digits_big(data) if big else digits_little(data)))


def ref_encode_std(data, cm):
    """stdlib base64 under alphabet translation (big-endian engines only)"""
    return base64.b64encode(data).rstrip(b"=").translate(bytes.maketrans(STD, cm))


def ref_decode(text, cm, big):
    """decode ignoring the unused bits of the last digit; text over cm, len % 4 != 1"""
    idx = {c: i for i, c in enumerate(cm)}
    ds = [idx[c] for c in text]
    nbytes = len(ds) * 6 // 8
    if big:
        n = 0
        for d in ds:
            n = (n << 6) | d
        n >>= 6 * len(ds) - 8 * nbytes
        return n.to_bytes(nbytes, "big")
    n = 0
    for k, d in enumerate(ds):
        n |= d << (6 * k)
    n &= (1 << (8 * nbytes)) - 1
    return n.to_bytes(nbytes, "little")


def ref_decode_std(text, cm):
    """stdlib decode under alphabet translation with '=' padding restored (big-endian engines);
    the stdlib (non-strict) ignores the unused bits as well"""
    t = text.translate(bytes.maketrans(cm, STD))
    return binascii.a2b_base64(t + b"=" * (-len(t) % 4))


def bulk_little_std(data, cm):
    """little-endian encoding of a whole number of 3-byte groups through the stdlib: the digits of a group
    in little-endian order are the standard digits of the byte-reversed group, reversed.  (Identity derived
    from the definition; cross-checked against digits_little in the self-check below.)"""
    assert len(data) % 3 == 0
    return base64.b64encode(data[::-1]).translate(bytes.maketrans(STD, cm))[::-1]


def ref_int(v, bits, cm, big):
    """fixed-width integer encodings: ceil(bits/6) digits; little: digit k = (v >> 6k) & 63, unused bits are
    the top bits of the last digit; big: v shifted left by the pad, most significant digit first"""
    pad = -bits % 6
    cnt = (bits + pad) // 6
    if big:
        n = v << pad
        ds = [(n >> (6 * (cnt - 1 - k))) & 63 for k in range(cnt)]
    else:
        ds = [(v >> (6 * k)) & 63 for k in range(cnt)]
    return bytes(cm[d] for d in ds)


def ref_int_decode(text, bits, cm, big):
    idx = {c: i for i, c in enumerate(cm)}
    pad = -bits % 6
    n = 0
    if big:
        for c in text:
            n = (n << 6) | idx[c]
        return n >> pad
    for k, c in enumerate(text):
        n |= idx[c] << (6 * k)
    return n & ((1 << bits) - 1)


def kname(name):
    """stable key prefix: all random-charmap engines share the prefix 'custom'"""
    return "custom" if name.startswith("custom") else name


def is_value_error(o):
    return o[0] == "exc" and o[1] in VALUE_ERRORS


VALUE_ERRORS = {"ValueError", "Error", "UnicodeEncodeError", "UnicodeDecodeError"}  # binascii.Error and Unicode*Error are ValueErrors


def build(tier, rng):
    quick = tier == "quick"
    import passlib.utils.binary as B
    from passlib.utils.binary import Base64Engine, LazyBase64Engine

    groups = []
    skipped = []

    # ---- oracle self-check (harness sanity, not a verdict on the library) ------------------------
    for n in range(0, 40):
        d = rng.randbytes(n)
        assert ref_encode(d, H64, True) == ref_encode_std(d, H64), "big-endian oracle disagrees with stdlib"
        assert ref_decode(ref_encode(d, H64, True), H64, True) == d
        assert ref_decode(ref_encode(d, H64, False), H64, False) == d
        assert ref_decode_std(ref_encode(d, BC64, True), BC64) == d
        if n % 3 == 0:
            assert bulk_little_std(d, H64) == ref_encode(d, H64, False), "bulk little-endian oracle disagrees with the definition"

    engines = [("h64", B.h64, H64, False), ("h64big", B.h64big, H64, True), ("bcrypt64", B.bcrypt64, BC64, True)]

    # declared alphabets / endianness of the three shipped engines
    g = CGroup("engine-constants", "h64/h64big/bcrypt64", "charmap, bytemap, big flag of the three shipped engines; passlib.utils re-exports")
    import passlib.utils as U

    for name, eng, cm, big in engines:
        g.case(name)
        g.check(eng.bytemap == cm and eng.charmap == cm.decode("ascii") and bool(eng.big) == big, f"{name}:constants", "engine alphabet / endianness differ from the published definition", {"engine": name, "bytemap": repr(eng.bytemap), "big": eng.big})
        g.check(getattr(U, name) is eng, f"{name}:reexport", "passlib.utils re-export is a different object", {"engine": name})
    g.check(B.HASH64_CHARS.encode() == H64 and B.BCRYPT_CHARS.encode() == BC64 and B.BASE64_CHARS.encode() == STD and B.AB64_CHARS.encode() == STD.replace(b"+", b"."), "constants:charmaps", "published character maps differ", {})
    groups.append(g.done())

    # ---- encode_bytes / decode_bytes per engine ----------------------------------------------------
    def bytes_group(name, eng, cm, big, label, n3, per_len, bulk_exhaustive):
        g = CGroup(f"bytes:{label}", f"Base64Engine.encode_bytes/decode_bytes[{label}]", f"all 1- and 2-byte inputs; {'all 2^24' if bulk_exhaustive else n3} 3-byte groups; {per_len} random strings of every length 0..200; oracle: definition" + (" + stdlib base64 under translation" if big else ""))
        cmset = set(cm)

        def one(data, key):
            enc = eng.encode_bytes(data)
            want = ref_encode(data, cm, big)
            ok = g.check(enc == want and isinstance(enc, bytes), f"{name}:encode:{key}", "encode_bytes differs from the definition", {"engine": label, "data": data.hex(), "got": repr(enc), "want": repr(want)})
            if big:
                g.check(enc == ref_encode_std(data, cm), f"{name}:encode-vs-stdlib:{key}", "encode_bytes differs from stdlib base64 under alphabet translation", {"engine": label, "data": data.hex(), "got": repr(enc)})
            g.check(set(enc) <= cmset and len(enc) == (8 * len(data) + 5) // 6, f"{name}:alphabet", "output leaves the alphabet or has the wrong length", {"engine": label, "data": data.hex(), "got": repr(enc)})
            o = outcome(eng.decode_bytes, want)
            g.check(o == ("ok", data), f"{name}:decode:{key}", "decode_bytes(encoding) is not the original", {"engine": label, "data": data.hex(), "text": repr(want), "outcome": repr(o)})
            return ok

        for v in range(256):
            one(bytes([v]), "1byte")
        g.bulk(256, "all 1-byte inputs")
        for v in range(65536):
            one(v.to_bytes(2, "big"), "2byte")
        g.bulk(65536, "all 2-byte inputs")
        for _ in range(n3):
            one(rng.randbytes(3), "3byte")
        g.bulk(n3, f"{n3} random 3-byte groups (single calls)")
        # 3-byte groups in bulk: one call over the concatenation (the group loop handles each group alone)
        if bulk_exhaustive:
            blocks = ((hi, b"".join((hi << 16 | lo).to_bytes(3, "big") for lo in range(65536))) for hi in range(256))
        else:
            blocks = [(-1, b"".join(rng.randbytes(3) for _ in range(65536)))]
        for hi, data in blocks:
            enc = eng.encode_bytes(data)
            want = ref_encode_std(data, cm) if big else bulk_little_std(data, cm)
            if enc != want:
                # locate the first differing group
                i = next(i for i in range(0, len(want), 4) if enc[i : i + 4] != want[i : i + 4])
                grp = data[i // 4 * 3 : i // 4 * 3 + 3]
                g.fail(f"{name}:encode:3byte", "encode_bytes differs from the definition on a 3-byte group", {"engine": label, "data": grp.hex(), "got": repr(enc[i : i + 4]), "want": repr(want[i : i + 4])})
            dec = eng.decode_bytes(want)
            if dec != data:
                i = next(i for i in range(0, len(data), 3) if dec[i : i + 3] != data[i : i + 3])
                g.fail(f"{name}:decode:3byte", "decode_bytes(encoding) is not the original 3-byte group", {"engine": label, "data": data[i : i + 3].hex(), "text": repr(want[i // 3 * 4 : i // 3 * 4 + 4]), "got": dec[i : i + 3].hex()})
            g.bulk(len(data) // 3, f"3-byte groups block {hi}")
        for n in range(0, 201):
            for _ in range(per_len):
                data = rng.randbytes(n)
                g.case((n, data))
                one(data, "string")
        return g.done()

    for name, eng, cm, big in engines:
        groups.append(bytes_group(name, eng, cm, big, name, 4096 if quick else 65536, 4 if quick else 40, not quick))

    # Base64Engine in general: random charmaps (ASCII permutations and arbitrary latin-1 bytes), both orders
    custom = []
    for i in range(4 if quick else 12):
        if i % 2 == 0:
            cm = list(STD)
            rng.shuffle(cm)
            cm = bytes(cm)
        else:
            cm = bytes(rng.sample(range(256), 64))
        big = bool((i // 2) % 2)
        arg = cm if i % 3 else cm.decode("latin-1")
        ctor = LazyBase64Engine if i % 4 == 3 else Base64Engine
        custom.append((f"custom{i}", ctor(arg, big=big), cm, big))
    for name, eng, cm, big in custom:
        groups.append(bytes_group("custom", eng, cm, big, f"{name}:{'big' if big else 'little'}", 1024 if quick else 8192, 1 if quick else 5, False))
    # from here on the random-charmap engines report under the key prefix 'custom'
    custom = [(kname(n), e, c, b) for n, e, c, b in custom]

    # ---- decoding of arbitrary text: unused padding bits are ignored, nothing else --------------------
    g = CGroup("decode-any-text", "Base64Engine.decode_bytes", "every 2-character string; 3-character strings: every final character x " + ("512 random prefixes" if quick else "all 4096 prefixes") + "; 4-character strings sampled; per engine; oracle: definition (+ stdlib for big-endian)")
    for name, eng, cm, big in engines + custom[:2]:
        two = [bytes([a, b]) for a in cm for b in cm]
        pre3 = two if not quick else [rng.choice(two) for _ in range(512)]
        texts = two + [p + bytes([c]) for p in pre3 for c in cm] + [bytes(rng.choice(cm) for _ in range(4)) for _ in range(4096)]
        for t in texts:
            want = ref_decode(t, cm, big)
            o = outcome(eng.decode_bytes, t)
            g.check(o == ("ok", want), f"{name}:decode-text:len{len(t)}", "decode_bytes differs from the definition (unused bits ignored)", {"engine": name, "charmap": repr(cm), "big": big, "text": repr(t), "outcome": repr(o), "want": want.hex()})
            if big:
                g.check(ref_decode_std(t, cm) == want, "oracle:stdlib-decode", "harness: stdlib oracle disagrees with definition", {"text": repr(t)})
        g.bulk(len(texts), f"{name}: {len(texts)} texts")
    groups.append(g.done())

    # ---- padding-bit repair ------------------------------------------------------------------------
    g = CGroup("repair-unused", "Base64Engine.check_repair_unused/repair_unused", "every final character x tail lengths 2 and 3 (x bytes and str, x 16 random prefixes of 0..40 characters incl. the empty one); len%4==0 unchanged; len%4==1 refused")
    for name, eng, cm, big in engines + custom[:4]:
        n = 0
        for tail in (2, 3):
            prefixes = [b""] + [bytes(rng.choice(cm) for _ in range(4 * rng.randrange(0, 10))) for _ in range(15)]
            for pre in prefixes:
                body = bytes(rng.choice(cm) for _ in range(tail - 1))
                for last in cm:
                    t = pre + body + bytes([last])
                    canon = ref_encode(ref_decode(t, cm, big), cm, big)
                    for src, want in ((t, canon), (t.decode("latin-1"), canon.decode("latin-1"))):
                        n += 1
                        o = outcome(eng.check_repair_unused, src)
                        g.check(o == ("ok", (want != src, want)) and (o[0] != "ok" or type(o[1][1]) is type(src)), f"{name}:repair:tail{tail}", "check_repair_unused is not (changed?, text with the unused bits cleared)", {"engine": name, "charmap": repr(cm), "big": big, "text": repr(src), "outcome": repr(o), "want": repr((want != src, want))})
                        o2 = outcome(eng.repair_unused, src)
                        g.check(o2 == ("ok", want), f"{name}:repair_unused:tail{tail}", "repair_unused is not the canonical text", {"engine": name, "text": repr(src), "outcome": repr(o2)})
                    # repaired text decodes to the same bytes, and re-encodes to itself
                    g.check(outcome(eng.decode_bytes, canon) == outcome(eng.decode_bytes, t), f"{name}:repair:same-bytes", "repaired text decodes to other bytes", {"engine": name, "text": repr(t)})
        for ln in (0, 4, 8, 40):
            for _ in range(16):
                t = bytes(rng.choice(cm) for _ in range(ln))
                for src in (t, t.decode("latin-1")):
                    n += 1
                    o = outcome(eng.check_repair_unused, src)
                    g.check(o == ("ok", (False, src)), f"{name}:repair:tail0", "full groups must be returned unchanged", {"engine": name, "text": repr(src), "outcome": repr(o)})
        for ln in (1, 5, 9, 41):
            t = bytes(rng.choice(cm) for _ in range(ln))
            for src in (t, t.decode("latin-1")):
                n += 1
                o = outcome(eng.check_repair_unused, src)
                g.check(is_value_error(o), f"{name}:repair:len1mod4", "length == 1 mod 4 not refused with ValueError", {"engine": name, "text": repr(src), "outcome": repr(o)})
        g.bulk(n, f"{name}: {n} repair calls")
    # a final character outside the alphabet
    for name, eng, cm, big in engines:
        foreign = [c for c in b"!$%^&*()=~ \x00\xff" if c not in cm]
        for tail in (2, 3):
            for c in foreign:
                t = cm[:1] * (tail - 1) + bytes([c])
                for src in (t, t.decode("latin-1")):
                    g.case((name, "foreign", src))
                    o = outcome(eng.check_repair_unused, src)
                    g.check(is_value_error(o), "repair:foreign-last-char-" + ("bytes" if isinstance(src, bytes) else "str"), "check_repair_unused on a final character outside the alphabet does not raise ValueError", {"engine": name, "text": repr(src), "outcome": repr(o)})
    groups.append(g.done())

    # ---- integer codecs ----------------------------------------------------------------------------
    g = CGroup("int-codecs", "Base64Engine.encode_int*/decode_int*", "all 6- and 12-bit integers; 24-bit: " + ("65536 sampled" if quick else "all 2^24 for h64/h64big, 2^18 sampled for others") + "; 30- and 64-bit sampled incl. edges; every text for int6/int12, sampled texts for 24/30/64 incl. every last character (unused bits of int64); out-of-range / wrong length / foreign character refused")
    widths = {6: 1, 12: 2, 24: 4, 30: 5, 64: 11}
    for name, eng, cm, big in engines + custom[:4]:
        cmset = set(cm)
        enc = {b: getattr(eng, f"encode_int{b}") for b in widths}
        dec = {b: getattr(eng, f"decode_int{b}") for b in widths}

        def one_int(bits, v):
            want = ref_int(v, bits, cm, big)
            o = outcome(enc[bits], v)
            g.check(o == ("ok", want), f"{name}:encode_int{bits}", "integer encoding differs from the definition", {"engine": name, "charmap": repr(cm), "big": big, "value": v, "outcome": repr(o), "want": repr(want)})
            o = outcome(dec[bits], want)
            g.check(o == ("ok", v), f"{name}:decode_int{bits}", "decode(encode(v)) != v", {"engine": name, "charmap": repr(cm), "big": big, "value": v, "text": repr(want), "outcome": repr(o)})

        for v in range(64):
            one_int(6, v)
        for v in range(4096):
            one_int(12, v)
        g.bulk(64 + 4096, f"{name}: all 6/12-bit")
        # 24 bit: table-driven oracle for the exhaustive sweep
        t12 = [bytes([cm[x >> 6], cm[x & 63]]) if big else bytes([cm[x & 63], cm[x >> 6]]) for x in range(4096)]
        if not quick and name in ("h64", "h64big"):
            e24, d24 = enc[24], dec[24]
            assert all((t12[v >> 12] + t12[v & 4095] if big else t12[v & 4095] + t12[v >> 12]) == ref_int(v, 24, cm, big) for v in range(0, 1 << 24, 4099))
            for v in range(1 << 24):
                want = t12[v >> 12] + t12[v & 4095] if big else t12[v & 4095] + t12[v >> 12]
                if e24(v) != want:
                    g.fail(f"{name}:encode_int24", "integer encoding differs from the definition", {"engine": name, "value": v, "got": repr(e24(v)), "want": repr(want)})
                if d24(want) != v:
                    g.fail(f"{name}:decode_int24", "decode(encode(v)) != v", {"engine": name, "value": v, "text": repr(want)})
            g.bulk(1 << 24, f"{name}: all 24-bit")
        else:
            vs = [0, 1, 63, 64, 4095, 4096, (1 << 18) - 1, 1 << 18, (1 << 24) - 1] + [rng.getrandbits(24) for _ in range(65536 if quick else 1 << 18)]
            for v in vs:
                one_int(24, v)
            g.bulk(len(vs), f"{name}: sampled 24-bit")
        # int24 of the group value equals the byte encoding of the group (ties ints to bytes; stdlib for big)
        for _ in range(2048):
            v = rng.getrandbits(24)
            o = outcome(enc[24], v)
            want = ref_encode(v.to_bytes(3, "big" if big else "little"), cm, big)
            g.check(o == ("ok", want), f"{name}:int24-vs-bytes", "encode_int24(g) differs from the byte encoding of the group g", {"engine": name, "value": v, "outcome": repr(o)})
        for bits in (30, 64):
            vs = [0, 1, 2, 3, (1 << bits) - 1, (1 << bits) - 2, 1 << (bits - 1), (1 << (bits - 1)) - 1] + [1 << k for k in range(bits)] + [rng.getrandbits(bits) for _ in range(8192 if quick else 131072)] + [rng.getrandbits(rng.randrange(1, bits + 1)) for _ in range(2048)]
            for v in vs:
                one_int(bits, v)
            g.bulk(len(vs), f"{name}: sampled {bits}-bit")
        if big:
            for _ in range(1024):
                v = rng.getrandbits(64)
                g.check(outcome(enc[64], v) == ("ok", ref_encode_std(v.to_bytes(8, "big"), cm)), f"{name}:int64-vs-stdlib", "encode_int64 differs from stdlib base64 of the 8 big-endian bytes", {"engine": name, "value": v})
        # arbitrary texts of the right length
        for bits, width in widths.items():
            if width <= 2:
                texts = [bytes(t) for t in ([[a] for a in cm] if width == 1 else [[a, b] for a in cm for b in cm])]
            else:
                texts = [bytes(rng.choice(cm) for _ in range(width)) for _ in range(2048)]
                base = bytes(rng.choice(cm) for _ in range(width))
                # every first / last character (the unused bits of int64 live in the last one)
                texts += [base[:-1] + bytes([c]) for c in cm] + [bytes([c]) + base[1:] for c in cm]
            for t in texts:
                want = ref_int_decode(t, bits, cm, big)
                o = outcome(dec[bits], t)
                g.check(o == ("ok", want), f"{name}:decode_int{bits}:text", "decode_int differs from the definition (only unused bits ignored)", {"engine": name, "charmap": repr(cm), "big": big, "text": repr(t), "outcome": repr(o), "want": want})
                if o[0] == "ok" and bits != 64:
                    g.check(outcome(enc[bits], o[1]) == ("ok", t), f"{name}:int{bits}:bijection", "encode(decode(text)) != text for a width without unused bits", {"engine": name, "text": repr(t)})
            g.bulk(len(texts), f"{name}: {bits}-bit texts")
        # refusals
        foreign = bytes(c for c in b"!$%^&*()=~ \x00\xff" if c not in cmset)
        for bits, width in widths.items():
            for v in (-1, 1 << bits, (1 << bits) + 1, -(1 << bits), 1 << 70):
                g.case((name, "range", bits, v))
                o = outcome(enc[bits], v)
                g.check(is_value_error(o), f"{name}:encode_int{bits}:range", "out-of-range integer not refused with ValueError", {"engine": name, "value": v, "outcome": repr(o)})
            good = ref_int(0, bits, cm, big)
            for bad in {b"", good[:-1], good + good[:1], good * 2}:
                g.case((name, "length", bits, bad))
                o = outcome(dec[bits], bad)
                g.check(is_value_error(o), f"{name}:decode_int{bits}:length", "wrong-length text not refused with ValueError", {"engine": name, "text": repr(bad), "outcome": repr(o)})
            for c in foreign:
                for pos in {0, width - 1, width // 2}:
                    bad = good[:pos] + bytes([c]) + good[pos + 1 :]
                    g.case((name, "foreign", bits, bad))
                    o = outcome(dec[bits], bad)
                    g.check(is_value_error(o), f"{name}:decode_int{bits}:foreign", "character outside the alphabet not refused with ValueError", {"engine": name, "text": repr(bad), "outcome": repr(o)})
            for wrong in (good.decode("latin-1"), None, 5):
                g.case((name, "type", bits, repr(wrong)))
                o = outcome(dec[bits], wrong)
                g.check(o[0] == "exc" and o[1] == "TypeError", f"{name}:decode_int{bits}:type", "non-bytes text not refused with TypeError", {"engine": name, "arg": repr(wrong), "outcome": repr(o)})
            for wrong in ("1", None, 1.5, b"1"):
                g.case((name, "type-enc", bits, repr(wrong)))
                o = outcome(enc[bits], wrong)
                g.check(o[0] == "exc" and o[1] == "TypeError", f"{name}:encode_int{bits}:type", "non-integer value not refused with TypeError", {"engine": name, "arg": repr(wrong), "outcome": repr(o)})
    groups.append(g.done())

    # ---- refusals of encode_bytes / decode_bytes / constructor ------------------------------------------
    g = CGroup("bytes-refusals", "Base64Engine.decode_bytes", "lengths 1 mod 4 (1..41); a foreign character at every position of texts of length 2..12; str / None / int arguments; bad charmaps")
    for name, eng, cm, big in engines + custom[:2]:
        foreign = bytes(c for c in b"!$%^&*()=~ \n\x00\xff-_+" if c not in cm)
        for ln in range(1, 42, 4):
            t = bytes(rng.choice(cm) for _ in range(ln))
            g.case((name, "len", ln))
            o = outcome(eng.decode_bytes, t)
            g.check(is_value_error(o), f"{name}:decode:len1mod4", "length == 1 mod 4 not refused with ValueError", {"engine": name, "text": repr(t), "outcome": repr(o)})
        for ln in (2, 3, 4, 6, 7, 8, 11, 12):
            for pos in range(ln):
                for c in foreign:
                    t = bytearray(rng.choice(cm) for _ in range(ln))
                    t[pos] = c
                    t = bytes(t)
                    g.case((name, "foreign", t))
                    o = outcome(eng.decode_bytes, t)
                    g.check(is_value_error(o), f"{name}:decode:foreign", "character outside the alphabet not refused with ValueError", {"engine": name, "text": repr(t), "outcome": repr(o)})
        for wrong in ("ab", None, 5, ["a", "b"]):
            g.case((name, "type", repr(wrong)))
            for fn in (eng.decode_bytes, eng.encode_bytes):
                o = outcome(fn, wrong)
                g.check(o[0] == "exc" and o[1] == "TypeError", f"{name}:bytes:type", "non-bytes argument not refused with TypeError", {"engine": name, "fn": fn.__name__, "arg": repr(wrong), "outcome": repr(o)})
    for bad, want in ((STD[:63], ValueError), (STD + b"-", ValueError), (STD[:63] + b"A", ValueError), (b"", ValueError), (STD.decode()[:62] + "AA", ValueError), (5, TypeError), (None, TypeError)):
        g.case(("ctor", repr(bad)))
        try:
            Base64Engine(bad)
            res = "accepted"
        except want:
            res = None
        except Exception as err:  # noqa: BLE001
            res = type(err).__name__
        g.check(res is None, "ctor:refusal", "Base64Engine did not refuse a charmap that is not 64 distinct characters with ValueError (TypeError for non-strings)", {"charmap": repr(bad), "outcome": res})
    groups.append(g.done())

    # ---- transposed codecs ---------------------------------------------------------------------------
    g = CGroup("transposed", "Base64Engine.encode_transposed_bytes/decode_transposed_bytes", "offset tables of md5_crypt, sha256_crypt, sha512_crypt (passlib and libpass), sha1_crypt and sun_md5_crypt (encode only: not permutations) x random sources; random permutations of length 1..64 x three engines")
    tables = []
    try:
        from passlib.handlers import md5_crypt as _m, sha2_crypt as _s

        tables += [("md5_crypt", tuple(_m._transpose_map), 16), ("sha256_crypt", tuple(_s._256_transpose_map), 32), ("sha512_crypt", tuple(_s._512_transpose_map), 64)]
    except Exception as err:  # noqa: BLE001
        skipped.append(f"passlib transpose maps: {type(err).__name__}: {err}")
    try:
        from libpass.hashers import sha_crypt as _ls

        tables += [("libpass.sha256", tuple(_ls._256_transpose_map), 32), ("libpass.sha512", tuple(_ls._512_transpose_map), 64)]
    except Exception as err:  # noqa: BLE001
        skipped.append(f"libpass transpose maps: {type(err).__name__}: {err}")
    try:
        from passlib.handlers import sha1_crypt as _s1, sun_md5_crypt as _sm

        tables += [("sha1_crypt", tuple(_s1.sha1_crypt._chk_offsets), 20), ("sun_md5_crypt", tuple(_sm._chk_offsets), 16)]
    except Exception as err:  # noqa: BLE001
        skipped.append(f"sha1/sun_md5 offsets: {type(err).__name__}: {err}")
    try:
        from libpass._utils.binary import h64_engine as lp_h64
    except Exception as err:  # noqa: BLE001
        lp_h64 = None
        skipped.append(f"libpass h64_engine: {type(err).__name__}: {err}")
    for tname, offs, size in tables:
        perm = sorted(offs) == list(range(size))
        if tname in ("md5_crypt", "sha256_crypt", "sha512_crypt", "libpass.sha256", "libpass.sha512"):
            g.check(perm, f"transpose:{tname}:permutation", "the hash's transpose map is not a permutation of the digest bytes", {"table": tname, "offsets": list(offs)})
        for _ in range(64 if quick else 1024):
            src = rng.randbytes(size)
            g.case((tname, src))
            want = ref_encode(bytes(src[o] for o in offs), H64, False)
            o = outcome(B.h64.encode_transposed_bytes, src, offs)
            g.check(o == ("ok", want), f"transpose:{tname}:encode", "encode_transposed_bytes != encode(bytes(source[o] for o in offsets))", {"table": tname, "source": src.hex(), "outcome": repr(o)})
            if lp_h64 is not None:
                o = outcome(lp_h64.encode_transposed_bytes, src, offs)
                g.check(o == ("ok", want), f"transpose:{tname}:encode:libpass", "libpass encode_transposed_bytes differs", {"table": tname, "source": src.hex(), "outcome": repr(o)})
            if perm:
                o = outcome(B.h64.decode_transposed_bytes, want, offs)
                g.check(o == ("ok", src), f"transpose:{tname}:decode", "decode_transposed_bytes does not undo the transposition", {"table": tname, "source": src.hex(), "outcome": repr(o)})
    if len(tables) >= 5:
        g.check(tables[1][1] == tables[3][1] and tables[2][1] == tables[4][1], "transpose:libpass-tables", "libpass transpose maps differ from passlib's", {})
    for size in range(1, 65):
        for _ in range(4 if quick else 32):
            offs = list(range(size))
            rng.shuffle(offs)
            src = rng.randbytes(size)
            for name, eng, cm, big in engines:
                g.case((name, tuple(offs), src))
                want = ref_encode(bytes(src[o] for o in offs), cm, big)
                o = outcome(eng.encode_transposed_bytes, src, offs)
                g.check(o == ("ok", want), f"transpose:random:{name}:encode", "encode_transposed_bytes != encode(bytes(source[o] for o in offsets))", {"engine": name, "offsets": offs, "source": src.hex(), "outcome": repr(o)})
                o = outcome(eng.decode_transposed_bytes, want, offs)
                g.check(o == ("ok", src), f"transpose:random:{name}:decode", "decode_transposed_bytes does not undo the transposition", {"engine": name, "offsets": offs, "source": src.hex(), "outcome": repr(o)})
    o = outcome(B.h64.encode_transposed_bytes, "abcd", [0, 1, 2, 3])
    g.check(o[0] == "exc" and o[1] == "TypeError", "transpose:type", "str source not refused with TypeError", {"outcome": repr(o)})
    groups.append(g.done())

    # ---- b64s / ab64 helpers (passlib and the libpass copy) ----------------------------------------------
    mods = [("passlib.utils.binary", B)]
    try:
        import libpass._utils.deprecated as LD

        mods.append(("libpass._utils.deprecated", LD))
    except Exception as err:  # noqa: BLE001
        skipped.append(f"libpass._utils.deprecated: {type(err).__name__}: {err}")
    AB = STD.replace(b"+", b".")
    g = CGroup("b64s-ab64", "b64s_encode/b64s_decode/ab64_encode/ab64_decode", "both modules: all 1- and 2-byte inputs, " + ("16384" if quick else "2^20") + " 3-byte groups, random strings of every length 0..200; all 2-character and sampled 3-character texts (unused bits ignored); bytes and str input to decode; oracle: stdlib base64")
    for mname, M in mods:
        short = "passlib" if M is B else "libpass"
        inputs = [bytes([v]) for v in range(256)] + [v.to_bytes(2, "big") for v in range(65536)] + [rng.randbytes(3) for _ in range(16384 if quick else 1 << 20)] + [rng.randbytes(n) for n in range(201) for _ in range(4 if quick else 40)]
        for data in inputs:
            want = base64.b64encode(data).rstrip(b"=")
            wanta = base64.b64encode(data, altchars=b"./").rstrip(b"=")
            e, ea = outcome(M.b64s_encode, data), outcome(M.ab64_encode, data)
            g.check(e == ("ok", want), f"{short}:b64s_encode", "b64s_encode != stdlib base64 without padding", {"module": mname, "data": data.hex(), "outcome": repr(e)})
            g.check(ea == ("ok", wanta), f"{short}:ab64_encode", "ab64_encode != stdlib base64 with './' altchars without padding", {"module": mname, "data": data.hex(), "outcome": repr(ea)})
            g.check(set(want) <= set(STD) and set(wanta) <= set(AB), "oracle:alphabet", "harness: oracle leaves alphabet", {})
            for fn, txt in ((M.b64s_decode, want), (M.ab64_decode, wanta), (M.ab64_decode, want)):
                for arg in (txt, txt.decode("ascii")):
                    o = outcome(fn, arg)
                    g.check(o == ("ok", data), f"{short}:{fn.__name__}", "decode(encode(data)) != data", {"module": mname, "fn": fn.__name__, "text": repr(arg), "data": data.hex(), "outcome": repr(o)})
        g.bulk(len(inputs), f"{mname}: {len(inputs)} inputs")
        two = [bytes([a, b]) for a in STD for b in STD]
        texts = two + [rng.choice(two) + bytes([c]) for c in STD for _ in range(16 if quick else 256)]
        for t in texts:
            want = ref_decode(t, STD, True)
            o = outcome(M.b64s_decode, t)
            g.check(o == ("ok", want), f"{short}:b64s_decode:text", "b64s_decode differs from the definition (unused bits ignored)", {"module": mname, "text": repr(t), "outcome": repr(o)})
            ta = t.replace(b"+", b".")
            o = outcome(M.ab64_decode, ta)
            g.check(o == ("ok", want), f"{short}:ab64_decode:text", "ab64_decode differs from the definition (unused bits ignored)", {"module": mname, "text": repr(ta), "outcome": repr(o)})
        g.bulk(len(texts), f"{mname}: {len(texts)} texts")
    groups.append(g.done())

    g = CGroup("b64s-ab64-refusals", "b64s_decode/ab64_decode", "both modules: lengths 1 mod 4; non-ASCII str; wrong argument types; characters outside the alphabet (one or two, every position of texts of length 2..9)")
    for mname, M in mods:
        short = "passlib" if M is B else "libpass"
        for fn, cm, foreign in ((M.b64s_decode, STD, b"!$*-_.~ "), (M.ab64_decode, AB, b"!$*-_~ ")):
            for ln in range(1, 42, 4):
                t = bytes(rng.choice(cm) for _ in range(ln))
                for arg in (t, t.decode()):
                    g.case((mname, fn.__name__, "len", arg))
                    o = outcome(fn, arg)
                    g.check(is_value_error(o), f"{short}:{fn.__name__}:len1mod4", "length == 1 mod 4 not refused with ValueError", {"module": mname, "text": repr(arg), "outcome": repr(o)})
            for arg in ("ab\xff", "abĀd", "€bcd"):
                g.case((mname, fn.__name__, "nonascii", arg))
                o = outcome(fn, arg)
                g.check(is_value_error(o), f"{short}:{fn.__name__}:non-ascii", "non-ASCII text not refused with ValueError", {"module": mname, "text": repr(arg), "outcome": repr(o)})
            for arg in (5, None, 1.5):
                g.case((mname, fn.__name__, "type", repr(arg)))
                o = outcome(fn, arg)
                g.check(o[0] == "exc", "helpers:wrong-type-accepted", "wrong argument type accepted (the property does not fix the exception class for wrong types)", {"module": mname, "fn": fn.__name__, "arg": repr(arg), "outcome": repr(o)})
            # characters outside the alphabet: must be refused with ValueError (never ignored)
            fixed = [b"ab!!cd", b"ab!d", b"!!abcd", b"abcd!!!!", b"ab~d", b"a b"]  # fixed witnesses first: reported keys do not depend on the seed
            cands = list(fixed)
            for ln in (2, 3, 4, 6, 7, 8, 9):
                for pos in range(ln):
                    for c in foreign:
                        for extra in (0, 1):
                            t = bytearray(rng.choice(cm) for _ in range(ln))
                            t[pos] = c
                            if extra:
                                t.insert(rng.randrange(ln + 1), c)
                            cands.append(bytes(t))
            for t in cands:
                if len(t) % 4 == 1:
                    continue
                g.case((mname, fn.__name__, "foreign", t))
                o = outcome(fn, t)
                w = {"module": mname, "fn": fn.__name__, "text": repr(t), "outcome": repr(o)}
                if o[0] == "ok":
                    g.fail("b64s_decode:foreign-chars-ignored", "text with characters outside the alphabet is decoded (the characters are silently skipped) instead of refused", w)
                elif o[1] == "TypeError":
                    g.fail("b64s_decode:foreign-char-typeerror", "text with a character outside the alphabet raises TypeError, not ValueError", w)
                else:
                    g.check(is_value_error(o), f"{short}:{fn.__name__}:foreign", "character outside the alphabet not refused with ValueError", w)
    groups.append(g.done())

    # ---- base32 ---------------------------------------------------------------------------------------
    g = CGroup("base32", "b32encode/b32decode", "all 1- and 2-byte inputs, sampled 3..5-byte groups, random strings of every length 0..200; decode of upper/lower case, with/without '=' padding, bytes/str, with the typos 8 for B and 0 for O; wrong lengths and foreign characters refused; oracle: stdlib base64.b32encode")
    inputs = [bytes([v]) for v in range(256)] + [v.to_bytes(2, "big") for v in range(65536)] + [rng.randbytes(n) for n in (3, 4, 5) for _ in range(4096 if quick else 1 << 17)] + [rng.randbytes(n) for n in range(201) for _ in range(4 if quick else 40)]
    typo = str.maketrans("BO", "80")
    for data in inputs:
        full = base64.b32encode(data).decode("ascii")
        want = full.rstrip("=")
        o = outcome(B.b32encode, data)
        g.check(o == ("ok", want) and isinstance(o[1], str), "b32encode", "b32encode != stdlib base32 without padding (native str)", {"data": data.hex(), "outcome": repr(o)})
        g.check(set(want) <= set(B32) and len(want) == (8 * len(data) + 4) // 5, "oracle:b32", "harness: oracle alphabet/length", {})
        variants = (want, want.lower(), full, want.encode(), want.translate(typo), want.translate(typo).lower().encode())
        for k, arg in enumerate(variants):
            o = outcome(B.b32decode, arg)
            g.check(o == ("ok", data), f"b32decode:{('plain', 'lower', 'padded', 'bytes', 'typo', 'typo-lower-bytes')[k]}", "b32decode(variant of the encoding) != data", {"data": data.hex(), "text": repr(arg), "outcome": repr(o)})
    g.bulk(len(inputs), f"{len(inputs)} inputs")
    # decoding of arbitrary texts of valid lengths: unused bits ignored, nothing else
    for ln in (2, 4, 5, 7, 8, 10, 16):
        for _ in range(2048):
            t = "".join(rng.choice(B32) for _ in range(ln))
            n = 0
            for c in t:
                n = (n << 5) | B32.index(c)
            nbytes = ln * 5 // 8
            want = (n >> (5 * ln - 8 * nbytes)).to_bytes(nbytes, "big")
            o = outcome(B.b32decode, t)
            g.check(o == ("ok", want), "b32decode:text", "b32decode differs from the definition (unused bits ignored)", {"text": t, "outcome": repr(o), "want": want.hex()})
        g.bulk(2048, f"texts of length {ln}")
    for ln in (1, 3, 6, 9, 11, 14):
        for _ in range(16):
            t = "".join(rng.choice(B32) for _ in range(ln))
            g.case(("len", t))
            o = outcome(B.b32decode, t)
            g.check(is_value_error(o), "b32decode:length", "impossible base32 length not refused with ValueError", {"text": t, "outcome": repr(o)})
    for c in "19!$*-_. +/":
        for ln in (2, 4, 8, 16):
            for pos in range(ln):
                t = [rng.choice(B32) for _ in range(ln)]
                t[pos] = c
                t = "".join(t)
                g.case(("foreign", t))
                o = outcome(B.b32decode, t)
                g.check(is_value_error(o), "b32decode:foreign", "character outside the alphabet (and not a repaired typo) not refused with ValueError", {"text": t, "outcome": repr(o)})
    for arg in ("ab\xff", "€b"):
        o = outcome(B.b32decode, arg)
        g.check(is_value_error(o), "b32decode:non-ascii", "non-ASCII text not refused with ValueError", {"text": repr(arg), "outcome": repr(o)})
    for arg in (5, None):
        g.case(("type", repr(arg)))
        o = outcome(B.b32decode, arg)
        g.check(o[0] == "exc", "helpers:wrong-type-accepted", "wrong argument type accepted (the property does not fix the exception class for wrong types)", {"module": "passlib.utils.binary", "fn": "b32decode", "arg": repr(arg), "outcome": repr(o)})
    for arg in ("x", None, 5):
        o = outcome(B.b32encode, arg)
        g.check(o[0] == "exc" and o[1] == "TypeError", "b32encode:type", "non-bytes source not refused with TypeError", {"arg": repr(arg), "outcome": repr(o)})
    groups.append(g.done())

    # ---- libpass Base64Engine copy --------------------------------------------------------------------
    try:
        import libpass._utils.binary as LB

        g = CGroup("libpass-engine", "libpass._utils.binary.Base64Engine.encode_bytes", "h64_engine and Base64Engine(charmap, big) for the three shipped alphabets/orders + 2 random charmaps: all 1- and 2-byte inputs, sampled 3-byte groups (single and bulk), random strings of every length 0..200; equal to the definition, to stdlib (big) and to passlib's engine")
        g.check(LB.B64_CHARS.encode() == H64 and LB.h64_engine._charmap == H64 and LB.h64_engine._big is False, "libpass:constants", "libpass h64_engine is not little-endian over the hash64 alphabet", {})
        lp = [("libpass.h64_engine", LB.h64_engine, H64, False, B.h64), ("libpass.h64", LB.Base64Engine(H64.decode(), big=False), H64, False, B.h64), ("libpass.h64big", LB.Base64Engine(H64.decode(), big=True), H64, True, B.h64big), ("libpass.bcrypt64", LB.Base64Engine(BC64.decode(), big=True), BC64, True, B.bcrypt64)]
        for name, eng, cm, big in custom[:2]:
            lp.append((f"libpass.{name}", LB.Base64Engine(cm.decode("latin-1"), big=big), cm, big, eng))
        for name, eng, cm, big, twin in lp:
            inputs = [bytes([v]) for v in range(256)] + [v.to_bytes(2, "big") for v in range(65536)] + [rng.randbytes(3) for _ in range(4096 if quick else 65536)] + [rng.randbytes(n) for n in range(201) for _ in range(2 if quick else 20)]
            for data in inputs:
                want = ref_encode(data, cm, big)
                o = outcome(eng.encode_bytes, data)
                g.check(o == ("ok", want), f"{name}:encode", "libpass encode_bytes differs from the definition", {"engine": name, "data": data.hex(), "outcome": repr(o), "want": repr(want)})
                if big:
                    g.check(want == ref_encode_std(data, cm), "oracle:std", "harness: oracles disagree", {})
                g.check(outcome(twin.decode_bytes, want) == ("ok", data), f"{name}:passlib-decodes", "passlib's engine does not decode the text back", {"engine": name, "data": data.hex()})
            g.bulk(len(inputs), f"{name}: {len(inputs)} inputs")
            data = b"".join(rng.randbytes(3) for _ in range(65536 if quick else 1 << 20))
            enc = eng.encode_bytes(data)
            want = ref_encode_std(data, cm) if big else bulk_little_std(data, cm)
            if enc != want:
                i = next(i for i in range(0, len(want), 4) if enc[i : i + 4] != want[i : i + 4])
                g.fail(f"{name}:encode", "libpass encode_bytes differs from the definition on a 3-byte group", {"engine": name, "data": data[i // 4 * 3 : i // 4 * 3 + 3].hex()})
            g.bulk(len(data) // 3, f"{name}: bulk 3-byte groups")
        for bad in ("", STD.decode()[:63], STD.decode() + "x"):
            o = outcome(LB.Base64Engine, bad, False)
            g.case(("ctor", bad))
            g.check(is_value_error(o), "libpass:ctor", "charmap of the wrong size accepted", {"charmap": bad, "outcome": repr(o)})
        groups.append(g.done())
    except ImportError as err:
        skipped.append(f"libpass._utils.binary: {err}")

    return groups, skipped, {}


if __name__ == "__main__":
    main(build)
