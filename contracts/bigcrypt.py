"""bigcrypt (HP-UX / Digital Unix): the digest is the chain of traditional crypt() digests of the 8-byte segments,
each segment salted with the first two characters of the previous segment's digest.

  seg(0)   = crypt(secret[0:8], salt)
  seg(k)   = crypt(secret[8k:8k+8], seg(k-1)[0:2])       for 8k < len(secret)
  checksum = seg(0) + seg(1) + ... ;  number of segments = max(1, ceil(len(secret) / 8))

crypt() itself (the DES core) is abstract here: an uninterpreted function R(key bytes, 2 salt bytes) -> 11 characters that
only reads the first 8 bytes of its key (that is _raw_des_crypt's contract, compared with FIPS 46-3 by the stand-in)."""
import z3

from pyvc.contract import Bytes, Contract, Loop, Obj, Str
from pyvc.values import SStr, SStub

D = "passlib/handlers/des_crypt.py"
S = z3.StringSort()
R = z3.Function("raw_des_crypt", S, S, S)
BIG = z3.Function("bigcrypt_chain", S, S, z3.IntSort(), S)


def r(it, key, salt):
    v = R(key, salt)
    it.run.assume(z3.Length(v) == 11)
    # crypt(3) reads at most 8 key bytes
    it.run.assume(v == R(z3.SubString(key, 0, 8), salt))
    return v


def big(it, s, salt, j):
    b = BIG(s, salt, j)
    prev = BIG(s, salt, j - 1)
    it.run.assume(b == z3.If(j <= 1, R(z3.SubString(s, 0, 8), salt), z3.Concat(prev, R(z3.SubString(s, 8 * (j - 1), 8), z3.SubString(prev, z3.Length(prev) - 11, 2)))))
    it.run.assume(z3.Length(b) == 11 * z3.If(j <= 1, 1, j))
    it.run.assume(z3.Length(R(z3.SubString(s, 0, 8), salt)) == 11)
    it.run.assume(z3.Implies(j > 1, z3.Length(prev) == 11 * z3.If(j - 1 <= 1, 1, j - 1)))
    return b


def _raw(it, a, k):
    v = SStr(r(it, it.to_z3(a[0]), it.to_z3(a[1])), "bytes")
    it.run.assume(it.all_codes_below(v.e, 128))
    return v


def _big_spec(it, args, kwargs):
    return SStr(big(it, it.to_z3(args[0]), it.to_z3(args[1]), it.to_z3(args[2], "int")), "bytes")


def contract(prop):
    return Contract(
        "bigcrypt._calc_checksum", f"{D}::bigcrypt._calc_checksum",
        params={"self": Obj(fields={"salt": Str()}), "secret": Bytes()},
        globals={"_raw_des_crypt": SStub(_raw, "_raw_des_crypt", trusted="traditional crypt(): abstract function of (first 8 key bytes, 2 salt bytes) -> 11 hash64 characters")},
        specs={"chain": _big_spec},
        requires=["len(self.salt) == 2", lambda it, env: it.all_codes_below(it.to_z3(env.lookup("self").fields["salt"]), 128)],
        loops={"_calc_checksum#0": Loop(
            invariant=["idx % 8 == 0", "idx >= 8", "idx == 8 or idx - 8 < end", "end == len(secret)", "chk == chain(secret, self.salt.encode('ascii'), idx // 8)",
                       lambda it, env: it.all_codes_below(it.to_z3(env.lookup("chk")), 128)],
            modifies=["idx", "chk", "next"], decreases="end - idx + 8")},
        ensures=[("checksum == chain of max(1, ceil(len/8)) crypt() segments, each salted by the previous segment's first two characters",
                  "result.encode('ascii') == chain(secret, self.salt.encode('ascii'), 1 if len(secret) <= 8 else (len(secret) + 7) // 8)")],
        prop=prop, prefer="cvc5", replay=_big_replay(),
        descr="every password (bytes), every 2-character salt; DES core abstract",
    )


# ---- bsdi_crypt's key folding: every 8-byte block of the password enters the DES key ---------------------------------------
KF = z3.Function("crypt_key_of_block", S, z3.IntSort())          # _crypt_secret_to_key: first 8 bytes -> 64-bit key
EF = z3.Function("des_encrypt_int_block", z3.IntSort(), z3.IntSort(), z3.IntSort())
FOLD = z3.Function("bsdi_key_fold", S, z3.IntSort(), z3.IntSort())
XOR = z3.Function("xor64", z3.IntSort(), z3.IntSort(), z3.IntSort())


def _kf(it, a, k):
    from pyvc.values import SInt
    s = it.to_z3(a[0])
    v = KF(z3.SubString(s, 0, 8))
    it.run.assume(KF(s) == v)  # reads at most 8 bytes
    return SInt(v)


def _ef(it, a, k):
    from pyvc.values import SInt
    return SInt(EF(it.to_z3(a[0], "int"), it.to_z3(a[1], "int")))


def fold(it, s, j):
    f = FOLD(s, j)
    prev = FOLD(s, j - 1)
    it.run.assume(f == z3.If(j <= 1, KF(z3.SubString(s, 0, 8)), XOR(EF(prev, prev), KF(z3.SubString(s, 8 * (j - 1), 8)))))
    return f


def _fold_spec(it, args, kwargs):
    from pyvc.values import SInt
    return SInt(fold(it, it.to_z3(args[0]), it.to_z3(args[1], "int")))


class _XorInt:
    pass


def bsdi_key_contract(prop):
    """``^`` on the two abstract 64-bit values is itself abstract (xor64): the code's expression is rewritten through the
    'xor' hook so that both sides use the same uninterpreted function"""
    from pyvc.values import SInt

    def xor_hook(it, a, b):
        return SInt(XOR(it.to_z3(a, "int"), it.to_z3(b, "int")))

    return Contract(
        "_bsdi_secret_to_key", f"{D}::_bsdi_secret_to_key",
        params={"secret": Bytes()},
        globals={"_crypt_secret_to_key": SStub(_kf, "_crypt_secret_to_key", trusted="64-bit key of the first 8 bytes (7 bits each): abstract"),
                 "des_encrypt_int_block": SStub(_ef, "des_encrypt_int_block", trusted="DES core: abstract (compared with FIPS 46-3 by the stand-in)"),
                 "op.BitXor": xor_hook},
        specs={"fold": _fold_spec},
        loops={"_bsdi_secret_to_key#0": Loop(invariant=["idx % 8 == 0", "idx >= 8", "idx == 8 or idx - 8 < end", "end == len(secret)", "key_value == fold(secret, idx // 8)"],
                                              modifies=["idx", "key_value", "next", "tmp_value"], decreases="end - idx + 8")},
        ensures=[("key == fold over max(1, ceil(len/8)) blocks: K(block0), then E(k, k) xor K(block j) -- every 8-byte block of the password enters the key",
                  "result == fold(secret, 1 if len(secret) <= 8 else (len(secret) + 7) // 8)")],
        prop=prop, replay=_key_replay(),
        descr="every password (bytes); DES core and the per-block key abstract",
    )


# ---- replay hooks: the postconditions as executable specifications over the REAL helper routines (the DES core stays the
#      real one on both sides, exactly what the contract abstracts), searched on passwords around the block boundaries ----
def _lens_search(values):
    out = []
    for n in (0, 1, 7, 8, 9, 10, 15, 16, 17, 23, 24, 25, 31, 33, 40, 41, 64, 65):
        out.append(dict(values, secret="".join(chr(33 + (7 * k + n) % 90) for k in range(n))))
    return out


def _big_replay():
    from pyvc.replay import py_replay
    ref = """
from passlib.handlers.des_crypt import bigcrypt, _raw_des_crypt
def ref(secret, salt):
    chk = _raw_des_crypt(secret[:8], salt.encode('ascii'))
    for i in range(8, len(secret), 8):
        chk += _raw_des_crypt(secret[i:i + 8], chk[-11:-9])
    return chk.decode('ascii')
"""
    return py_replay(ref, "s = V['secret'].encode('latin-1'); r = (bigcrypt(salt='ab', use_defaults=True)._calc_checksum(s), ref(s, 'ab'))",
                     "exc is None and r[0] == r[1]", {"secret": "password"}, search=_lens_search)


def _key_replay():
    from pyvc.replay import py_replay
    ref = """
from passlib.handlers.des_crypt import _bsdi_secret_to_key, _crypt_secret_to_key
from passlib.crypto.des import des_encrypt_int_block
def ref(secret):
    key = _crypt_secret_to_key(secret[:8])
    for i in range(8, len(secret), 8):
        key = des_encrypt_int_block(key, key) ^ _crypt_secret_to_key(secret[i:i + 8])
    return key
"""
    return py_replay(ref, "s = V['secret'].encode('latin-1'); r = (_bsdi_secret_to_key(s), ref(s))", "exc is None and r[0] == r[1]", {"secret": "password"}, search=_lens_search)
