"""Positional notation, written from the definition (not from the code).

digits(v, L, n)      = the n least-significant base-L digits of v, least significant first   (Seq Int)
chars(cs, v, L, n)   = the same digits mapped through the alphabet string cs                  (String)

Both are uninterpreted functions; each use in a spec adds ONE unfolding instance of the recursive
definition as a hypothesis (the solver never sees a quantifier).
"""
import z3

from pyvc.values import IntSeqSort, SSeq, SStr

digits_f = z3.Function("digits", z3.IntSort(), z3.IntSort(), z3.IntSort(), IntSeqSort)
chars_f = z3.Function("chars", z3.StringSort(), z3.IntSort(), z3.IntSort(), z3.IntSort(), z3.StringSort())


def digits_unfold(v, L, n):
    return digits_f(v, L, n) == z3.If(n <= 0, z3.Empty(IntSeqSort), z3.Concat(z3.Unit(v % L), digits_f(v / L, L, n - 1)))


def chars_unfold(cs, v, L, n):
    return chars_f(cs, v, L, n) == z3.If(n <= 0, z3.StringVal(""), z3.Concat(z3.SubString(cs, v % L, 1), chars_f(cs, v / L, L, n - 1)))


def digits(it, args, kwargs):
    v, L, n = [it.to_z3(a, "int") for a in args]
    it.run.assume(digits_unfold(v, L, n))
    it.run.assume(z3.Length(digits_f(v, L, n)) == z3.If(n <= 0, 0, n))  # length law (proved as lemma 'digits-length')
    return SSeq(digits_f(v, L, n), "list")


def chars(it, args, kwargs):
    cs = it.to_z3(args[0])
    v, L, n = [it.to_z3(a, "int") for a in args[1:]]
    it.run.assume(chars_unfold(cs, v, L, n))
    return SStr(chars_f(cs, v, L, n), "str")


def codes(it, args, kwargs):
    """digits mapped through a bytes alphabet: Seq Int of code points"""
    cs = it.to_z3(args[0])
    v, L, n = [it.to_z3(a, "int") for a in args[1:]]
    f = z3.Function("codes", z3.StringSort(), z3.IntSort(), z3.IntSort(), z3.IntSort(), IntSeqSort)
    it.run.assume(f(cs, v, L, n) == z3.If(n <= 0, z3.Empty(IntSeqSort), z3.Concat(z3.Unit(z3.StrToCode(z3.SubString(cs, v % L, 1))), f(cs, v / L, L, n - 1))))
    return SSeq(f(cs, v, L, n), "list")
