"""pyvc.contract -- sidecar contracts on real functions, and the type specs that build symbolic inputs."""

from __future__ import annotations

import z3

from .values import SBool, SDict, SInt, SList, SObj, SSeq, SStr, SStub, SUnion, Unsupported, IntSeqSort


class T:
    def make(self, it, name):
        raise NotImplementedError


class Int(T):
    def __init__(self, lo=None, hi=None):
        self.lo, self.hi = lo, hi

    def make(self, it, name):
        v = it.sym_int(name)
        if self.lo is not None:
            it.run.assume(it.cmp_z3(">=", v.e, self.lo))
        if self.hi is not None:
            it.run.assume(it.cmp_z3("<=", v.e, self.hi))
        return v


class Bool(T):
    def make(self, it, name):
        return SBool(z3.Bool(name))


class Str(T):
    def __init__(self, kind="str", ascii=False, maxlen=None):
        self.kind = kind
        self.ascii = ascii
        self.maxlen = maxlen

    def make(self, it, name):
        e = z3.String(name)
        v = SStr(e, self.kind)
        it.note_input(name, v)
        if self.maxlen is not None:
            it.run.assume(z3.Length(e) <= self.maxlen)
        return v


class Bytes(Str):
    """text-like bytes: String theory, code points < 256 (not enforced per character; see DESIGN 2.2)"""

    def __init__(self, **kw):
        super().__init__(kind="bytes", **kw)


class ByteSeq(T):
    """numeric bytes: Seq(Int) with every element in [0, 256) supplied on access"""

    def __init__(self, length=None, minlen=None):
        self.length = length
        self.minlen = minlen

    def make(self, it, name):
        e = z3.Const(name, IntSeqSort)
        v = SSeq(e, "bytes")
        it.note_input(name, v)
        if self.length is not None:
            it.run.assume(z3.Length(e) == self.length)
        if self.minlen is not None:
            it.run.assume(z3.Length(e) >= self.minlen)
        return v


class BytesOfLen(T):
    """byte string of a fixed length: static list of symbolic ints in [0, 256)"""

    def __init__(self, n, hi=256):
        self.n = n
        self.hi = hi

    def make(self, it, name):
        items = []
        for k in range(self.n):
            v = it.sym_int(f"{name}[{k}]")
            it.run.assume(z3.And(it.cmp_z3(">=", v.e, 0), it.cmp_z3("<", v.e, self.hi)))
            items.append(v)
        return SList(items, "bytes")


class NoneT(T):
    def make(self, it, name):
        return None


class Const(T):
    def __init__(self, value):
        self.value = value

    def make(self, it, name):
        return self.value


class Union(T):
    def __init__(self, *alts):
        self.alts = alts

    def make(self, it, name):
        tag = z3.Int(name + "?tag")
        it.note_input(name + "?tag", SInt(tag))
        alts = []
        for k, a in enumerate(self.alts):
            val = a.make(it, f"{name}${k}")
            alts.append((type(a).__name__, val))
        it.run.assume(z3.And(tag >= 0, tag < len(alts)))
        return SUnion(name, tag, alts)


def Opt(t):
    return Union(NoneT(), t)


class Obj(T):
    """record with declared fields (type specs or ready values); ``cls`` = (relpath, classname) for
    attribute fall-back to the real class source; ``methods`` maps names to stubs"""

    def __init__(self, fields=None, cls=None, is_class=False, methods=None, fresh=False):
        self.fields = fields or {}
        self.cls = cls
        self.is_class = is_class
        self.methods = methods or {}
        self.fresh = fresh

    def make(self, it, name):
        from .symexec import ClassRef

        cref = ClassRef.get(*self.cls) if self.cls else None
        o = SObj(name, cls=cref, is_class=self.is_class, fresh=self.fresh)
        for k, t in self.fields.items():
            o.fields[k] = t.make(it, f"{name}.{k}") if isinstance(t, T) else t
        for k, m in self.methods.items():
            o.fields[k] = m.make(it, f"{name}.{k}") if isinstance(m, T) else m
        return o


class UF(T):
    """uninterpreted function value: args/ret are 'int' | 'str' | 'bool' | 'intseq'; optional
    ``requires(it, *args) -> z3 Bool`` and ``ensures(it, result, *args) -> z3 Bool``"""

    def __init__(self, args, ret, requires=None, ensures=None, raises=None, name=None, counted=True):
        self.args = args
        self.ret = ret
        self.requires = requires
        self.ensures = ensures
        self.raises = raises
        self.name = name
        self.counted = counted

    def make(self, it, name):
        fname = self.name or name
        sorts = [_sort(a, it) for a in self.args] + [_sort(self.ret, it)]
        f = z3.Function(fname, *sorts)
        spec = self

        def call(it2, args, kwargs):
            if kwargs or len(args) != len(spec.args):
                raise Unsupported(f"{fname}: arity")
            zargs = [it2.to_z3(a, s) for a, s in zip(args, spec.args)]
            if spec.requires is not None and not it2.spec:
                it2.run.oblige("precondition", spec.requires(it2, *zargs), f"requires of {fname}", it2.lineno)
            if not it2.spec:
                it2.run.calls.append((fname, tuple(zargs)))
            res = f(*zargs)
            if spec.ensures is not None:
                it2.run.assume(spec.ensures(it2, res, *zargs))
            return it2.from_z3(res, spec.ret)

        return SStub(call, fname, trusted=f"uninterpreted {fname}")


def _sort(s, it):
    if s == "int":
        return it.int_sort()
    if s == "str" or s == "bytes":
        return z3.StringSort()
    if s == "bool":
        return z3.BoolSort()
    if s == "intseq":
        return IntSeqSort
    raise Unsupported(f"sort {s}")


class Loop:
    def __init__(self, invariant=(), decreases=None, modifies=None, ghost_step=None, unroll=None, forget=False, entry_asserts=(), cut_vars=(), instances=()):
        self.invariant = [invariant] if isinstance(invariant, str) else list(invariant)
        self.decreases = decreases
        self.modifies = modifies
        self.ghost_step = ghost_step
        self.unroll = unroll
        # abstraction at the loop head: after proving ``entry_asserts`` (named intermediate postconditions) the
        # variables in ``cut_vars`` are replaced by fresh symbols and every assumption that mentions anything but the
        # contract's inputs is dropped -- beyond this point only the invariant is known (sound: fewer hypotheses)
        self.forget = forget
        self.entry_asserts = list(entry_asserts)
        self.cut_vars = list(cut_vars)
        # invariants stated over a free (skolem) constant are universally quantified: ``instances`` are further instantiations
        # of the same invariant (e.g. at the key this iteration touches), assumed at the loop head only
        self.instances = list(instances)


class Contract:
    def __init__(
        self,
        cid,
        target,
        params,
        requires=(),
        ensures=(),
        raises=None,
        raises_iff=None,
        loops=None,
        ints="math",
        globals=None,
        specs=None,
        setup=None,
        inline=(),
        max_depth=6,
        modifies=None,
        descr="",
        prop=None,
        kwonly=None,
        canary=True,
        max_paths=4000,
        assumptions=(),
        atomic=None,
        no_raise_kinds=(),
        returns="int",
        result=None,
        split_limit=6,
        replay=None,
        yield_range=None,
        time_budget=None,
        prune_timeout_ms=None,
        tier="quick",
        prefer=None,
        timeout_ms=None,
        witness_inputs=None,
        local_models=None,
    ):
        self.id = cid
        self.target = target
        self.params = params
        self.requires = list(requires)
        self.ensures = list(ensures)
        self.raises = dict(raises or {})
        self.raises_iff = dict(raises_iff or {})
        self.loops = dict(loops or {})
        self.ints = ints
        self.globals = dict(globals or {})
        self.specs = dict(specs or {})
        self.setup = setup
        self.inline = set(inline)
        self.max_depth = max_depth
        self.modifies = modifies
        self.descr = descr
        self.prop = prop
        self.canary = canary
        self.max_paths = max_paths
        self.assumptions = list(assumptions)
        self.atomic = atomic
        self.no_raise_kinds = no_raise_kinds
        self.returns = returns
        self.result = result
        self.split_limit = split_limit
        self.replay = replay
        self.yield_range = yield_range
        self.time_budget = time_budget
        self.prune_timeout_ms = prune_timeout_ms
        self.tier = tier  # 'thorough': only explored in the thorough tier
        self.prefer = prefer  # solver tried first for this contract's obligations
        self.local_models = dict(local_models or {})  # local name -> factory(it): abstraction of a container that starts empty
        self.witness_inputs = witness_inputs  # candidate input valuations tried when the solver answers unknown
        self.timeout_ms = timeout_ms  # per-obligation solver budget (lower bound) for this contract


class Lemma:
    """an obligation over the contracts/specs only (no code): ``build(z3) -> list[(name, assumptions, goal)]``"""

    def __init__(self, lid, build, descr="", prop=None):
        self.id = lid
        self.build = build
        self.descr = descr
        self.prop = prop
