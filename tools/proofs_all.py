#!/usr/bin/env python3
"""Proof-side regression: every property, proofs only (no bounded stand-ins), summary per property.
Usage: python3 tools/proofs_all.py [--update]   (compares with / rewrites baseline_obligations.json)"""
import json, os, re, subprocess, sys, tempfile
HERE = os.path.dirname(os.path.abspath(__file__)); VERIF = os.path.dirname(HERE)
pids = sorted(f[:-3].upper() for f in os.listdir(os.path.join(VERIF, "contracts")) if re.fullmatch(r"c\d\d\.py", f))
base_path = os.path.join(VERIF, "baseline_obligations.json")
base = json.load(open(base_path)) if os.path.exists(base_path) else {}
out = {}
bad = 0
for pid in pids:
    tmp = tempfile.mkdtemp(prefix="pyvc_ev_")
    env = dict(os.environ, PYVC_NO_BOUNDED="1", PYVC_EVIDENCE_DIR=tmp)
    r = subprocess.run([os.path.join(VERIF, "check"), pid], capture_output=True, text=True, env=env)
    m = re.search(r"obligations=(\d+) discharged=(\d+) refuted=(\d+) undecided=(\d+)", r.stdout)
    cur = dict(zip(("obligations", "discharged", "refuted", "undecided"), map(int, m.groups()))) if m else {"error": r.stdout[-300:] + r.stderr[-300:]}
    cur["rc"] = r.returncode
    cur["violations"] = r.stdout.count("VIOLATION")
    out[pid] = cur
    flag = ""
    if pid in base and {k: base[pid].get(k) for k in ("obligations", "discharged", "refuted", "undecided", "violations")} != {k: cur.get(k) for k in ("obligations", "discharged", "refuted", "undecided", "violations")}:
        flag = f"   <-- CHANGED (was {base[pid]})"
        bad += 1
    print(pid, cur, flag)
    subprocess.run(["rm", "-rf", tmp])
if "--update" in sys.argv:
    json.dump(out, open(base_path, "w"), indent=1)
    print("baseline updated")
sys.exit(1 if bad and "--update" not in sys.argv else 0)
