"""C04 -- CryptContext identifies, verifies, flags and rehashes exactly per its policy."""
import z3

from contracts.rounds_common import CLS, H, RNG, WARNS, eff, inv, needs_update_rounds
from pyvc.contract import Bool, Const, Contract, Int, NoneT, Obj, Opt, Str, UF, Union
from pyvc.runner import Bounded
from pyvc.values import SDict, SStub

LEVEL = "proof"
EXPLANATION = (
    "Rounds policy arithmetic is verified from the real source for all integers and all None/int combinations: "
    "_clip_to_desired_rounds, _calc_vary_rounds_range (int variation), _generate_rounds (fresh rounds never need an update "
    "under the policy invariant), HasRounds._calc_needs_update, bsdi_crypt's overrides; context-level decisions "
    "(first claimant, default per category, deprecated, verify_and_update shape) are compared with a policy oracle on "
    "generated configurations (bounded stand-in); proved in addition, with the contents of the scheme lists abstract: "
    "_CryptConfig.is_deprecated_with_flag (own list else the default category's; 'auto' = all but that category's default, through "
    "the real default_scheme), _init_default_schemes (explicit default never deprecated, else first non-deprecated scheme, the "
    "category inheriting the explicit global default), CryptContext.needs_update == deprecated or flagged, CryptContext.hash uses the "
    "record of the category's default scheme, _create_record stores the deprecated flag on the customised copy only."
)
ASSUMPTIONS = [
    "rng.randint(a, b) returns a value in [a, b]",
    "float / percent vary_rounds are outside the proved fragment (bounded stand-in)",
    "policy invariant Inv(cls) (window consistent, default inside) is what HasRounds.using establishes (C09)",
]
D = "passlib/handlers/des_crypt.py"

clip_spec = (
    "result == ((cls.min_desired_rounds if cls.min_desired_rounds is not None else 0) if rounds < (cls.min_desired_rounds if cls.min_desired_rounds is not None else 0) "
    f"else (cls.max_desired_rounds if ({eff('cls.max_desired_rounds')} and rounds > cls.max_desired_rounds) else rounds))"
)

clip = Contract(
    "_clip_to_desired_rounds", f"{H}::HasRounds._clip_to_desired_rounds",
    params={"cls": CLS(), "rounds": Int()},
    ensures=[("result == rounds clipped into the desired window", clip_spec)],
    descr="all ints, all None/int windows",
)

vary_range = Contract(
    "_calc_vary_rounds_range[int]", f"{H}::HasRounds._calc_vary_rounds_range",
    params={"cls": CLS(vary_rounds=Int(lo=0)), "default_rounds": Int()},
    requires=["default_rounds != 0", inv("cls"), "cls.default_rounds == default_rounds"],
    ensures=[
        ("lower <= default <= upper", "result[0] <= default_rounds <= result[1]"),
        ("both bounds inside the desired window", f"not {needs_update_rounds('cls', 'result[0]')} and not {needs_update_rounds('cls', 'result[1]')}"),
        ("bounds within +-vary of the default", "default_rounds - cls.vary_rounds <= result[0] and result[1] <= default_rounds + cls.vary_rounds"),
    ],
    descr="integer vary_rounds >= 0, linear cost",
)

gen_rounds = Contract(
    "_generate_rounds", f"{H}::HasRounds._generate_rounds",
    params={"cls": CLS()},
    globals={"rng": RNG},
    modifies=[],  # drawing a cost never writes to the hasher class (no memoised range that could go stale)
    requires=[inv("cls"), "implies(cls.vary_rounds is not None and cls.vary_rounds != 0, cls.default_rounds is None or cls.default_rounds != 0)"],
    raises_iff={"TypeError": "cls.default_rounds is None"},
    ensures=[
        ("a freshly generated cost never needs an update", f"not {needs_update_rounds('cls', 'result')}"),
        ("without variation the cost is the default", "implies(cls.vary_rounds is None or cls.vary_rounds == 0, result == cls.default_rounds)"),
        ("variation stays within +-vary_rounds", "implies(cls.vary_rounds is not None, cls.default_rounds - cls.vary_rounds <= result <= cls.default_rounds + cls.vary_rounds)"),
    ],
    descr="all policies satisfying Inv, int vary_rounds",
)

needs_update = Contract(
    "HasRounds._calc_needs_update", f"{H}::HasRounds._calc_needs_update",
    params={"self": Obj(cls=(H, "HasRounds"), fields={"rounds": Int(), "min_desired_rounds": Opt(Int()), "max_desired_rounds": Opt(Int())}), "kwds": Const(SDict())},
    globals={"super._calc_needs_update": SStub(lambda it, a, k: False, "GenericHandler._calc_needs_update", trusted="returns False (its body: proved below)")},
    ensures=[("flags exactly the costs outside the desired window", f"result == {needs_update_rounds('self', 'self.rounds')}")],
    descr="all ints",
)

generic_needs_update = Contract(
    "GenericHandler._calc_needs_update", f"{H}::GenericHandler._calc_needs_update",
    params={"self": Obj(), "secret": Const(None)},
    ensures=[("stub returns False", "result is False")],
)

# bsdi_crypt: fresh rounds are forced odd
bsdi_gen = Contract(
    "bsdi_crypt._generate_rounds", f"{D}::bsdi_crypt._generate_rounds",
    params={"cls": CLS()},
    globals={"super._generate_rounds": None},  # filled below (modular call of the base contract)
    requires=[inv("cls"), "cls.default_rounds is not None", "cls.default_rounds >= 1"],
    ensures=[
        ("fresh bsdi cost is odd", "result % 2 == 1"),
        ("a freshly generated bsdi cost never needs an update (outside the recorded witness class: even maximum reached)",
         f"implies(not ({eff('cls.max_desired_rounds')} and cls.max_desired_rounds % 2 == 0 and result == cls.max_desired_rounds + 1), not {needs_update_rounds('cls', 'result')})"),
        ("a freshly generated bsdi cost never needs an update, even maximum reached [bsdi_crypt:odd-rounds-above-max]",
         f"implies({eff('cls.max_desired_rounds')} and cls.max_desired_rounds % 2 == 0 and result == cls.max_desired_rounds + 1, not {needs_update_rounds('cls', 'result')})"),
    ],
    descr="all policies satisfying Inv",
)


def _base_generate(it, args, kwargs):
    # modular: the base contract's postcondition, not its body
    cls = args[0]
    env_cls = cls
    from pyvc.symexec import Env
    res = it.sym_int(it.run.fresh("base_rounds"))
    env = Env(it.genv, {"cls": env_cls, "result": res})
    for _, e in gen_rounds.ensures:
        it.run.assume(it.spec_bool(e, env))
    return res


bsdi_gen.globals["super._generate_rounds"] = SStub(_base_generate, "HasRounds._generate_rounds (by contract)")

bsdi_needs_update = Contract(
    "bsdi_crypt._calc_needs_update", f"{D}::bsdi_crypt._calc_needs_update",
    params={"self": Obj(fields={"rounds": Int(lo=0), "min_desired_rounds": Opt(Int()), "max_desired_rounds": Opt(Int())}), "kwds": Const(SDict())},
    ints="math",
    globals={"super._calc_needs_update": SStub(lambda it, a, k: it.spec_eval(needs_update_rounds("self", "self.rounds"), __import__("pyvc.symexec", fromlist=["Env"]).Env(it.genv, {"self": a[0]})), "HasRounds._calc_needs_update (by contract)")},
    ensures=[("even costs are always flagged", "implies(self.rounds % 2 == 0, result is True)"), ("odd costs flagged exactly when outside the window", f"implies(self.rounds % 2 == 1, result == {needs_update_rounds('self', 'self.rounds')})")],
)

CONTRACTS = [clip, vary_range, gen_rounds, needs_update, generic_needs_update, bsdi_gen, bsdi_needs_update]
REGISTRY = [clip]
BOUNDED = [Bounded("c04", "harness/c04.py", descr="generated configurations vs policy oracle", timeout=900)]

# ---- context level ---------------------------------------------------------------------------------
import z3  # noqa: E402
from pyvc.contract import T  # noqa: E402
from pyvc.values import SBool, SList, SObj, SStr  # noqa: E402

CTX = "passlib/context.py"


def counting(name, fn):
    def call(it, args, kwargs):
        if not it.spec:
            it.run.calls.append((name, ()))
        return fn(it, args, kwargs)

    return SStub(call, name)


def _vau_setup(it, args):
    rec = SObj("record", fields={
        "deprecated": SBool(z3.Bool("record.deprecated")),
        "verify": counting("record.verify", lambda it2, a, k: SBool(z3.Bool("record.verify(secret, hash)"))),
        "needs_update": counting("record.needs_update", lambda it2, a, k: SBool(z3.Bool("record.needs_update(hash)"))),
    })
    self = args["self"]
    self.fields["_get_or_identify_record"] = counting("_get_or_identify_record", lambda it2, a, k: rec)
    self.fields["_strip_unused_context_kwds"] = None
    def _hash(it2, a, k):
        it2.run.ghost["hash_category"] = k.get("category", "<not passed>")
        return SStr(z3.String("self.hash(secret, category)"), "str")

    self.fields["hash"] = counting("self.hash", _hash)
    self.fields["dummy_verify"] = counting("dummy_verify", lambda it2, a, k: None)
    it.run.ghost["rec"] = rec
    return {"record": rec}


vau = Contract(
    "CryptContext.verify_and_update", f"{CTX}::CryptContext.verify_and_update",
    params={"self": Obj(), "secret": Str(), "hash": Opt(Str()), "scheme": Const(None), "category": Const(None), "kwds": Const(SDict())},
    setup=_vau_setup,
    ensures=[
        ("missing hash: (False, None) after exactly one dummy verification",
         "implies(hash is None, result == (False, None) and calls('dummy_verify') == 1 and calls('record.verify') == 0)"),
        ("wrong password: (False, None)", "implies(hash is not None and not record.verify(secret, hash), result == (False, None))"),
        ("right password, current hash: (True, None)",
         "implies(hash is not None and record.verify(secret, hash) and not record.deprecated and not record.needs_update(hash), result == (True, None))"),
        ("right password, deprecated or flagged: (True, new hash from self.hash)",
         "implies(hash is not None and record.verify(secret, hash) and (record.deprecated or record.needs_update(hash)), result == (True, self.hash(secret)) and calls('self.hash') == 1)"),
        ("no dummy verification when a hash is present", "implies(hash is not None, calls('dummy_verify') == 0)"),
    ],
    descr="any record behaviour (verify / deprecated / needs_update as free booleans)",
)

CONTRACTS.append(vau)
CONTRACTS.append(Contract(
    "CryptContext.verify_and_update[category]", f"{CTX}::CryptContext.verify_and_update",
    params={"self": Obj(), "secret": Str(), "hash": Str(), "scheme": Const(None), "category": Str(), "kwds": Const(SDict())},
    setup=_vau_setup,
    ensures=[("the replacement hash is made under the caller's category (its default scheme and cost)",
              lambda it, env: z3.Implies(z3.BoolVal(any(c[0] == "self.hash" for c in it.run.calls)), it.to_zbool(it.truth(it.cmp_vals("==", it.run.ghost.get("hash_category"), env.lookup("category"))))))],
    descr="any category name, any record behaviour",
))


def _records(n):
    def setup(it, args):
        recs = []
        for i in range(n):
            b = z3.Bool(f"identify_{i}")
            recs.append(SObj(f"record{i}", fields={"identify": SStub(lambda it2, a, k, _b=b: SBool(_b), f"record{i}.identify"), "index": i}))
        self = args["self"]
        self.fields["_get_record_list"] = SStub(lambda it2, a, k: SList(recs), "_get_record_list")
        self.fields["schemes"] = tuple(f"s{i}" for i in range(n))
        # the category's default record may be ANY configured one; the instance "the last one" is enough to expose code
        # that consults the default before walking the list in order (unused on the current source)
        self.fields["get_record"] = SStub(lambda it2, a, k: recs[-1], "get_record(None, category)", trusted="instance: the default scheme is the last configured one")
        return {f"record{i}": r for i, r in enumerate(recs)} | {f"identify_{i}": SBool(z3.Bool(f"identify_{i}")) for i in range(n)}

    return setup


for _n in range(0, 4):
    _none = " and ".join([f"not identify_{i}" for i in range(_n)]) or "True"
    _first = [(f"record {i} is returned iff it is the first claimant", f"implies({' and '.join([f'not identify_{j}' for j in range(i)] + [f'identify_{i}'])}, result is record{i})") for i in range(_n)]
    CONTRACTS.append(Contract(
        f"identify_record[{_n} schemes]", f"{CTX}::_CryptConfig.identify_record",
        params={"self": Obj(), "hash": Str(), "category": Const(None), "required": Const(True)},
        setup=_records(_n),
        globals={"unicode_or_bytes": (__import__("pyvc.values", fromlist=["SType"]).SType("str"), __import__("pyvc.values", fromlist=["SType"]).SType("bytes"))},
        raises={"UnknownHashError": _none if _n else "False", "KeyError": "True" if _n == 0 else "False"},
        ensures=_first + [("some scheme claims the hash", f"not ({_none})")],
        descr=f"{_n} configured schemes, identify() results free",
    ))

# ---- libpass context ----------------------------------------------------------------------------
LCTX = "libpass/context.py"


def _schemes_kept(it, env):
    now = it.resolve(it.resolve(env.lookup("self")).fields.get("_schemes"))
    items = getattr(now, "items", None)
    was = it.run.ghost.get("schemes0")
    return z3.BoolVal(items is not None and was is not None and len(items) == len(was) and all(a is b for a, b in zip(items, was)))


_SCHEMES_KEPT = ("a query does not change the context: the scheme list holds the same hashers in the same order afterwards (verify() with any listed scheme keeps working)", _schemes_kept)


def _lib_setup(n, alias=False):
    def setup(it, args):
        hs = []
        for i in range(n):
            j = 0 if alias else i
            if alias and i > 0:
                hs.append(hs[0])
                continue
            idf, ver = z3.Bool(f"identify_{j}"), z3.Bool(f"verify_{j}")
            hs.append(SObj(f"hasher{j}", fields={
                "identify": SStub(lambda it2, a, k, _b=idf: SBool(_b), f"hasher{j}.identify"),
                "verify": SStub(lambda it2, a, k, _b=ver: SBool(_b), f"hasher{j}.verify"),
                "hash": SStub(lambda it2, a, k, _j=j: SStr(z3.String(f"hasher{_j}.hash(secret)"), "str"), f"hasher{j}.hash"),
                # the hasher's own update check (format AND cost) is a free boolean: the context's answer must not depend on it
                "needs_update": SStub(lambda it2, a, k, _j=j: SBool(z3.Bool(f"hasher{_j}.needs_update(hash)")), f"hasher{j}.needs_update"),
            }))
        self = args["self"]
        self.fields["_schemes"] = SList(hs)
        it.run.ghost["schemes0"] = list(hs)
        self.fields["_deprecated"] = "auto"
        out = {f"identify_{i}": SBool(z3.Bool(f"identify_{i}")) for i in range(n)}
        out.update({f"verify_{i}": SBool(z3.Bool(f"verify_{i}")) for i in range(n)})
        out["first"] = hs[0]
        return out

    return setup


for _n in (1, 2, 3):
    CONTRACTS.append(Contract(
        f"libpass.CryptContext.needs_update[{_n} schemes]", f"{LCTX}::CryptContext.needs_update",
        params={"self": Obj(cls=(LCTX, "CryptContext")), "hash": Str()},
        setup=_lib_setup(_n),
        ensures=[("update asked exactly for hashes not in the first scheme's format", "result == (not identify_0)"), _SCHEMES_KEPT],
        descr="distinct hasher objects, identify() free",
    ))
    CONTRACTS.append(Contract(
        f"libpass.CryptContext.verify[{_n} schemes]", f"{LCTX}::CryptContext.verify",
        params={"self": Obj(cls=(LCTX, "CryptContext")), "secret": Str(), "hash": Str()},
        setup=_lib_setup(_n),
        ensures=[("verifies with any scheme", "result == (" + " or ".join(f"verify_{i}" for i in range(_n)) + ")")],
    ))
    CONTRACTS.append(Contract(
        f"libpass.CryptContext.hash[{_n} schemes]", f"{LCTX}::CryptContext.hash",
        params={"self": Obj(cls=(LCTX, "CryptContext")), "secret": Str()},
        setup=_lib_setup(_n),
        ensures=[("hashes with the first scheme", "result == first.hash(secret)")],
    ))
CONTRACTS.append(Contract(
    "libpass.CryptContext.needs_update[same object twice]", f"{LCTX}::CryptContext.needs_update",
    params={"self": Obj(cls=(LCTX, "CryptContext")), "hash": Str()},
    setup=_lib_setup(2, alias=True),
    ensures=[("update asked exactly for hashes not in the first scheme's format [libpass-context:duplicate-scheme]", "result == (not identify_0)")],
    descr="the same hasher object listed twice",
))

from contracts import c04_policy  # noqa: E402

CONTRACTS += c04_policy.CONTRACTS
from contracts import c09_frames as _fr  # noqa: E402
from contracts import c10 as _c10  # noqa: E402

# a category's customised copy of a hasher must not alter the hasher other categories / contexts use (frames, shared with C09);
# reconfiguring a context leaves no per-instance state of the previous configuration behind (shared with C10)
CONTRACTS += _fr.CONTRACTS + [c for c in _c10.CONTRACTS if c.id.startswith("CryptContext.load[")]

MUTANTS = [
    ("clip: max compared with >=", H, "        if mxd and rounds > mxd:\n            return mxd\n", "        if mxd and rounds >= mxd:\n            return mxd - 1\n", "refute"),
    ("clip: min ignored", H, "        mnd = cls.min_desired_rounds or 0\n", "        mnd = 0\n", "refute"),
    ("needs_update: max test inverted", H, "        if max_desired_rounds and self.rounds > max_desired_rounds:\n            return True\n        return super()._calc_needs_update(**kwds)", "        if max_desired_rounds and self.rounds >= max_desired_rounds:\n            return True\n        return super()._calc_needs_update(**kwds)", "refute"),
    ("generate_rounds: vary range not clipped", H, "        return cls._clip_to_desired_rounds(lower), cls._clip_to_desired_rounds(upper)\n", "        return cls._clip_to_desired_rounds(lower), upper\n", "refute"),
    ("verify_and_update: rehash skipped for deprecated", CTX, "        if record.deprecated or record.needs_update(hash, secret=secret):\n            # NOTE: we re-hash", "        if record.needs_update(hash, secret=secret):\n            # NOTE: we re-hash", "refute"),
    ("verify_and_update: None hash skips dummy verify", CTX, "            self.dummy_verify()\n            return False, None\n        record = self._get_or_identify_record(hash, scheme, category)\n        strip_unused", "            return False, None\n        record = self._get_or_identify_record(hash, scheme, category)\n        strip_unused", "refute"),
    ("identify_record: last match wins", CTX, "        for record in self._get_record_list(category):\n            if record.identify(hash):", "        for record in reversed(self._get_record_list(category)):\n            if record.identify(hash):", "refute"),
    ("libpass needs_update: any instead of all", LCTX, "        return all(not scheme.identify(hash) for scheme in schemes)", "        return all(not scheme.identify(hash) for scheme in self._schemes)", "refute"),
    ("libpass hash: last scheme", LCTX, "        return self._schemes[0]\n", "        return self._schemes[-1]\n", "refute"),
    ("is_deprecated: category without its own list no longer inherits", "passlib/context.py", "            source = depmap.get(cat, depmap.get(None))", "            source = depmap.get(cat)", "refute", "is_deprecated_with_flag"),
    ("is_deprecated: 'auto' compares with the global default", "passlib/context.py", "                return scheme != self.default_scheme(cat)", "                return scheme != self.default_scheme(None)", "refute", "is_deprecated_with_flag"),
    ("default schemes: category ignores the inherited deprecated list", "passlib/context.py", "            cdeps = dep_map.get(cat, deps)", "            cdeps = dep_map.get(cat) or ()", "refute", "_init_default_schemes"),
    ("default schemes: deprecated explicit default accepted", "passlib/context.py", "        elif default in deps:\n            raise ValueError(\"default scheme cannot be deprecated\")", "        elif default in deps and not schemes:\n            raise ValueError(\"default scheme cannot be deprecated\")", "refute", "_init_default_schemes"),
    ("default schemes: category default picked against the global list", "passlib/context.py", "                    if scheme not in cdeps:", "                    if scheme not in deps:", "refute", "_init_default_schemes"),
    ("needs_update: deprecated schemes flagged only when the record agrees", "passlib/context.py", "        return record.deprecated or record.needs_update(hash, secret=secret)", "        return record.deprecated and record.needs_update(hash, secret=secret)", "refute", "CryptContext.needs_update"),
    ("hash: category dropped when picking the default record", "passlib/context.py", "        record = self._get_record(scheme, category)\n        strip_unused = self._strip_unused_context_kwds\n        if strip_unused:\n            strip_unused(kwds, record)\n        return record.hash(secret, **kwds)", "        record = self._get_record(scheme, None)\n        strip_unused = self._strip_unused_context_kwds\n        if strip_unused:\n            strip_unused(kwds, record)\n        return record.hash(secret, **kwds)", "refute", "CryptContext.hash"),
    ("_create_record: deprecated flag not stored", "passlib/context.py", "        subcls.deprecated = deprecated  # attr reserved for this purpose\n", "", "refute", "_create_record"),
]

from contracts import bcrypt_sha256_nu as _bnu  # noqa: E402

CONTRACTS.append(_bnu.contract("C04"))
MUTANTS += _bnu.MUTANTS
