"""C01 -- a hash verifies exactly the password it was made from."""
import z3

from contracts.trusted import fresh_str
from pyvc.contract import Bytes, Const, Contract, Int, Lemma, NoneT, Obj, Str, Union
from pyvc.runner import Bounded
from pyvc.symexec import RaiseSig, exc_class
from pyvc.values import SBool, SDict, SExc, SObj, SStr, SStub

LEVEL = "proof"
H = "passlib/utils/handlers.py"
EXPLANATION = (
    "GenericHandler.hash and GenericHandler.verify are verified from their real source over an abstract handler "
    "(checksum = calc(settings, secret), render/parse as uninterpreted functions): hash(secret) == render(settings, "
    "calc(settings, secret)) after validate_secret; verify(secret, h) == (calc(parse_settings(h), secret) == "
    "parse_checksum(h)); the round-trip lemma verify(s, hash(s)) is True (and, for s' != s, False unless the digests "
    "collide) follows from the handler obligations H1 (parse o render restores settings and checksum: C07) and H2 "
    "(_calc_checksum is a function of settings and secret). PrefixWrapper wrap/unwrap are inverse on the wrapped "
    "prefix, so wrapped hashers inherit the lemma; the libpass SHA-crypt hasher renders through its own info class. "
    "All registered hashers are swept by the bounded stand-in."
)
ASSUMPTIONS = [
    "H2: _calc_checksum(secret) is a deterministic function of the parsed settings and the secret (no rng/time); django_disabled is the documented exception",
    "H1: from_string(to_string(x)) restores the attributes _calc_checksum reads (C07 contracts / bounded stand-in)",
    "consteq(a, b) == (a == b) (hmac.compare_digest)",
    "collision resistance of the digests for 'a different password does not verify'",
]

calc = z3.Function("calc_checksum", z3.StringSort(), z3.StringSort(), z3.StringSort())  # settings, secret
render = z3.Function("render", z3.StringSort(), z3.StringSort(), z3.StringSort())  # settings, checksum
parse_settings = z3.Function("parse_settings", z3.StringSort(), z3.StringSort())
parse_chk = z3.Function("parse_checksum", z3.StringSort(), z3.StringSort())
has_chk = z3.Function("has_checksum", z3.StringSort(), z3.BoolSort())
well_formed = z3.Function("well_formed", z3.StringSort(), z3.BoolSort())


def _instance(it, settings):
    inst = SObj(it.run.fresh("handler_instance"), fresh=True)

    def calc_checksum(it2, a, k):
        it2.run.calls.append(("_calc_checksum", ()))
        sec = it2.resolve(a[0])
        if not isinstance(sec, (str, bytes, SStr)):
            # real digests call secret.encode()/len(): a non-string reaching them is an internal error
            raise RaiseSig(SExc(exc_class("AttributeError")), it2.lineno)
        return SStr(calc(settings, it2.to_z3(sec)), "str")

    def to_string(it2, a, k):
        chk = inst.fields.get("checksum")
        return SStr(render(settings, it2.to_z3(chk)), "str")

    inst.fields["_calc_checksum"] = SStub(calc_checksum, "_calc_checksum")
    inst.fields["to_string"] = SStub(to_string, "to_string")
    inst.fields["checksum"] = None
    return inst


def _new(it, args, kwargs):
    sigma = z3.String("fresh_settings")  # salt/rounds chosen by the constructor
    it.run.ghost["settings"] = sigma
    inst = _instance(it, sigma)
    it.run.ghost["instance"] = inst
    return inst


def _from_string(it, args, kwargs):
    h = it.to_z3(args[-1] if len(args) == 1 else args[1]) if False else it.to_z3(args[0])
    if not it.run.branch(well_formed(h)):
        raise RaiseSig(SExc(exc_class("ValueError")), it.lineno)
    inst = _instance(it, parse_settings(h))
    inst.fields["checksum"] = it.resolve(Union(NoneT(), Str()).make(it, it.run.fresh("parsed_checksum")))
    if inst.fields["checksum"] is None:
        it.run.assume(z3.Not(has_chk(h)))
    else:
        it.run.assume(z3.And(has_chk(h), inst.fields["checksum"].e == parse_chk(h)))
    return inst


def _consteq(it, args, kwargs):
    return it.cmp_vals("==", args[0], args[1])


CLS = Obj(cls=(H, "GenericHandler"), is_class=True, fields={"from_string": SStub(_from_string, "cls.from_string", trusted="H1/C07: parser contract"), "name": "handler"})
G = {"new.*": SStub(_new, "cls(use_defaults=True)", trusted="constructor picks the settings"), "consteq": SStub(_consteq, "consteq")}

CONTRACTS = [
    Contract(
        "GenericHandler.hash", f"{H}::GenericHandler.hash",
        params={"cls": CLS, "secret": Union(Str(), Bytes(), NoneT()), "kwds": Const(SDict())},
        globals=G,
        raises_iff={"TypeError": "secret is None", "PasswordSizeError": "secret is not None and len(secret) > 4096"},
        ensures=[
            ("hash(secret) == render(settings, calc(settings, secret))", lambda it, env: it.cmp_vals("==", env.lookup("result"), SStr(render(it.run.ghost["settings"], calc(it.run.ghost["settings"], it.to_z3(env.lookup("secret")))), "str"))),
            ("exactly one digest computation", "calls('_calc_checksum') == 1"),
        ],
        descr="any handler (abstract settings / checksum / rendering), any str or bytes secret",
    ),
    Contract(
        "GenericHandler.verify", f"{H}::GenericHandler.verify",
        params={"cls": CLS, "secret": Union(Str(), Bytes()), "hash": Str(), "context": Const(SDict())},
        globals=G,
        raises={"PasswordSizeError": "len(secret) > 4096", "ValueError": lambda it, env: z3.Or(z3.Not(well_formed(it.to_z3(env.lookup("hash")))), z3.Not(has_chk(it.to_z3(env.lookup("hash")))))},
        ensures=[
            ("verify(secret, h) == (calc(parse_settings(h), secret) == parse_checksum(h))",
             lambda it, env: it.to_zbool(it.truth(env.lookup("result"))) == (calc(parse_settings(it.to_z3(env.lookup("hash"))), it.to_z3(env.lookup("secret"))) == parse_chk(it.to_z3(env.lookup("hash"))))),
            ("only well-formed hashes with a digest are answered", lambda it, env: z3.And(well_formed(it.to_z3(env.lookup("hash"))), has_chk(it.to_z3(env.lookup("hash"))))),
        ],
        descr="any handler, any secret, any hash string",
    ),
]


def _roundtrip():
    s, s2, sigma = z3.Strings("secret other settings")
    h = render(sigma, calc(sigma, s))  # hash contract
    H1 = [parse_settings(h) == sigma, parse_chk(h) == calc(sigma, s), has_chk(h), well_formed(h)]
    ver = lambda x: calc(parse_settings(h), x) == parse_chk(h)  # verify contract  # noqa: E731
    return [
        ("verify(secret, hash(secret)) is True", H1, ver(s)),
        ("verify(other, hash(secret)) is True only if the digests collide", H1 + [ver(s2)], calc(sigma, s2) == calc(sigma, s)),
    ]


LEMMAS = [Lemma("hash-verify-roundtrip", _roundtrip, "over the contracts of GenericHandler.hash / verify and the handler obligations H1, H2")]

# ---- PrefixWrapper ------------------------------------------------------------------------------------------
PW = Obj(cls=(H, "PrefixWrapper"), fields={"prefix": Str(), "orig_prefix": Str(), "wrapped": Obj(fields={"name": "wrapped"}), "name": "wrapper"})
CONTRACTS += [
    Contract(
        "PrefixWrapper._wrap_hash", f"{H}::PrefixWrapper._wrap_hash",
        params={"self": PW, "hash": Str()},
        raises_iff={"ValueError": "not hash.startswith(self.orig_prefix)"},
        ensures=[("the wrapped prefix is replaced by the wrapper's prefix", "result == self.prefix + hash[len(self.orig_prefix):]")],
    ),
    Contract(
        "PrefixWrapper._unwrap_hash", f"{H}::PrefixWrapper._unwrap_hash",
        params={"self": PW, "hash": Str()},
        raises_iff={"ValueError": "not hash.startswith(self.prefix)"},
        ensures=[("the wrapper's prefix is replaced by the wrapped prefix", "result == self.orig_prefix + hash[len(self.prefix):]")],
    ),
]


def _wrap_inverse():
    h, p, op = z3.Strings("h prefix orig_prefix")
    pre = [z3.PrefixOf(op, h)]
    w = z3.Concat(p, z3.SubString(h, z3.Length(op), z3.Length(h) - z3.Length(op)))  # _wrap_hash contract
    u = z3.Concat(op, z3.SubString(w, z3.Length(p), z3.Length(w) - z3.Length(p)))  # _unwrap_hash contract
    return [("unwrap(wrap(h)) == h for every h carrying the wrapped prefix", pre, z3.And(z3.PrefixOf(p, w), u == h))]


LEMMAS.append(Lemma("prefix-wrapper-inverse", _wrap_inverse, "over the contracts of _wrap_hash / _unwrap_hash"))

# ---- libpass SHA-crypt hasher renders through its own info class ----------------------------------------
L = "libpass/hashers/sha_crypt.py"


def _sha_setup(it, args):
    self = args["self"]

    def info_cls(it2, a, k):
        it2.run.ghost["rendered_by"] = "own"
        o = SObj("info", fresh=True, fields={"as_str": SStub(lambda i, aa, kk: fresh_str(i, "own_format_string"), "info.as_str")})
        return o

    self.fields["_info_cls"] = SStub(info_cls, "self._info_cls")
    self.fields["_rounds"] = 5000
    self.fields["_sha_func"] = None
    self.fields["_transpose_map"] = ()
    return None


def _foreign(name):
    def call(it, a, k):
        it.run.ghost["rendered_by"] = name
        return SObj("foreign_info", fresh=True, fields={"as_str": SStub(lambda i, aa, kk: fresh_str(i, "foreign_format_string"), "as_str")})

    return SStub(call, name)


CONTRACTS.append(Contract(
    "libpass._ShaHasher.hash", f"{L}::_ShaHasher.hash",
    params={"self": Obj(), "secret": Str(), "salt": Union(NoneT(), Str())},
    setup=_sha_setup,
    globals={"SHA256CryptInfo": _foreign("SHA256CryptInfo"), "SHA512CryptInfo": _foreign("SHA512CryptInfo"),
             "_sha_crypt": SStub(lambda it, a, k: fresh_str(it, "digest", "bytes"), "_sha_crypt"), "_gen_salt": SStub(lambda it, a, k: fresh_str(it, "salt"), "_gen_salt"),
             "as_str": SStub(lambda it, a, k: a[0] if not isinstance(it.resolve(a[0]), SStr) or it.resolve(a[0]).kind == "str" else SStr(it.resolve(a[0]).e, "str"), "as_str"),
             "as_bytes": SStub(lambda it, a, k: SStr(it.to_z3(a[0]), "bytes"), "as_bytes")},
    ensures=[("the hash is rendered through the hasher's own format class (so it identifies and verifies it)", lambda it, env: it.run.ghost.get("rendered_by") == "own")],
    descr="SHA256Hasher / SHA512Hasher share this body",
))

# multi-block DES formats: every 8-byte block of the password enters the digest (a password differing in any block is another
# password); the same contracts are listed under C02 (published algorithm)
from contracts import bigcrypt as _big  # noqa: E402

CONTRACTS += [_big.contract("C01"), _big.bsdi_key_contract("C01")]
from contracts import misc_quick as _mq  # noqa: E402

CONTRACTS += _mq.htdigest_hash  # text and encoded bytes of a password denote the same password under the context encoding
from contracts import c20_libpass as _lp  # noqa: E402

CONTRACTS += _lp.CONTRACTS[:2]  # libpass PBKDF2 hasher: hash / verify
from contracts import c12_extra as _c12x  # noqa: E402

# the salt of a libpass PBKDF2 record goes through the dot-variant base64 helpers (text <-> bytes): shared with C12
CONTRACTS += [c for c in _c12x.CONTRACTS if c.id.startswith(("ab64_decode[libpass", "b64s_decode[libpass"))]
LEMMAS += _lp.LEMMAS
BOUNDED = [Bounded("c01", "harness/c01.py", descr="every registered hasher x password/settings grid x near misses", timeout=900)]

MUTANTS = [
    ("verify compares against the settings instead of the digest", H, "        return consteq(self._calc_checksum(secret), chk)\n", "        return consteq(self._calc_checksum(secret), chk) or chk == \"\"\n", "refute"),
    ("hash skips validate_secret", H, "        validate_secret(secret)\n        self = cls(use_defaults=True, **kwds)\n", "        self = cls(use_defaults=True, **kwds)\n", "refute"),
    ("verify accepts a missing digest", H, "        if chk is None:\n            raise exc.MissingDigestError(cls)\n        return consteq(", "        if chk is None:\n            return True\n        return consteq(", "refute"),
    ("_wrap_hash keeps one char of the old prefix", H, "        return self.prefix + hash[len(orig_prefix) :]\n", "        return self.prefix + hash[len(orig_prefix) - 1 :]\n", "refute"),
    ("_unwrap_hash does not check the prefix", H, "        if not hash.startswith(prefix):\n            raise exc.InvalidHashError(self)\n        # NOTE: always passing", "        # NOTE: always passing", "refute"),
    ("libpass hash renders with the sha256 info class", L, "        return self._info_cls(\n", "        return SHA256CryptInfo(\n", "refute"),
    ("bsdi_crypt key folding skips a final one-byte block", "passlib/handlers/des_crypt.py", "    key_value = _crypt_secret_to_key(secret)\n    idx = 8\n    end = len(secret)\n    while idx < end:", "    key_value = _crypt_secret_to_key(secret)\n    idx = 8\n    end = len(secret) - 1\n    while idx < end:", "refute", "_bsdi_secret_to_key"),
    ("bigcrypt: last segment of one byte dropped", "passlib/handlers/des_crypt.py", "        while idx < end:\n            next = idx + 8\n            chk += _raw_des_crypt(secret[idx:next], chk[-11:-9])", "        while idx < end - 1:\n            next = idx + 8\n            chk += _raw_des_crypt(secret[idx:next], chk[-11:-9])", "refute", "bigcrypt"),
]


# ---- safe_crypt: bytes that are not UTF-8 cannot be handed to crypt(3) under Python 3; the answer is None -- the signal on
#      which every os_crypt backend falls back to its built-in implementation -- never an exception ("hashing succeeds for
#      non-UTF-8 byte passwords") ----
def _sc_setup(it, args):
    from pyvc.values import SObj as _SO, SStr as _SS, SStub as _ST
    import z3 as _z3
    it.genv.vars["_crypt"] = _ST(lambda i, a, k: _SS(_z3.String(i.run.fresh("crypt(3) result")), "str"), "_crypt", trusted="crypt(3): any text result")
    it.genv.vars["_safe_crypt_lock"] = _SO("lock", fields={"__enter__": _ST(lambda i, a, k: None, "__enter__"), "__exit__": _ST(lambda i, a, k: False, "__exit__")})
    return None


from pyvc.contract import Bytes as _Bytes, Contract as _Contract, Str as _Str  # noqa: E402

for _kind, _P in (("bytes password", _Bytes()), ("text password", _Str())):
    CONTRACTS.append(_Contract(
        f"safe_crypt[{_kind}]", "passlib/utils/__init__.py::safe_crypt",
        params={"secret": _P, "hash": _Str()},
        setup=_sc_setup,
        raises={"ValueError": "'\\x00' in secret.decode('utf-8')" if _kind.startswith("bytes") else "'\\x00' in secret"},
        ensures=[("the result is None or the text crypt(3) returned; a NUL is the ONLY reason to raise (undecodable bytes give None)", "result is None or len(result) >= 1")],
        descr="any password, any config string; crypt(3) abstract",
    ))
MUTANTS += [
    ("safe_crypt: undecodable bytes escape as UnicodeDecodeError", "passlib/utils/__init__.py", "            except UnicodeDecodeError:\n                return None", "            except UnicodeEncodeError:\n                return None", "refute", "safe_crypt"),
]

# ---- bcrypt's $2$ emulation (hashing succeeds for every admissible password under every ident, the empty one included) ----
from contracts import c05 as _c05b  # noqa: E402

CONTRACTS += [_c05b.bcrypt_2_contract]


# ---- PrefixWrapper.identify: a wrapped hasher claims exactly the strings that carry its prefix and whose unwrapped form the
#      wrapped hasher claims -- the BARE prefix included ({plaintext} + '' is the roundup / ldap hash of the empty password) ----
_WID = z3.Function("wrapped.identify", z3.StringSort(), z3.BoolSort())


def _pwi_setup(it, args):
    from pyvc.values import SBool as _SB, SStub as _ST
    args["self"].fields["wrapped"].fields["identify"] = _ST(lambda i, a, k: _SB(_WID(i.to_z3(a[0]))), "wrapped.identify", trusted="the wrapped hasher's identify(): any predicate")
    it.genv.vars["to_unicode_for_identify"] = _ST(lambda i, a, k: a[0], "to_unicode_for_identify", trusted="text is returned as is (C17: own contract for bytes)")
    return None


prefix_identify = _Contract(
    "PrefixWrapper.identify", f"{H}::PrefixWrapper.identify",
    params={"self": PW, "hash": _Str()},
    setup=_pwi_setup,
    ensures=[("identify(h) == (h carries the prefix and the wrapped hasher identifies orig_prefix + rest) -- for EVERY h, the bare prefix included",
              lambda it, env: it.to_zbool(it.truth(env.lookup("result"))) == z3.And(
                  z3.PrefixOf(it.to_z3(it.resolve(env.lookup("self")).fields["prefix"]), it.to_z3(env.lookup("hash"))),
                  _WID(z3.Concat(it.to_z3(it.resolve(env.lookup("self")).fields["orig_prefix"]),
                                 z3.SubString(it.to_z3(env.lookup("hash")), z3.Length(it.to_z3(it.resolve(env.lookup("self")).fields["prefix"])), z3.Length(it.to_z3(env.lookup("hash")))))))) ],
    descr="any prefix pair, any string, any wrapped identify()",
)
CONTRACTS.append(prefix_identify)
MUTANTS += [
    ("PrefixWrapper.identify rejects the bare prefix", H, "        if not hash.startswith(self.prefix):\n            return False\n        hash = self._unwrap_hash(hash)\n        return self.wrapped.identify(hash)", "        if len(hash) <= len(self.prefix) or not hash.startswith(self.prefix):\n            return False\n        hash = self._unwrap_hash(hash)\n        return self.wrapped.identify(hash)", "refute", "PrefixWrapper.identify"),
]
