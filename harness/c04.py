"""Bounded stand-in for C04: CryptContext decisions against the pure policy oracle specs/ctx_policy.py
on generated configurations (scheme order, default, deprecated lists / auto, rounds windows incl. clipped,
vary_rounds, two user categories with partial overrides), plus libpass.context.CryptContext.

The generator (gen_config) is shared with c10.py.
"""
import itertools
import os
import random
import sys
from contextlib import contextmanager

sys.path.insert(0, os.path.dirname(os.path.dirname(os.path.abspath(__file__))))

from common import Group, main  # noqa: E402
from specs import ctx_policy as P  # noqa: E402

POOL = ["sha256_crypt", "sha512_crypt", "md5_crypt", "des_crypt", "bsdi_crypt", "pbkdf2_sha256", "sha1_crypt", "ldap_salted_sha1", "phpass", "plaintext"]
CATS = ["admin", "staff"]
PW = "correct horse"  # contains a blank: no hash format of the pool claims it, only plaintext does
WRONG = "c0rrect horse"  # differs inside the first 8 characters (des_crypt looks at no more)
JUNK = ["abcdefghijklm", "$9$unknown$x", PW]  # 13 hash64 chars (des_crypt claims it), nobody, plaintext only

# cheap values per cost-bearing scheme: vals (inside the hard limits), below / above (clipped), cap (max cost hashed)
GRID = {
    "sha256_crypt": dict(vals=[1000, 1100, 1250, 1500, 1800, 2000], below=[400, 900], above=[10**9 + 7, 10**10], cap=2600),
    "sha512_crypt": dict(vals=[1000, 1100, 1250, 1500, 1800, 2000], below=[400, 900], above=[10**9 + 7, 10**10], cap=2600),
    # bsdi_crypt: odd values only (an even upper limit is the known witness class bsdi_crypt:odd-rounds-above-max)
    "bsdi_crypt": dict(vals=[1, 3, 5, 9, 21, 33, 51, 101], below=[], above=[16777217, 2**25 + 1], cap=211),
    "pbkdf2_sha256": dict(vals=[1, 2, 3, 5, 8, 13, 20, 40], below=[], above=[2**32 + 5], cap=100),
    "sha1_crypt": dict(vals=[1, 2, 3, 5, 8, 13, 20, 40], below=[], above=[2**32 + 5], cap=100),
    "phpass": dict(vals=[7, 8, 9, 10], below=[2, 5], above=[31, 64], cap=11),
}
VARY = [0, 1, 2, 10, 100, 0.1, 0.25, 0.5, 1.0, "10%", "50%", "0.1", "3"]


class G(Group):
    """Group that remembers the case being evaluated (for the witness of an unexpected exception)"""

    last_case = None

    def case(self, ident, nontrivial=True):
        self.last_case = ident
        Group.case(self, ident, nontrivial)


@contextmanager
def guarded(g, section):
    """an exception escaping a call that the property says must succeed is a failure of that case, not a harness crash"""
    try:
        yield
    except Exception as err:  # noqa: BLE001
        import traceback

        tb = traceback.extract_tb(err.__traceback__)
        where = [f"{os.path.basename(fr.filename)}:{fr.lineno}" for fr in tb[-4:]]
        g.fail(f"crash:{section}:{type(err).__name__}", f"call raised unexpectedly: {err}"[:200], {"section": section, "trace": where, "case": repr(g.last_case)[:600]})


def load_facts():
    from passlib import hash as H

    facts = {}
    for n in POOL:
        h = getattr(H, n)
        facts[n] = dict(hmin=h.min_rounds, hmax=h.max_rounds, default=h.default_rounds, cost=h.rounds_cost) if "rounds" in h.setting_kwds else None
    return facts


def pin_library_rng(rng):
    """salts and vary_rounds draws of the library come from a generator seeded by the harness rng"""
    import passlib.utils.handlers as uh

    uh.rng = random.Random(rng.getrandbits(64))


# ---------------------------------------------------------------------------------------------
# configuration generator
# ---------------------------------------------------------------------------------------------
def _level_options(rng, scheme, partial=False):
    g = GRID[scheme]
    a, c, b = sorted(rng.choice(g["vals"]) for _ in range(3))
    shape = rng.choice(["max", "minmax", "minmaxdef", "minmaxdef", "rounds", "def", "min", "rounds+max", "min+def", "max+def"])
    o = {
        "max": {"max_rounds": b},
        "minmax": {"min_rounds": a, "max_rounds": b},
        "minmaxdef": {"min_rounds": a, "max_rounds": b, "default_rounds": c},
        "rounds": {"rounds": c},
        "def": {"default_rounds": c},
        "min": {"min_rounds": a},
        "rounds+max": {"rounds": a, "max_rounds": b},
        "min+def": {"min_rounds": a, "default_rounds": c},
        "max+def": {"max_rounds": b, "default_rounds": c},
    }[shape]
    if "min_rounds" in o and g["below"] and rng.random() < 0.15:
        o["min_rounds"] = rng.choice(g["below"])
    if "max_rounds" in o and rng.random() < 0.12:
        o["max_rounds"] = rng.choice(g["above"])
    if "min_rounds" in o and "max_rounds" in o and rng.random() < 0.02:
        o["min_rounds"], o["max_rounds"] = max(g["vals"]), min(g["vals"])  # inconsistent on purpose
    if rng.random() < 0.3:
        o["vary_rounds"] = rng.choice(VARY)
    if partial and len(o) > 1 and rng.random() < 0.6:
        for k in rng.sample(sorted(o), rng.randrange(1, len(o))):
            del o[k]
    for k in list(o):
        if isinstance(o[k], int) and rng.random() < 0.15:
            o[k] = str(o[k])
    return o


def _dep(rng, schemes, default):
    r = rng.random()
    if r < 0.35:
        return None
    if r < 0.55:
        return rng.choice(["auto", ["auto"]])
    cand = [s for s in schemes if s != default] if rng.random() < 0.97 else list(schemes)
    k = rng.randrange(0, len(cand) + 1) if cand else 0
    if default is None and k == len(schemes) and rng.random() < 0.9:
        k -= 1
    lst = rng.sample(cand, k)
    return ", ".join(lst) if lst and rng.random() < 0.15 else lst


def _raw_config(rng, schemes):
    cfg = {"schemes": list(schemes), "options": {}, "categories": {}}
    if rng.random() < 0.5:
        cfg["default"] = rng.choice(schemes)
    d = _dep(rng, schemes, cfg.get("default"))
    if d is not None:
        cfg["deprecated"] = d
    if rng.random() < 0.1:
        cfg["all"] = {"vary_rounds": rng.choice(VARY)}
    for s in schemes:
        if s in GRID and rng.random() < 0.9:
            cfg["options"][s] = _level_options(rng, s)
    for cat in CATS:
        if rng.random() < 0.75:
            c = {"options": {}}
            if rng.random() < 0.35:
                c["default"] = rng.choice(schemes)
            if rng.random() < 0.35:
                d = _dep(rng, schemes, c.get("default") or cfg.get("default"))
                if d is not None:
                    c["deprecated"] = d
            if rng.random() < 0.05:
                c["all"] = {"vary_rounds": rng.choice(VARY)}
            for s in schemes:
                if s in GRID and rng.random() < 0.45:
                    c["options"][s] = _level_options(rng, s, partial=True)
            cfg["categories"][cat] = c
    return cfg


def classify(cfg, facts):
    """'valid' | ('invalid', kind) | 'ambiguous' | 'avoid' (expensive / a known witness class)"""
    try:
        P.validate(cfg, facts)
    except P.Invalid as err:
        return ("invalid", err.kind)
    except P.Ambiguous:
        return "ambiguous"
    for cat in [None] + P.categories(cfg):
        for s in cfg["schemes"]:
            w = P.scheme_window(cfg, s, cat, facts)
            if w is None:
                continue
            if w["unsafe"]:
                return "avoid"  # witness class vary-rounds:outside-hard-limits
            if s == "bsdi_crypt" and w["hi"] is not None and w["hi"] % 2 == 0:
                return "avoid"  # witness class bsdi_crypt:odd-rounds-above-max
            if s == P.default_scheme(cfg, cat) and w["ghi"] > GRID[s]["cap"]:
                return "avoid"  # too expensive to hash
    return "valid"


def gen_config(rng, facts, schemes=None, want_invalid=0.04):
    """-> (cfg, 'valid' | ('invalid', kind))"""
    for _ in range(200):
        if schemes is None:
            n = rng.choice([1, 2, 2, 3, 3, 3, 4, 4, 4])
            sch = rng.sample(POOL, n)
            if "plaintext" in sch and rng.random() < 0.7:
                sch.remove("plaintext")
                sch.append("plaintext")
        else:
            sch = list(schemes)
        cfg = _raw_config(rng, sch)
        c = classify(cfg, facts)
        if c == "valid" or (isinstance(c, tuple) and rng.random() < want_invalid * 4):
            return cfg, c
    cfg = {"schemes": list(sch), "options": {s: {"rounds": GRID[s]["vals"][1]} for s in sch if s in GRID}, "categories": {}}
    return cfg, "valid"


# ---------------------------------------------------------------------------------------------
# probe hashes
# ---------------------------------------------------------------------------------------------
class Probes:
    def __init__(self, facts):
        self.facts = facts
        self.cache = {}

    def make(self, scheme, cost=None):
        from passlib import hash as H

        key = (scheme, cost)
        if key not in self.cache:
            h = getattr(H, scheme)
            self.cache[key] = (h.using(rounds=cost) if cost is not None else h).hash(PW)
        return self.cache[key]

    def costs(self, cfg, scheme):
        f = self.facts[scheme]
        out = set()
        for cat in [None] + P.categories(cfg):
            w = P.scheme_window(cfg, scheme, cat, self.facts)
            for v in (w["lo"], w["hi"]):
                if v is not None:
                    out.update((v - 1, v, v + 1))
                    if scheme == "bsdi_crypt":
                        out.update((v - 2, v + 2))
            out.add(w["default"])
        return sorted(c for c in out if f["hmin"] <= c <= GRID[scheme]["cap"])

    def for_config(self, cfg):
        """[(maker scheme | None, cost | None, hash)]"""
        out = []
        for s in cfg["schemes"]:
            if self.facts[s] is None:
                out.append((s, None, self.make(s)))
            else:
                out.extend((s, c, self.make(s, c)) for c in self.costs(cfg, s))
        out.extend((None, None, j) for j in JUNK)
        return out


def build_context(cfg):
    from passlib.context import CryptContext

    return CryptContext(**P.to_kwds(cfg))


# ---------------------------------------------------------------------------------------------
def check_config(g, cfg, status, facts, probes, rng, n_verify=3):
    from passlib.context import CryptContext

    kw = P.to_kwds(cfg)
    wit = {"kwds": kw}
    if status != "valid":
        try:
            CryptContext(**kw)
            g.fail("refusal:" + status[1], "inconsistent configuration accepted", wit)
        except (ValueError, KeyError):
            pass
        except Exception as err:  # noqa: BLE001
            g.fail("refusal:exception-class", f"inconsistent configuration refused with {type(err).__name__}", wit)
        return
    try:
        ctx = CryptContext(**kw)
    except Exception as err:  # noqa: BLE001
        g.fail(f"ctor:{type(err).__name__}", f"valid configuration refused: {err}"[:200], wit)
        return
    cats = [None] + P.categories(cfg)
    g.check(tuple(ctx.schemes()) == tuple(cfg["schemes"]), "schemes-order", "schemes() differs from the configured order", wit)
    defaults = {}
    for cat in cats:
        D = defaults[cat] = P.default_scheme(cfg, cat)
        g.check(ctx.default_scheme(category=cat) == D, "default-scheme", "default_scheme(category) differs from the policy", dict(wit, category=cat, want=D, got=ctx.default_scheme(category=cat)))
    g.check(ctx.default_scheme(category="nobody") == defaults[None], "default-scheme:unknown-category", "unconfigured category does not fall back to the default category", wit)

    def fresh_checks(h, cat, origin):
        D = defaults[cat]
        w2 = dict(wit, category=cat, hash=h, origin=origin)
        if not g.check(P.claims(D, h), f"{origin}:not-default-scheme", "new hash is not in the default scheme's format", dict(w2, default=D)):
            return
        win = P.scheme_window(cfg, D, cat, facts)
        cost = P.hash_cost(D, h)
        g.check(P.fresh_cost_ok(D, cost, win), f"{origin}:cost:{D}", "new hash does not carry the configured cost", dict(w2, cost=cost, window=win))
        if win and not win["varies"] and D != "bsdi_crypt":
            g.check(cost == win["default"], f"{origin}:cost-exact:{D}", "new hash cost differs from the (clipped) default", dict(w2, cost=cost, window=win))
        if P.first_claimant(cfg, h) != D:
            return  # an earlier scheme (plaintext) shadows the default scheme's hashes: nothing more is promised
        g.check(ctx.identify(h, category=cat) == D, f"{origin}:identify", "new hash not attributed to the default scheme", w2)
        g.check(ctx.verify(PW, h, category=cat) is True, f"{origin}:verify", "new hash does not verify its password", w2)
        g.check(ctx.needs_update(h, category=cat) is False, f"{origin}:needs-update:{D}", "hash just produced needs updating under the same context and category", dict(w2, cost=cost, window=win))
        r = ctx.verify_and_update(PW, h, category=cat)
        g.check(r == (True, None), f"{origin}:fixed-point:{D}", "verify_and_update of a hash just produced is not (True, None)", dict(w2, got=repr(r)))

    for cat in cats:
        try:
            h = ctx.hash(PW, category=cat)
        except Exception as err:  # noqa: BLE001
            g.fail(f"hash:{type(err).__name__}:{defaults[cat]}", f"hash() failed: {err}"[:200], dict(wit, category=cat))
            continue
        fresh_checks(h, cat, "fresh")

    pr = probes.for_config(cfg)
    expect = {}
    for cat in cats:
        for maker, cost, h in pr:
            att, nu = P.needs_update(cfg, cat, h, facts)
            expect[cat, h] = (att, nu)
            w2 = dict(wit, category=cat, hash=h, maker=maker, cost=cost)
            got = ctx.identify(h, category=cat)
            g.check(got == att, f"identify:{att}", "hash not attributed to the first configured scheme that claims it", dict(w2, want=att, got=got))
            if att is None:
                try:
                    ctx.needs_update(h, category=cat)
                    g.fail("unknown-hash:needs_update", "unclaimed hash accepted by needs_update", w2)
                except ValueError:
                    pass
                continue
            try:
                gn = ctx.needs_update(h, category=cat)
            except Exception as err:  # noqa: BLE001
                g.fail(f"needs_update:{type(err).__name__}:{att}", str(err)[:160], w2)
                continue
            g.check(gn == nu, f"needs_update:{att}:{'spurious' if gn else 'missed'}", "needs_update differs from the policy (deprecated / cost window / scheme flag)", dict(w2, want=nu, got=gn, window=P.scheme_window(cfg, att, cat, facts), deprecated=P.is_deprecated(cfg, cat, att)))
    g.check(ctx.needs_update(pr[0][2], category="nobody") == ctx.needs_update(pr[0][2]) if expect[None, pr[0][2]][0] else True, "needs_update:unknown-category", "unconfigured category does not decide like the default category", wit)

    picks = [(rng.choice(cats), rng.choice(pr)) for _ in range(n_verify)]
    for cat, (maker, cost, h) in picks:
        att, nu = expect[cat, h]
        w2 = dict(wit, category=cat, hash=h, maker=maker, cost=cost)
        if att is None:
            try:
                ctx.verify_and_update(PW, h, category=cat)
                g.fail("unknown-hash:verify_and_update", "unclaimed hash accepted", w2)
            except ValueError:
                pass
            continue
        ok = (maker is not None and att == maker) or (att == "plaintext" and h == PW)
        try:
            r = ctx.verify_and_update(PW, h, category=cat)
            v = ctx.verify(PW, h, category=cat)
            rw = ctx.verify_and_update(WRONG, h, category=cat)
        except Exception as err:  # noqa: BLE001
            g.fail(f"verify_and_update:{type(err).__name__}:{att}", str(err)[:160], w2)
            continue
        g.check(v is ok, f"verify:{att}", "verify() differs from the attributed scheme's answer", dict(w2, want=ok, got=v))
        g.check(rw == (False, None), "vau:wrong-password", "wrong password not answered (False, None)", dict(w2, got=repr(rw)))
        if not ok:
            g.check(r == (False, None), "vau:not-verified", "unverified password not answered (False, None)", dict(w2, got=repr(r)))
        elif not nu:
            g.check(r == (True, None), f"vau:no-update:{att}", "verified, policy-conforming hash not answered (True, None)", dict(w2, got=repr(r)))
        else:
            if g.check(isinstance(r, tuple) and len(r) == 2 and r[0] is True and isinstance(r[1], str), f"vau:update:{att}", "verified hash needing an update not answered (True, new)", dict(w2, got=repr(r))):
                fresh_checks(r[1], cat, "rehash")


def build(tier, rng):
    facts = load_facts()
    pin_library_rng(rng)
    probes = Probes(facts)
    groups = []
    from passlib.context import CryptContext

    # ---- probe sanity: the oracle's cost parser agrees with the cost that was asked for ----------
    g = G("probe-hashes", "ctx_policy.hash_cost / claims", "every pool scheme x cheap costs: oracle parses back the requested cost, only the maker (and catch-alls) claim the hash")
    for s in POOL:
        for c in (GRID[s]["vals"] if s in GRID else [None]):
            h = probes.make(s, c)
            g.case((s, c))
            g.check(P.claims(s, h), f"oracle:claims:{s}", "oracle does not recognise the scheme's own hash", {"scheme": s, "hash": h})
            g.check(P.hash_cost(s, h) == c, f"oracle:cost:{s}", "oracle parses a different cost than requested", {"scheme": s, "cost": c, "hash": h})
            others = [o for o in POOL if o != s and o != "plaintext" and P.claims(o, h)]
            g.check(not others, f"oracle:overlap:{s}", "another scheme's format also matches", {"hash": h, "others": others})
    groups.append(g)

    # ---- generated configurations ------------------------------------------------------------
    if tier == "quick":
        n, desc = 3000, "3000 random configurations"
        plan = [None] * n
    else:
        plan = [p for k in range(1, 5) for p in itertools.permutations(POOL, k)]
        plan = plan * 8
        desc = f"every ordered subset of <=4 of the {len(POOL)} pool schemes (5860) x 8 option draws"
    g = G(
        "generated-configurations",
        "CryptContext.identify/hash/needs_update/verify_and_update vs ctx_policy",
        desc + " x default x deprecated (list, string, auto, per category) x min/max/default/rounds/vary_rounds (ints, strings, floats, percent, clipped by hard limits, 'all' scheme) x categories None/admin/staff(+unconfigured) x hashes at window edges -1/0/+1 x right/wrong password x verify_and_update to a fixed point",
    )
    stats = {"valid": 0, "invalid": 0}
    for sch in plan:
        with guarded(g, "generated-configurations"):
            cfg, status = gen_config(rng, facts, schemes=sch)
            stats["valid" if status == "valid" else "invalid"] += 1
            g.case(repr(P.to_kwds(cfg)))
            check_config(g, cfg, status, facts, probes, rng, n_verify=3)
    groups.append(g)

    # ---- hand-picked interactions ---------------------------------------------------------------
    g = G("directed-configurations", "_CryptConfig option inheritance / default + deprecated resolution", "hand-picked interactions: auto + category default, category list over global auto, empty category list, 'all' vs scheme precedence, rounds alias overridden per category, clipping on both sides, categories that differ only by wildcard options")
    directed = [
        {"schemes": ["sha256_crypt", "md5_crypt", "des_crypt"], "deprecated": "auto", "options": {"sha256_crypt": {"rounds": 1000}}, "categories": {"admin": {"default": "md5_crypt"}}},
        {"schemes": ["md5_crypt", "sha1_crypt", "des_crypt"], "deprecated": ["auto"], "options": {"sha1_crypt": {"max_rounds": 5}}, "categories": {"admin": {"deprecated": ["md5_crypt"]}, "staff": {"deprecated": []}}},
        {"schemes": ["md5_crypt", "des_crypt", "plaintext"], "default": "des_crypt", "deprecated": ["plaintext"], "options": {}, "categories": {"admin": {"deprecated": [], "default": "plaintext"}, "staff": {"deprecated": ["md5_crypt", "plaintext"]}}},
        {"schemes": ["pbkdf2_sha256", "sha1_crypt"], "all": {"vary_rounds": 2}, "options": {"pbkdf2_sha256": {"min_rounds": 5, "max_rounds": 20, "default_rounds": 10, "vary_rounds": 0}, "sha1_crypt": {"min_rounds": 5, "max_rounds": 20, "default_rounds": 10}}, "categories": {"admin": {"default": "sha1_crypt", "options": {"sha1_crypt": {"vary_rounds": "50%"}}}}},
        {"schemes": ["sha256_crypt", "sha512_crypt"], "options": {"sha256_crypt": {"rounds": 1500}, "sha512_crypt": {"min_rounds": 400, "max_rounds": 900}}, "categories": {"admin": {"default": "sha512_crypt", "options": {"sha256_crypt": {"max_rounds": 2000}}}, "staff": {"options": {"sha256_crypt": {"default_rounds": "1500", "min_rounds": 1200}}}}},
        {"schemes": ["phpass", "md5_crypt"], "options": {"phpass": {"min_rounds": 2, "max_rounds": 64, "default_rounds": 8}}, "categories": {"admin": {"options": {"phpass": {"max_rounds": 9, "vary_rounds": 1.0}}}, "staff": {"deprecated": "phpass"}}},
        {"schemes": ["bsdi_crypt", "des_crypt"], "options": {"bsdi_crypt": {"min_rounds": 21, "max_rounds": 101, "default_rounds": 50, "vary_rounds": 10}}, "categories": {"admin": {"options": {"bsdi_crypt": {"max_rounds": 51}}}}},
        {"schemes": ["des_crypt", "plaintext"], "deprecated": ["des_crypt"], "options": {}, "categories": {}},
        {"schemes": ["plaintext", "des_crypt", "sha256_crypt"], "default": "sha256_crypt", "options": {"sha256_crypt": {"rounds": 1000}}, "categories": {}},
        # a category that differs from the default one ONLY through its wildcard ('<cat>__all__<option>') options
        {"schemes": ["sha256_crypt", "md5_crypt"], "options": {"sha256_crypt": {"min_rounds": 1000, "default_rounds": 1500, "max_rounds": 4000}}, "categories": {"admin": {"all": {"min_rounds": 3000}}}},
        {"schemes": ["pbkdf2_sha256", "des_crypt"], "options": {"pbkdf2_sha256": {"min_rounds": 5, "default_rounds": 10, "max_rounds": 40}}, "categories": {"admin": {"all": {"max_rounds": 8}}, "staff": {"all": {"min_rounds": 20}}}},
        {"schemes": ["sha1_crypt", "pbkdf2_sha256"], "all": {"vary_rounds": 0}, "options": {"sha1_crypt": {"min_rounds": 10, "default_rounds": 20, "max_rounds": 30}, "pbkdf2_sha256": {"default_rounds": 12}}, "categories": {"admin": {"all": {"default_rounds": 25}}}},
    ]
    for cfg in directed:
        with guarded(g, "directed-configurations"):
            cfg.setdefault("categories", {})
            st = classify(cfg, facts)
            g.case(repr(P.to_kwds(cfg)))
            if st == "valid":
                for _ in range(4):
                    check_config(g, cfg, st, facts, probes, rng, n_verify=6)
            else:
                g.fail("harness:directed-not-valid", f"directed configuration classified {st}", P.to_kwds(cfg))
    groups.append(g)

    # ---- known witness class: bsdi_crypt forces odd rounds past an even upper limit ------------
    g = G("bsdi-odd-rounds", "bsdi_crypt._generate_rounds", "bsdi_crypt with an even configured upper limit equal to the default (max_rounds / rounds alias / per category): a new hash stays inside the window and needs no update")
    KEY = "bsdi_crypt:odd-rounds-above-max"
    for kw in [
        dict(bsdi_crypt__max_rounds=5000, bsdi_crypt__default_rounds=5000),
        dict(bsdi_crypt__rounds=4000),
        dict(bsdi_crypt__max_rounds=2000),
        dict(bsdi_crypt__max_rounds=3001, admin__bsdi_crypt__max_rounds=3000),
        dict(bsdi_crypt__min_rounds=10, bsdi_crypt__max_rounds="100", bsdi_crypt__default_rounds=100),
    ]:
        ctx = CryptContext(["bsdi_crypt"], **kw)
        for cat in (None, "admin"):
            h = ctx.hash(PW, category=cat)
            cost = P.hash_cost("bsdi_crypt", h)
            mx = int(kw.get(f"{cat}__bsdi_crypt__max_rounds" if cat and f"{cat}__bsdi_crypt__max_rounds" in kw else "bsdi_crypt__max_rounds", kw.get("bsdi_crypt__rounds", 0)))
            g.case((repr(kw), cat))
            g.check(cost <= mx and not ctx.needs_update(h, category=cat), KEY, "new bsdi_crypt hash exceeds the even upper limit and is flagged for update", {"kwds": kw, "category": cat, "hash": h, "cost": cost, "max": mx})
            g.check(ctx.verify_and_update(PW, h, category=cat) == (True, None), KEY, "rehash loop: a hash just produced is replaced again", {"kwds": kw, "category": cat})
    groups.append(g)

    # ---- found: vary_rounds range is not clipped to the hard limits ------------------------------
    g = G("vary-rounds-hard-limits", "HasRounds._calc_vary_rounds_range", "default near the hard minimum + vary_rounds without min_rounds, library rng pinned to the lowest / highest draw: hash() succeeds with a cost inside the hard limits")
    import passlib.utils.handlers as uh

    class EdgeRng(random.Random):
        low = True

        def randint(self, a, b):
            return a if self.low else b

    saved = uh.rng
    try:
        uh.rng = EdgeRng(1)
        for s, kw in [
            ("sha256_crypt", dict(sha256_crypt__default_rounds=1000, sha256_crypt__vary_rounds=300)),
            ("pbkdf2_sha256", dict(pbkdf2_sha256__default_rounds=2, pbkdf2_sha256__vary_rounds=5)),
            ("pbkdf2_sha256", dict(pbkdf2_sha256__default_rounds=10, pbkdf2_sha256__vary_rounds=1.0)),
            ("sha1_crypt", dict(sha1_crypt__max_rounds=20, sha1_crypt__default_rounds=3, sha1_crypt__vary_rounds="7")),
            ("phpass", dict(phpass__default_rounds=7, phpass__vary_rounds=2)),
            ("sha512_crypt", dict(sha512_crypt__min_rounds=1000, sha512_crypt__default_rounds=1000, sha512_crypt__vary_rounds=300)),  # min given: fine
        ]:
            for low in (True, False):
                uh.rng.low = low
                ctx = CryptContext([s], **kw)
                g.case((s, repr(kw), low))
                try:
                    h = ctx.hash(PW)
                    c = P.hash_cost(s, h)
                    g.check(facts[s]["hmin"] <= c <= facts[s]["hmax"] and not ctx.needs_update(h), "vary-rounds:outside-hard-limits", "cost outside the hard limits", {"kwds": kw, "hash": h})
                except Exception as err:  # noqa: BLE001
                    g.fail("vary-rounds:outside-hard-limits", f"hash() raises {type(err).__name__}: {err} (vary_rounds range reaches below the scheme's hard minimum and is not clipped)"[:240], {"scheme": s, "kwds": kw, "library_rng_draw": "lowest" if low else "highest"})
    finally:
        uh.rng = saved
    groups.append(g)

    # ---- libpass.context.CryptContext ------------------------------------------------------------
    skipped = []
    g = G("libpass-context", "libpass.context.CryptContext", "every ordered selection of 1..3 distinct hasher objects out of 7 (two SHA256Hasher objects with different rounds among them) x a hash from every hasher + junk: hash with schemes[0], verify = any, needs_update iff not schemes[0]'s format; empty list refused; same object twice")
    import re

    from libpass.context import CryptContext as LC
    from libpass.hashers.pbkdf2 import PBKDF2SHA256Handler, PBKDF2SHA512Handler
    from libpass.hashers.sha_crypt import SHA256Hasher, SHA512Hasher

    hs = {"sha256": (SHA256Hasher(rounds=1000), r"^\$5\$"), "sha256b": (SHA256Hasher(rounds=1100), r"^\$5\$"), "sha512": (SHA512Hasher(rounds=1000), r"^\$6\$"), "pbkdf2_256": (PBKDF2SHA256Handler(rounds=3), r"^\$pbkdf2-sha256\$"), "pbkdf2_512": (PBKDF2SHA512Handler(rounds=3), r"^\$pbkdf2-sha512\$")}
    try:
        from libpass.hashers.bcrypt import BcryptHasher, BcryptSHA256Hasher

        hs["bcrypt"] = (BcryptHasher(rounds=4), r"^\$2[ab]\$")
        hs["bcrypt_sha256"] = (BcryptSHA256Hasher(rounds=4), r"^\$bcrypt-sha256\$")
        hs["bcrypt"][0].hash(PW)
    except Exception as err:  # noqa: BLE001
        skipped.append(f"libpass bcrypt hashers: {type(err).__name__}: {err}")
        hs.pop("bcrypt", None)
        hs.pop("bcrypt_sha256", None)
    sample = {k: h.hash(PW) for k, (h, _) in hs.items()}
    for k, h in sample.items():
        g.check(re.search(hs[k][1], h), f"libpass:format:{k}", "hasher output is not in its documented format", {"hasher": k, "hash": h})
    names = sorted(hs)
    sels = [p for k in (1, 2, 3) for p in itertools.permutations(names, k)]
    if tier == "quick":
        sels = [p for p in sels if len(p) < 3] + rng.sample([p for p in sels if len(p) == 3], 60)
    for sel in sels:
        ctx = LC([hs[k][0] for k in sel])
        fmt0 = hs[sel[0]][1]
        fresh = ctx.hash(PW)
        g.case(sel)
        w = {"schemes": list(sel)}
        g.check(re.search(fmt0, fresh), "libpass-context:hash-scheme", "hash() does not use schemes[0]", dict(w, hash=fresh))
        g.check(ctx.verify(PW, fresh) is True and ctx.verify(WRONG, fresh) is False, "libpass-context:verify-fresh", "fresh hash verify", dict(w, hash=fresh))
        g.check(ctx.needs_update(fresh) is False, "libpass-context:fresh-needs-update", "a hash just produced needs updating", dict(w, hash=fresh))
        for k, h in list(sample.items()) + [("junk", "$9$unknown$x")]:
            if tier == "quick" and len(sel) == 3 and k not in sel and k != "junk":
                continue
            fam = None if k == "junk" else hs[k][1]
            want_v = any(hs[s][1] == fam for s in sel)
            want_nu = fam != fmt0
            g.check(ctx.verify(PW, h) is want_v, "libpass-context:verify-any", "verify is not 'any configured scheme verifies'", dict(w, hash=h, want=want_v))
            g.check(ctx.verify(WRONG, h) is False, "libpass-context:verify-wrong", "wrong password verified", dict(w, hash=h))
            g.check(ctx.needs_update(h) is want_nu, "libpass-context:needs-update", "needs_update(h) is not 'h is not in schemes[0]'s format'", dict(w, hash=h, want=want_nu))
    try:
        LC([])
        g.fail("libpass-context:empty", "empty scheme list accepted", {})
    except ValueError:
        pass
    for k in names:
        for sel in ([k, k], [k, k, names[0]], [names[-1], k, k]):
            if sel[0] != k:
                continue  # a duplicate behind another first scheme is the plain 'deprecated' case, covered above
            ctx = LC([hs[s][0] for s in sel])
            h = ctx.hash(PW)
            g.case(("dup",) + tuple(sel))
            g.check(ctx.needs_update(h) is False, "libpass-context:duplicate-scheme", "context listing the same hasher object twice flags the hashes it has just produced", {"schemes": sel, "hash": h})
    groups.append(g)

    # ------------------------------------------------------------------------------------------------
    g = G("fresh-hash-fixed-point", "CryptContext.needs_update(CryptContext.hash(.))", "contexts that pin a non-default FORMAT option of their default scheme (bcrypt_sha256 version 1 / 2, bcrypt ident 2a / 2y / 2b, sha256_crypt with an explicit default cost, des_crypt truncate_error, per-category variants): the hash the context makes is not flagged, verify_and_update hands out no replacement, and a hash made under the other setting IS flagged when that setting is older / deprecated")
    fixed = [
        ("bcrypt_sha256 v1", dict(schemes=["bcrypt_sha256"], bcrypt_sha256__version=1, bcrypt_sha256__rounds=4), None),
        ("bcrypt_sha256 v2", dict(schemes=["bcrypt_sha256"], bcrypt_sha256__version=2, bcrypt_sha256__rounds=4), dict(schemes=["bcrypt_sha256"], bcrypt_sha256__version=1, bcrypt_sha256__rounds=4)),
        ("bcrypt_sha256 v1 for admin only", dict(schemes=["bcrypt_sha256", "md5_crypt"], bcrypt_sha256__rounds=4, admin__bcrypt_sha256__version=1), None),
        ("bcrypt 2a", dict(schemes=["bcrypt"], bcrypt__ident="2a", bcrypt__rounds=4), None),
        ("bcrypt 2y", dict(schemes=["bcrypt"], bcrypt__ident="2y", bcrypt__rounds=4), None),
        ("bcrypt 2b", dict(schemes=["bcrypt"], bcrypt__ident="2b", bcrypt__rounds=4), None),
        ("sha256_crypt 1500", dict(schemes=["sha256_crypt", "md5_crypt"], sha256_crypt__default_rounds=1500, deprecated=["md5_crypt"]), dict(schemes=["md5_crypt"])),
    ]
    for label, kw, older in fixed:
        try:
            ctx = CryptContext(**kw)
            for cat in (None, "admin"):
                g.case((label, cat))
                hs = ctx.hash("pw", category=cat)
                w = {"context": label, "category": cat, "hash": hs}
                g.check(ctx.needs_update(hs, category=cat) is False, f"fixed-point:flagged:{label}", "the context flags the hash it has just made", w)
                g.check(ctx.verify_and_update("pw", hs, category=cat) == (True, None), f"fixed-point:replaced:{label}", "verify_and_update replaces a hash the context has just made", w)
            if older:
                old_hash = CryptContext(**older).hash("pw")
                g.case((label, "older"))
                g.check(ctx.needs_update(old_hash) is True, f"fixed-point:older:{label}", "a hash made under the older / deprecated setting is not flagged", {"context": label, "hash": old_hash})
        except Exception as err:  # noqa: BLE001
            g.fail(f"fixed-point:crash:{label}", f"{type(err).__name__}: {err}"[:160], {"context": label})
    groups.append(g)
    return groups, skipped, {"configs": stats, "probe_hashes": len(probes.cache)}


if __name__ == "__main__":
    main(build)
