"""Shared pieces for the rounds-policy contracts (C04 / C09)."""
import z3

from pyvc.contract import Bool, Contract, Int, NoneT, Obj, Opt, Str, UF, Union
from pyvc.values import SModule, SObj, SOpaque, SStub

H = "passlib/utils/handlers.py"

EXC = SModule("exc")
WARNS = {"exc": EXC, "PasslibConfigWarning": SOpaque("warning class"), "PasslibHashWarning": SOpaque("warning class")}

RNG = Obj(methods={"randint": UF(["int", "int"], "int", requires=lambda it, a, b: a <= b, ensures=lambda it, r, a, b: z3.And(a <= r, r <= b), name="randint")})

# class record with symbolic rounds policy; hard limits min_rounds (int) / max_rounds (None or int)
def cls_fields(**over):
    f = {
        "name": "handler",
        "min_rounds": Int(lo=0),
        "max_rounds": Opt(Int(lo=0)),
        "min_desired_rounds": Opt(Int()),
        "max_desired_rounds": Opt(Int()),
        "default_rounds": Opt(Int()),
        "vary_rounds": Opt(Int(lo=0)),
        "rounds_cost": "linear",
    }
    f.update(over)
    return f


def CLS(**over):
    return Obj(cls=(H, "HasRounds"), is_class=True, fields=cls_fields(**over))


# spec fragments (Python expressions over a class record c)
def eff(x):
    """'x is set' in the code's sense: not None and non-zero"""
    return f"({x} is not None and {x} != 0)"


def needs_update_rounds(c, r):
    return f"(({eff(c + '.min_desired_rounds')} and {r} < {c}.min_desired_rounds) or ({eff(c + '.max_desired_rounds')} and {r} > {c}.max_desired_rounds))"


def inv(c):
    """policy invariant established by using(): window consistent, default inside it"""
    mn, mx, d = f"{c}.min_desired_rounds", f"{c}.max_desired_rounds", f"{c}.default_rounds"
    return (
        f"(implies({eff(mn)} and {eff(mx)}, {mn} <= {mx})"
        f" and implies({d} is not None and {eff(mn)}, {d} >= {mn})"
        f" and implies({d} is not None and {eff(mx)}, {d} <= {mx})"
        f" and implies({mn} is not None, {mn} >= 0) and implies({mx} is not None, {mx} >= 0) and implies({d} is not None, {d} >= 0))"
    )
