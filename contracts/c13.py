"""C13 -- one-time codes follow RFC 4226 / RFC 6238."""
import z3

from pyvc.contract import Const, Contract, Int, Obj, Str, UF
from pyvc.runner import Bounded
from pyvc.symexec import RaiseSig, exc_class
from pyvc.values import IntSeqSort, SBool, SDec, SExc, SInt, SObj, SSeq, SStub
from pyvc.replay import py_replay

LEVEL = "proof"
T = "passlib/totp.py"
EXPLANATION = (
    "TOTP._generate is verified from its real source against RFC 4226 dynamic truncation and decimal rendering for "
    "every digest of 20..64 bytes and digits 6..10 (HMAC abstract; HMAC itself under C11); generate() against "
    "T = floor(time/period) with the validity interval; normalize_token (integer codes)."
)
ASSUMPTIONS = [
    "struct '>Q' pack / '>I' unpack: big-endian 8/4 byte integers (trusted model in contracts/c13.py)",
    "keyed_hmac(msg) returns digest_info.digest_size bytes (compile_hmac contract, C11)",
    "decimal rendering meta-rule (pyvc SDec): last d characters of '%0*d' % (d, v) are the rendering of v mod 10^d",
    "counter < 2^64 (struct.error otherwise; times up to 2^40 in the property's quantifier)",
    "text tokens (regex clean-up), float/datetime times and key text encodings: bounded stand-in only",
]

hm = z3.Function("hmac_digest", IntSeqSort, IntSeqSort)
be64 = z3.Function("be64", z3.IntSort(), IntSeqSort)


def _pack64(it, args, kwargs):
    c = it.to_z3(args[0], "int")
    if not it.spec:
        it.may_raise("struct.error", z3.And(c >= 0, c < 2**64))
    it.run.assume(z3.Length(be64(c)) == 8)
    return SSeq(be64(c), "bytes")


def _unpack32(it, args, kwargs):
    s = it.resolve(args[0])
    e = it.to_z3(s, "intseq")
    if not it.spec:
        it.may_raise("struct.error", z3.Length(e) == 4)
    b = [e[k] for k in range(4)]
    for x in b:
        it.run.assume(z3.And(x >= 0, x < 256))
    return (it.wrap_int(b[0] * 2**24 + b[1] * 2**16 + b[2] * 2**8 + b[3]),)


def _setup(it, args):
    size = z3.Int("digest_size")
    it.note_input("digest_size", SInt(size))
    it.run.assume(z3.And(size >= 20, size <= 64))

    def keyed(it2, a, kw):
        msg = it2.to_z3(a[0], "intseq")
        d = hm(msg)
        it2.run.assume(z3.Length(d) == size)
        return SSeq(d, "bytes")

    info = SObj("digest_info", fields={"digest_size": SInt(size)})
    args["self"].fields["_keyed_hmac"] = SStub(keyed, "keyed_hmac", trusted="HMAC (C11)", attrs={"digest_info": info})
    return None


def _rfc4226(digits):
    def ensures(it, env):
        counter = it.to_z3(env.lookup("counter"), "int")
        d = hm(be64(counter))
        n = z3.Length(d)
        last = d[n - 1]
        o = last % 16
        b = [d[o + k] for k in range(4)]
        for x in b + [last]:
            it.run.assume(z3.And(x >= 0, x < 256))
        val = (b[0] % 128) * 2**24 + b[1] * 2**16 + b[2] * 2**8 + b[3]
        res = env.lookup("result")
        return it.cmp_vals("==", res, SDec(val % (10**digits), digits))

    return ensures


def _gen_replay(digits):
    """executable specification of _generate (RFC 4226 over stdlib hmac), run on SEVERAL objects that share one key but differ in
    algorithm, in sequence: the code of each object depends on its own (key, algorithm) only"""
    ref = """
import hashlib, hmac, struct
from passlib.totp import TOTP
def ref(key, alg, counter, digits):
    d = hmac.new(key, struct.pack('>Q', counter), getattr(hashlib, alg)).digest()
    o = d[-1] & 15
    return str((struct.unpack('>I', d[o:o + 4])[0] & 0x7fffffff) % 10 ** digits).rjust(digits, '0')
def both(counter, digits):
    out = []
    for key in (b'0123456789abcdefghij', b'another key of 22 byte'):
        for alg in ('sha1', 'sha256', 'sha512', 'sha1'):
            out.append((TOTP(key=key, format='raw', alg=alg, digits=digits)._generate(counter), ref(key, alg, counter, digits)))
    return out
"""
    return py_replay(ref, f"r = both(V['counter'], {digits})", "exc is None and all(a == b for a, b in r)", {"counter": 1},
                     search=lambda v: [dict(v, counter=c) for c in (0, 1, 59, 2**32, 2**63)])


CONTRACTS = []
for _d in range(6, 11):
    CONTRACTS.append(Contract(
        f"_generate[digits={_d}]", f"{T}::TOTP._generate",
        params={"self": Obj(cls=(T, "TOTP"), fields={"digits": Const(_d)}), "counter": Int(0, 2**64 - 1)},
        setup=_setup,
        globals={"_pack_uint64": SStub(_pack64, "_pack_uint64", trusted="struct >Q"), "_unpack_uint32": SStub(_unpack32, "_unpack_uint32", trusted="struct >I")},
        ensures=[
            (f"token == RFC 4226 DT(HMAC(K, counter)) mod 10^{_d}, zero padded", _rfc4226(_d)),
            ("token has exactly `digits` characters", f"len(result) == {_d}"),
        ],
        descr=f"all counters < 2^64, every digest of 20..64 bytes, digits={_d}",
        replay=_gen_replay(_d),
    ))

# ---- first code of an object (nothing cached yet): the keyed HMAC is compiled from THIS object's algorithm and key ----
def _setup_cold(it, args):
    _setup(it, args)
    self = args["self"]
    warm = self.fields["_keyed_hmac"]
    self.fields["_keyed_hmac"] = None
    self.fields["alg"] = SStr(z3.String("self.alg"), "str")
    self.fields["key"] = SStr(z3.String("self.key"), "bytes")

    def compile_(i, a, k):
        i.run.ghost["compiled_with"] = (i.to_z3(a[0]), i.to_z3(a[1]))
        i.run.ghost["compiled"] = i.run.ghost.get("compiled", 0) + 1
        return warm
    it.genv.vars["compile_hmac"] = SStub(compile_, "compile_hmac", trusted="C11: HMAC keyed with (digest name, key)")
    return None


from pyvc.values import SStr as _SStr0  # noqa: E402
SStr = _SStr0
CONTRACTS.append(Contract(
    "_generate[digits=6, nothing cached]", f"{T}::TOTP._generate",
    params={"self": Obj(cls=(T, "TOTP"), fields={"digits": Const(6)}), "counter": Int(0, 2**64 - 1)},
    setup=_setup_cold,
    globals={"_pack_uint64": SStub(_pack64, "_pack_uint64", trusted="struct >Q"), "_unpack_uint32": SStub(_unpack32, "_unpack_uint32", trusted="struct >I")},
    ensures=[
        ("the HMAC is compiled once, from this object's own algorithm and key, and kept on this object",
         lambda it, env: z3.And(z3.BoolVal(it.run.ghost.get("compiled") == 1),
                                it.run.ghost["compiled_with"][0] == z3.String("self.alg") if it.run.ghost.get("compiled") == 1 else z3.BoolVal(False),
                                it.run.ghost["compiled_with"][1] == z3.String("self.key") if it.run.ghost.get("compiled") == 1 else z3.BoolVal(False),
                                z3.BoolVal(it.resolve(env.lookup("self")).fields.get("_keyed_hmac") is not None))),
        ("token == RFC 4226 DT(HMAC(K, counter)) mod 10^6, zero padded", _rfc4226(6)),
    ],
    replay=_gen_replay(6),
    descr="all counters < 2^64; nothing cached on the object",
))

SELF = Obj(cls=(T, "TOTP"), fields={"period": Int(lo=1), "digits": Int(6, 10)}, methods={"_generate": UF(["int"], "str", requires=lambda it, c: c >= 0, name="generate")})

CONTRACTS.append(Contract(
    "generate", f"{T}::TOTP.generate",
    params={"self": SELF, "time": Int()},
    raises_iff={"ValueError": "time < 0"},
    ensures=[
        ("counter == floor(time / period)", "result.counter == time // self.period"),
        ("token is the code of that counter", "result.token == self._generate(time // self.period)"),
        ("start_time == counter * period", "result.start_time == (time // self.period) * self.period"),
        ("expire_time == (counter + 1) * period", "result.expire_time == (time // self.period + 1) * self.period"),
        ("time lies in the validity interval", "result.start_time <= time < result.expire_time"),
    ],
    descr="all int times, all periods >= 1",
))

CONTRACTS.append(Contract(
    "normalize_token[int]", f"{T}::TOTP.normalize_token",
    params={"self_or_cls": Obj(cls=(T, "TOTP"), fields={"digits": Const(6)}), "token": Int(lo=0)},
    raises_iff={"MalformedTokenError": "token >= 1000000"},
    ensures=[("integer code is zero padded to `digits`", lambda it, env: it.cmp_vals("==", env.lookup("result"), SDec(it.to_z3(env.lookup("token"), "int"), 6)))],
    descr="integer tokens >= 0, digits = 6",
))


# ---- normalize_time: numbers as given; date-times through their UTC reading --------------------------------------------
def _nt_setup(it, args):
    from pyvc.values import SInt, SObj
    utc, local = z3.Int("timegm(utc tuple)"), z3.Int("timegm(local tuple)")
    tup_u, tup_l = SObj("utc time tuple"), SObj("local (wall clock) time tuple")
    # utcoffset() of an aware date-time east or west of Greenwich: a non-zero timedelta (days, seconds) normalised as
    # Python does (0 <= seconds < 86400, west => days == -1) with wall clock - offset == UTC (unused on the current source)
    days, secs = z3.Int("utcoffset().days"), z3.Int("utcoffset().seconds")
    it.run.assume(z3.And(days >= -1, days <= 0, secs >= 0, secs < 86400, days * 86400 + secs != 0, local - (days * 86400 + secs) == utc))
    delta = SObj("timedelta", fields={"days": SInt(days), "seconds": SInt(secs), "microseconds": 0,
                                      "total_seconds": SStub(lambda i, a, k: SInt(days * 86400 + secs), "timedelta.total_seconds")})
    args["time"] = SObj("datetime", fields={"utctimetuple": SStub(lambda i, a, k: tup_u, "utctimetuple"), "timetuple": SStub(lambda i, a, k: tup_l, "timetuple"),
                                            "utcoffset": SStub(lambda i, a, k: delta, "utcoffset")})
    it.genv.vars["calendar"] = SObj("calendar", fields={"timegm": SStub(lambda i, a, k: SInt(utc) if i.resolve(a[0]) is tup_u else SInt(local), "calendar.timegm")})
    return {"utc_seconds": SInt(utc)}


CONTRACTS.append(Contract(
    "normalize_time[int]", f"{T}::TOTP.normalize_time",
    params={"cls": Obj(cls=(T, "TOTP"), is_class=True, fields={"now": SStub(lambda i, a, k: SInt(z3.Int("now()")), "cls.now", trusted="the clock: any value")}), "time": Int()},
    ensures=[("an integer timestamp is used as given -- also 0, the epoch itself, which is not 'no time given'", "result == time")],
    replay=py_replay("from passlib.totp import TOTP", "r = TOTP.normalize_time(V['time'])", "exc is None and r == V['time']", {"time": 0}),
))
CONTRACTS.append(Contract(
    "normalize_time[datetime]", f"{T}::TOTP.normalize_time",
    params={"cls": Obj(cls=(T, "TOTP"), is_class=True), "time": Const(None)},
    setup=_nt_setup,
    ensures=[("a date-time (with or without time zone) denotes its UTC instant: seconds of its UTC time tuple, not of its wall-clock tuple", "result == utc_seconds")],
    descr="any date-time object; calendar.timegm abstract",
    replay=py_replay("import datetime as D\nfrom passlib.totp import TOTP",
                     "t = D.datetime(2020, 1, 1, 12, 0, 0, tzinfo=D.timezone(D.timedelta(hours=V['hours']))); r = (TOTP.normalize_time(t), int(t.timestamp()))",
                     "exc is None and r[0] == r[1]", {"hours": -5}, search=lambda v: [dict(v, hours=h) for h in (-11, -5, 0, 3, 12)]),
))


# ---- the cached keyed HMAC follows the key (representation invariant: _keyed_hmac is None or compile_hmac(alg, key)) -----------
CONTRACTS.append(Contract(
    "TOTP.key (setter)", f"{T}::TOTP.key@setter",
    params={"self": Obj(fields={"_key": __import__("pyvc.contract", fromlist=["Bytes"]).Bytes(), "_keyed_hmac": Const("hmac keyed with the OLD key"), "_encrypted_key": Const("old encrypted key")}),
            "value": __import__("pyvc.contract", fromlist=["Bytes"]).Bytes()},
    ensures=[("assigning a key installs it and drops everything derived from the previous key (the cached keyed HMAC, the encrypted form)",
              lambda it, env: z3.And(it.to_zbool(it.truth(it.cmp_vals("==", it.resolve(env.lookup("self")).fields["_key"], env.lookup("value")))),
                                     z3.BoolVal(it.resolve(env.lookup("self")).fields["_keyed_hmac"] is None and it.resolve(env.lookup("self")).fields["_encrypted_key"] is None)))],
    descr="any previous state, any new key",
))

# the HMAC the tokens are truncated from: proved under C11, shared here because RFC 4226/6238 define the token over HMAC(key, counter)
from contracts import c11 as _c11  # noqa: E402

CONTRACTS += [c for c in _c11.CONTRACTS if c.id == "compile_hmac"]
FINITE = [f for f in _c11.FINITE if f.id == "hmac-pad-tables"]
BOUNDED = [Bounded("c13", "harness/c13.py", descr="RFC reference over algorithms/digits/periods/times; key text encodings; datetime/float times")]

MUTANTS = [
    ("offset mask 0x7", T, "        offset = digest[-1] & 0xF\n", "        offset = digest[-1] & 0x7\n", "refute"),
    ("offset from first byte", T, "        offset = digest[-1] & 0xF\n", "        offset = digest[0] & 0xF\n", "refute"),
    ("sign bit kept", T, "[0] & 0x7FFFFFFF", "[0] & 0xFFFFFFFF", "refute"),
    ("slice of 3 bytes", T, "digest[offset : offset + 4]", "digest[offset : offset + 3]", "refute"),
    ("leading digits instead of trailing", T, "        return (\"%0*d\" % (digits, value))[-digits:]", "        return (\"%0*d\" % (digits, value))[:digits]", "undecided"),  # outside the SDec meta-rule: caught by the bounded stand-in only
    ("generate: negative check off by one", T, "        if counter < 0:\n            raise ValueError(\"timestamp must be >= 0\")", "        if counter < -1:\n            raise ValueError(\"timestamp must be >= 0\")", "refute"),
    ("TotpToken start_time uses next counter", T, "        return self.totp._counter_to_time(self.counter)\n", "        return self.totp._counter_to_time(self.counter + 1)\n", "refute"),
    ("normalize_token pads to digits+1", T, "            token = \"%0*d\" % (digits, token)\n", "            token = \"%0*d\" % (digits + 1, token)\n", "refute"),
    ("harmless: digits local inlined", T, "        digits = self.digits\n        assert 0 < digits < 11, \"digits: sanity check failed\"\n", "        digits = self.digits\n        assert 11 > digits > 0, \"digits: sanity check failed\"\n", "hold"),
    ("normalize_time: wall-clock tuple of a zone-aware date-time used", T, "            return calendar.timegm(time.utctimetuple())", "            return calendar.timegm(time.timetuple())", "refute", "normalize_time"),
    ("TOTP.key setter keeps the HMAC keyed with the old key", T, "        self._encrypted_key = self._keyed_hmac = None", "        self._encrypted_key = None", "refute", "TOTP.key"),
]


# ---- _decode_bytes: "keys given in base32 or hex, with spaces, dashes or lower case, denote the same key" -- the separator
#      cleaning is applied to the text BEFORE the format is looked at, so both encoded forms go through it ----
_CLEAN = z3.Function("clean(spaces, dashes)", z3.StringSort(), z3.StringSort())


def _db_setup(it, args):
    from pyvc.values import SStr as _S
    g = it.run.ghost
    def to_u(i, a, k):
        v = i.resolve(a[0])
        return _S(i.to_z3(v), "str") if getattr(v, "kind", None) == "bytes" else v
    it.genv.vars["to_unicode"] = SStub(to_u, "to_unicode", trusted="text is returned as is, ASCII bytes as the same characters")
    it.genv.vars["_clean_re"] = SObj("_clean_re", fields={"sub": SStub(lambda i, a, k: _S(_CLEAN(i.to_z3(a[1])), "str"), "_clean_re.sub", trusted="regex: uninterpreted")})

    def rec(name):
        def f(i, a, k):
            g["decoder"] = name
            g["decoded"] = i.resolve(a[0])
            return _S(z3.String("decoded key"), "bytes")
        return f
    it.genv.vars["base64"] = SObj("base64", fields={"b16decode": SStub(rec("hex"), "base64.b16decode", trusted="stdlib")})
    it.genv.vars["b32decode"] = SStub(rec("base32"), "b32decode", trusted="C12: own contract")
    return None


def _db_post(fmt):
    def post(it, env):
        g = it.run.ghost
        if g.get("decoder") != fmt:
            return z3.BoolVal(False)
        got = g["decoded"]
        key = it.to_z3(env.lookup("key"))
        was = it.spec
        it.spec = True
        try:
            want = it.m_text_encode(SStr(_CLEAN(key), "str"), "utf-8")
            if fmt == "hex":
                want = it.m_text_upper(want)
        finally:
            it.spec = was
        # (text or bytes: both decoders accept either; only the content is the property's business)
        return it.to_z3(got) == it.to_z3(want)
    return post


from pyvc.values import SStr  # noqa: E402

_DB_REF = """
import base64
from passlib.totp import _decode_bytes
def attempt(f):
    try:
        return f()
    except Exception:
        return 'refused'
def _clean(k):
    return ''.join(c for c in k if c not in ' \\t\\n\\r\\x0b\\x0c-')
def ref_hex(k):
    return bytes.fromhex(_clean(k)) if all(c in '0123456789abcdefABCDEF' for c in _clean(k)) else attempt(lambda: 1 / 0)
def ref_base32(k):
    k = _clean(k).upper()
    return base64.b32decode(k + '=' * (-len(k) % 8))
"""

from pyvc.contract import Bytes as _BytesP  # noqa: E402

for _fmt, _name in (("hex", "hex"), ("base32", "base32")):
    CONTRACTS.append(Contract(
        f"_decode_bytes[{_fmt}, ASCII bytes key]", f"{T}::_decode_bytes",
        params={"key": _BytesP(), "format": Const(_fmt)},
        setup=_db_setup,
        requires=[lambda it, env: it.all_codes_below(it.to_z3(env.lookup("key")), 128)],
        raises={"UnicodeEncodeError": None},
        ensures=[(f"a key given as ASCII bytes is cleaned exactly like the same key given as text before the {_name} decoder sees it", _db_post(_name))],
        replay=py_replay(_DB_REF, "r = (attempt(lambda: _decode_bytes(V['key'].encode('ascii'), %r)), attempt(lambda: ref_%s(V['key'])))" % (_fmt, _name), "exc is None and r[0] == r[1]",
                         {"key": "e01c-630c 2184-b076-ce99" if _name == "hex" else "4aog gdbb qsyh ntuz"},
                         search=lambda v, _n=_name: [dict(v, key=k) for k in (("e01c-630c 2184-b076-ce99", "E01C630C", " e0 1c ") if _n == "hex" else ("4aog gdbb qsyh ntuz", "4AOGGDBB", " 4aog-gdbb "))]),
        descr="any ASCII bytes key; the cleaning regex and the decoders abstract",
    ))
for _fmt, _name in (("hex", "hex"), ("base16", "hex"), ("base32", "base32")):
    CONTRACTS.append(Contract(
        f"_decode_bytes[{_fmt}]", f"{T}::_decode_bytes",
        params={"key": Str(), "format": Const(_fmt)},
        setup=_db_setup,
        raises={"UnicodeEncodeError": None},
        ensures=[(f"the {_name} decoder receives the key text with separators removed (and upper-cased for hex), as bytes", _db_post(_name))],
        replay=py_replay(_DB_REF, "r = (attempt(lambda: _decode_bytes(V['key'], %r)), attempt(lambda: ref_%s(V['key'])))" % (_fmt, _name), "exc is None and r[0] == r[1]",
                         {"key": "e01c-630c 2184-b076-ce99" if _name == "hex" else "4aog gdbb qsyh ntuz"},
                         search=lambda v, _n=_name: [dict(v, key=k) for k in (("e01c-630c 2184-b076-ce99", "E01C630C", " e0 1c ") if _n == "hex" else ("4aog gdbb qsyh ntuz", "4AOGGDBB", " 4aog-gdbb "))]),
        descr="any key text; the cleaning regex and the decoders abstract",
    ))

MUTANTS += [
    ("_decode_bytes: hex keys are only stripped at the ends, not cleaned of inner separators", T, "    key = _clean_re.sub(\"\", key).encode(\"utf-8\")  # strip whitespace & hypens\n    if format == \"hex\" or format == \"base16\":\n        return base64.b16decode(key.upper())", "    key = key.strip().encode(\"utf-8\")\n    if format == \"hex\" or format == \"base16\":\n        return base64.b16decode(key.upper())", "refute", "_decode_bytes"),
    ("normalize_time: the epoch itself is taken for 'no time given'", T, "        if time is None:\n            return int(cls.now())", "        if not time:\n            return int(cls.now())", "hold", "normalize_time"),
]
