"""pyvc.discharge -- solver portfolio.  Verdicts: 'unsat' (discharged), 'sat' (refuted, with model),
'unknown' (undecided).  Never maps unknown/timeouts/errors to a violation."""

from __future__ import annotations

import os
import re
import subprocess
import tempfile
import time
from concurrent.futures import ProcessPoolExecutor

CVC5 = "/usr/bin/cvc5"

_STRING_HINT = re.compile(r"(\bString\b|\bstr\.|\bre\.)")


Z3 = "z3-new"


def _z3_solve(smt2, timeout_ms, want_model):
    """z3 through its CLI: a hard wall-clock limit (the API's soft timeout is not always honoured by the
    sequence solver)"""
    text = smt2 + ("\n(get-model)\n" if want_model else "")
    with tempfile.NamedTemporaryFile("w", suffix=".smt2", delete=False, dir=os.environ.get("PYVC_TMP")) as fh:
        fh.write(text)
        path = fh.name
    t0 = time.time()
    secs = max(1, int(timeout_ms / 1000))
    try:
        out = subprocess.run([Z3, f"-T:{secs}", f"-t:{timeout_ms}", path], capture_output=True, text=True, timeout=secs + 10)
        dt = time.time() - t0
        lines = out.stdout.strip().splitlines()
        first = lines[0].strip() if lines else ""
        if first == "unsat":
            return ("unsat", dt, None)
        if first == "sat":
            model = {}
            for m in re.finditer(r"\(define-fun\s+(\S+)\s+\(\)\s+(?:\([^()]*\)|\S+)\s+([^\n]*?)\)\s*$", out.stdout, re.M):
                model[m.group(1).strip("|")] = m.group(2).strip()
            if not model:
                for m in re.finditer(r"\(define-fun\s+(\S+)\s+\(\)\s+\S+\s*\n\s*(.*?)\)\s*$", out.stdout, re.M):
                    model[m.group(1).strip("|")] = m.group(2).strip()
            return ("sat", dt, model)
        return ("unknown", dt, (out.stdout + out.stderr)[:200])
    except subprocess.TimeoutExpired:
        return ("unknown", time.time() - t0, "z3 hard timeout")
    finally:
        try:
            os.unlink(path)
        except OSError:
            pass


def _cvc5_solve(smt2, timeout_ms, want_model):
    # z3's printer output -> cvc5 input: add logic, produce models
    text = smt2
    head = "(set-logic ALL)\n"
    if want_model:
        head = "(set-option :produce-models true)\n" + head
    text = head + text
    if want_model:
        text += "\n(get-model)\n"
    with tempfile.NamedTemporaryFile("w", suffix=".smt2", delete=False, dir=os.environ.get("PYVC_TMP")) as fh:
        fh.write(text)
        path = fh.name
    t0 = time.time()
    try:
        out = subprocess.run(
            [CVC5, "--strings-exp", f"--tlimit={timeout_ms}", path],
            capture_output=True,
            text=True,
            timeout=timeout_ms / 1000 + 5,
        )
        res = out.stdout.strip().splitlines()
        first = res[0].strip() if res else ""
        dt = time.time() - t0
        if first == "unsat":
            return ("unsat", dt, None)
        if first == "sat":
            model = {}
            for m in re.finditer(r"\(define-fun\s+(\S+)\s+\(\)\s+\S+\s+(.*)\)\s*$", out.stdout, re.M):
                model[m.group(1).strip("|")] = m.group(2).strip()
            return ("sat", dt, model)
        return ("unknown", dt, (out.stderr or out.stdout)[:200])
    except subprocess.TimeoutExpired:
        return ("unknown", time.time() - t0, "cvc5 timeout")
    finally:
        try:
            os.unlink(path)
        except OSError:
            pass


def solve_one(job):
    """job = (name, smt2, timeout_ms).  returns dict"""
    name, smt2, timeout_ms = job[:3]
    prefer = job[3] if len(job) > 3 else None
    keep = os.environ.get("PYVC_KEEP_SMT")
    if keep:  # debugging aid: keep every query under a readable name
        os.makedirs(keep, exist_ok=True)
        with open(os.path.join(keep, re.sub(r"[^A-Za-z0-9_.#=-]+", "_", name)[-150:] + ".smt2"), "w") as fh:
            fh.write(smt2)
    if "/canary#" in name:
        # vacuity canary: only 'unsat' matters (contract vacuous); one short attempt, no portfolio
        verdict, info, model = _z3_solve(smt2, 2000, False)
        return {"name": name, "verdict": verdict if verdict in ("sat", "unsat") else "unknown", "backend": "z3", "s": round(info if isinstance(info, float) else 0.0, 4), "attempts": []}
    stringy = bool(_STRING_HINT.search(smt2))
    # strings: a short z3 attempt first (instant on most), then cvc5 (decides the word equations z3
    # leaves open), then z3 with the full budget
    order = [("z3", min(2500, timeout_ms)), ("cvc5", timeout_ms), ("z3", timeout_ms)] if stringy else [("z3", timeout_ms), ("cvc5", timeout_ms)]
    if prefer == "cvc5":
        order = [("cvc5", timeout_ms), ("z3", timeout_ms)]
    attempts = []
    total = 0.0
    for backend, budget in order:
        fn = _z3_solve if backend == "z3" else _cvc5_solve
        try:
            verdict, info, model = fn(smt2, budget, True)
        except Exception as err:  # solver crash is never a verdict
            verdict, info, model = "error", f"{type(err).__name__}: {err}", None
        dt = info if isinstance(info, float) else 0.0
        total += dt
        attempts.append({"backend": backend, "verdict": verdict, "s": round(dt, 4), "info": None if isinstance(info, float) else str(info)[:200]})
        if verdict == "unsat":
            return {"name": name, "verdict": "unsat", "backend": backend, "s": round(total, 4), "attempts": attempts}
        if verdict == "sat":
            # a refutation must be confirmed as a model, not only claimed: keep the model
            return {"name": name, "verdict": "sat", "backend": backend, "s": round(total, 4), "model": model, "attempts": attempts}
    return {"name": name, "verdict": "unknown", "backend": None, "s": round(total, 4), "attempts": attempts}


def solve_all(jobs, workers=None):
    workers = workers or min(16, os.cpu_count() or 4)
    if not jobs:
        return []
    if len(jobs) <= 2 or workers == 1:
        return [solve_one(j) for j in jobs]
    with ProcessPoolExecutor(max_workers=workers) as pool:
        return list(pool.map(solve_one, jobs, chunksize=max(1, min(8, len(jobs) // (workers * 8)))))
