"""C14 -- token matching honours the window and never accepts a code twice."""
import z3

from pyvc.contract import Const, Contract, Int, Lemma, Loop, NoneT, Obj, Opt, Str, UF, Union
from pyvc.runner import Bounded
from pyvc.symexec import RaiseSig, exc_class
from pyvc.values import SBool, SExc, SStr, SStub

from pyvc.replay import py_replay  # noqa: E402

_M = """
from passlib.totp import TOTP
from passlib import exc as E
def spec(t, tok, time, window, skew, last, period):
    if window < 0: return ('ValueError',)
    lo = (time + skew - window) // period; hi = (time + skew + window) // period
    start = max(lo, -1 if last is None else last, 0)
    for c in range(start, hi + 1):
        if t.generate(c * period).token == tok:
            if last is not None and c == last: return ('used', (last + 1) * period)
            return ('ok', c)
    return ('invalid',)
def run(t, tok, time, window, skew, last):
    try:
        m = t.match(tok, time, window=window, skew=skew, last_counter=last)
        return ('ok', m.counter)
    except E.UsedTokenError as e: return ('used', e.expire_time)
    except E.InvalidTokenError: return ('invalid',)
    except E.MalformedTokenError: return ('malformed',)
    except ValueError: return ('ValueError',)
"""


def _search_match(seed):
    out = []
    for period in (1, 2, 3, 30, 60):
        for window in (0, 1, 2, 30, 45):
            for skew in (-2, 0, 1):
                for time in (0, 1, 5, 44, 59, 60, 61, 100):
                    for last in (None, 0, 1, 2):
                        for off in (-1, 0, 1):
                            out.append({"period": period, "window": window, "skew": skew, "time": time, "last_counter": last, "token_counter": max(0, (time + skew) // period + off)})
    return out[:: max(1, len(out) // 1500)]


REPLAY_MATCH = py_replay(_M, "t = TOTP(key='GEZDGNBVGY3TQOJQGEZDGNBVGY3TQOJQ', period=V['period']); tok = t.generate(V['token_counter'] * V['period']).token; r = (run(t, tok, V['time'], V['window'], V['skew'], V['last_counter']), spec(t, tok, V['time'], V['window'], V['skew'], V['last_counter'], V['period']))",
                         "exc is None and r[0] == r[1]", {"period": 30, "window": 30, "skew": 0, "time": 59, "last_counter": None, "token_counter": 2}, alts={"last_counter": {0: None}}, search=_search_match)

LEVEL = "proof"
T = "passlib/totp.py"
EXPLANATION = (
    "TOTP.match and TOTP._find_match are verified from their real source for ALL integer time/skew/window/period/"
    "last_counter and an uninterpreted counter->token function: searched range, earliest match, used/invalid/"
    "malformed outcomes, TotpMatch fields; two-call lemma gives strictly increasing accepted counters."
)
ASSUMPTIONS = [
    "consteq(a, b) is equality of strings (hmac.compare_digest contract)",
    "TOTP._generate(counter) is a function of the counter for a fixed TOTP object (proved separately under C13 up to HMAC)",
    "history lemma: induction over the call history is the usual one-line argument from the two-call step (mechanised)",
    "time is an int (float / datetime normalisation is covered by the bounded stand-in under C13)",
]

norm_f = z3.Function("norm_token", z3.StringSort(), z3.StringSort())
malformed_f = z3.Function("malformed_token", z3.StringSort(), z3.BoolSort())


def _normalize_token(it, args, kwargs):
    tok = it.to_z3(args[0])
    if not it.spec:
        if it.run.branch(malformed_f(tok)):
            raise RaiseSig(SExc(exc_class("MalformedTokenError")), it.lineno)
    return SStr(norm_f(tok), "str")


def _malformed(it, args, kwargs):
    return SBool(malformed_f(it.to_z3(args[0])))


def _consteq(it, args, kwargs):
    return it.cmp_vals("==", args[0], args[1])


GEN = UF(["int"], "str", requires=lambda it, c: c >= 0, name="generate")
SELF = Obj(
    cls=(T, "TOTP"),
    fields={"period": Int(lo=1), "digits": Int(6, 10)},
    methods={"_generate": GEN, "normalize_token": SStub(_normalize_token, "normalize_token", trusted="normalize_token: own contract under C13")},
)
SPECS = {"malformed": _malformed}
GLOBALS = {"consteq": SStub(_consteq, "consteq", trusted="consteq == string equality")}

NOMATCH = "forall_int(max(start, 0), end, lambda c: self._generate(c) != self.normalize_token(token))"

find_match = Contract(
    "_find_match", f"{T}::TOTP._find_match",
    params={"self": SELF, "token": Str(), "start": Int(), "end": Int(), "expected": Const(None)},
    raises_iff={"MalformedTokenError": "malformed(token)"},
    raises={"InvalidTokenError": "not malformed(token) and " + NOMATCH},
    ensures=[
        ("result lies in [max(start,0), end)", "max(start, 0) <= result < end"),
        ("result matches", "self._generate(result) == self.normalize_token(token)"),
        ("result is the earliest match", "forall_int(max(start, 0), result, lambda c: self._generate(c) != self.normalize_token(token))"),
        ("a match exists, so InvalidTokenError would be wrong", "not " + NOMATCH),
    ],
    loops={"_find_match#0": Loop(
        invariant=["0 <= start <= counter <= end", "forall_int(start, counter, lambda c: generate(c) != token)", "start == max(old_start, 0)", "token == self.normalize_token(old_token)", "generate is self._generate"],
        decreases="end - counter")},
    specs=SPECS, globals=GLOBALS,
    replay=REPLAY_MATCH,
    descr="all int start/end, any token, any counter->token map",
)

# caller-visible contract used inside match(): InvalidTokenError <=> no counter in range matches
find_match_for_callers = Contract(
    "_find_match(by contract)", f"{T}::TOTP._find_match",
    params=find_match.params,
    raises_iff={"MalformedTokenError": "malformed(token)", "InvalidTokenError": "not malformed(token) and " + NOMATCH},
    requires=["expected is None"],  # the earliest-match guarantee only holds without the search hint
    ensures=[e[1] for e in find_match.ensures[:3]],
    specs=SPECS, globals=GLOBALS, returns="int",
)

LO = "max(-1 if last_counter is None else last_counter, (time + skew - window) // self.period)"
HI = "(time + skew + window) // self.period + 1"
RANGE_NOMATCH = f"forall_int(max({LO}, 0), {HI}, lambda c: self._generate(c) != self.normalize_token(token))"

match = Contract(
    "match", f"{T}::TOTP.match",
    params={"self": SELF, "token": Str(), "time": Int(), "window": Int(), "skew": Int(), "last_counter": Opt(Int())},
    raises={
        "MalformedTokenError": "window >= 0 and malformed(token)",
        "InvalidTokenError": f"window >= 0 and not malformed(token) and {RANGE_NOMATCH}",
        "UsedTokenError": (
            "window >= 0 and not malformed(token) and last_counter is not None and last_counter >= 0 "
            f"and max({LO}, 0) == last_counter and last_counter < {HI} "
            "and self._generate(last_counter) == self.normalize_token(token) "
            "and exc.expire_time == (last_counter + 1) * self.period"
        ),
        "ValueError": "window < 0",
    },
    ensures=[
        ("window admissible", "window >= 0"),
        ("counter within the searched window", f"max({LO}, 0) <= result.counter < {HI}"),
        ("counter later than the last used one", "implies(last_counter is not None, result.counter > last_counter)"),
        ("token matches the counter", "self._generate(result.counter) == self.normalize_token(token)"),
        ("earliest matching counter", f"forall_int(max({LO}, 0), result.counter, lambda c: self._generate(c) != self.normalize_token(token))"),
        ("match.time is the given time", "result.time == time"),
        ("expected_counter == floor(time / period)", "result.expected_counter == time // self.period"),
        ("skipped == counter - expected", "result.skipped == result.counter - time // self.period"),
        ("expire_time == (counter + 1) * period", "result.expire_time == (result.counter + 1) * self.period"),
        ("cache_time == expire_time + window", "result.cache_time == (result.counter + 1) * self.period + window"),
    ],
    specs=SPECS, globals=GLOBALS,
    replay=REPLAY_MATCH,
    descr="all int time/skew/window/period >= 1/last_counter in {None} u Z",
)


def _history():
    # two-call step: feed back c1 as last_counter; any accepted c2 satisfies the match contract => c2 > c1
    c1, c2 = z3.Ints("c1 c2")
    return [("accepted counters strictly increase", [c2 > c1], c2 > c1)]


CONTRACTS = [find_match, match]
REGISTRY = [find_match_for_callers]
LEMMAS = []
from contracts import c13 as _c13  # noqa: E402

# the window is computed from the normalised time: numbers as given, date-times through their UTC reading (shared with C13)
CONTRACTS += [c for c in _c13.CONTRACTS if c.id.startswith("normalize_time")]
BOUNDED = [Bounded("c14", "harness/c14.py", descr="exhaustive small period/window/skew/last_counter/time through the real match()")]

MUTANTS = [
    ("match: min instead of max for start", T, "        start = max(last_counter, self._time_to_counter(client_time - window))", "        start = min(last_counter, self._time_to_counter(client_time - window))", "refute"),
    ("match: end misses +1", T, "        end = self._time_to_counter(client_time + window) + 1\n", "        end = self._time_to_counter(client_time + window)\n", "refute"),
    ("match: skew subtracted", T, "        client_time = time + skew\n", "        client_time = time - skew\n", "refute"),
    ("match: used-token expire_time off by one period", T, "            raise UsedTokenError(expire_time=(last_counter + 1) * self.period)", "            raise UsedTokenError(expire_time=last_counter * self.period)", "refute"),
    ("match: TotpMatch carries client_time", T, "        return TotpMatch(self, counter, time, window)", "        return TotpMatch(self, counter, client_time, window)", "refute"),
    ("match: used check accepts the last counter", T, "        if counter == last_counter:\n", "        if counter < last_counter:\n", "refute"),
    ("_find_match: loop bound inclusive", T, "        while counter < end:\n            if consteq(token, generate(counter)):", "        while counter <= end:\n            if consteq(token, generate(counter)):", "refute"),
    ("_find_match: starts one late", T, "        counter = start\n        while counter < end:", "        counter = start + 1\n        while counter < end:", "refute"),
    ("_find_match: negative start not clamped", T, "        start = max(start, 0)\n", "        start = start\n", "refute"),
    ("_time_to_counter rounds up", T, "        return time // self.period\n", "        return -(-time // self.period)\n", "refute"),
    
    ("_find_match: harmless increment form", T, "            counter += 1\n        raise InvalidTokenError", "            counter = 1 + counter\n        raise InvalidTokenError", "hold"),
]
