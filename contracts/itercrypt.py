"""Iterated-digest formats as published, with the digest abstract:

phpass (Solar Designer's portable hash):  h = MD5(salt || pw);  repeat 2^rounds times: h = MD5(h || pw);  checksum = encode64(h)
sha1_crypt (NetBSD crypt-sha1):           h = salt || "$sha1$" || rounds;  repeat rounds times: h = HMAC-SHA1(key = pw, h);  checksum = transposed encode64(h)
"""
import z3

from contracts.shacrypt import D as DSIZE, ENC, Hf, hash_ctor, table_id
from pyvc.contract import Bytes, Contract, Int, Loop, Obj, Str
from pyvc.values import SObj, SStr, SStub

S = z3.StringSort()
ITP = z3.Function("phpass_iter", S, S, z3.IntSort(), S)  # (h0, pw, n)
HM = z3.Function("HMAC", S, S, S)  # (key, msg)
ITH = z3.Function("hmac_iter", S, S, z3.IntSort(), S)  # (key, h0, n)
ENC64 = z3.Function("h64_encode_bytes", S, S)


def _itp(it, h0, pw, n):
    r = ITP(h0, pw, n)
    it.run.assume(r == z3.If(n <= 0, h0, Hf(z3.Concat(ITP(h0, pw, n - 1), pw))))
    return r


def _ith(it, key, h0, n):
    r = ITH(key, h0, n)
    it.run.assume(r == z3.If(n <= 0, h0, HM(key, ITH(key, h0, n - 1))))
    return r


def phpass_contract(prop):
    P = "passlib/handlers/phpass.py"

    def setup(it, args):
        it.run.assume(DSIZE == 16)
        return None

    def enc(it, a, k):
        r = SStr(ENC64(it.to_z3(a[0])), "bytes")
        it.run.assume(it.all_codes_below(r.e, 128))
        return r

    return Contract(
        "phpass._calc_checksum", f"{P}::phpass._calc_checksum",
        params={"self": Obj(fields={"rounds": Int(0, 30), "salt": Str()}), "secret": Bytes()},
        setup=setup,
        globals={"md5": hash_ctor(None), "h64": SObj("h64", fields={"encode_bytes": SStub(enc, "h64.encode_bytes", trusted="C12: the engine's encoder, uninterpreted here")})},
        specs={"iterate": lambda it, a, k: SStr(_itp(it, it.to_z3(a[0]), it.to_z3(a[1]), it.to_z3(a[2], "int")), "bytes"),
               "H": lambda it, a, k: SStr(Hf(it.to_z3(a[0])), "bytes"), "enc64": lambda it, a, k: SStr(ENC64(it.to_z3(a[0])), "bytes")},
        requires=[lambda it, env: it.all_codes_below(it.to_z3(env.lookup("self").fields["salt"]), 128)],
        loops={"_calc_checksum#0": Loop(invariant=["0 <= r", "r <= real_rounds", "real_rounds == 1 << self.rounds", "result == iterate(H(self.salt.encode('ascii') + secret), secret, r)"],
                                        modifies=["r", "result"], decreases="real_rounds - r")},
        ensures=[("checksum == encode64 of MD5 iterated 2^rounds times over (h || password), starting from MD5(salt || password)",
                  "result.encode('ascii') == enc64(iterate(H(self.salt.encode('ascii') + secret), secret, 1 << self.rounds))")],
        prop=prop, descr="every password, salt, every cost 0..30; MD5 abstract", replay=_phpass_replay(),
    )


def sha1_crypt_contract(prop):
    P = "passlib/handlers/sha1_crypt.py"
    from pyvc import extract
    offs = tuple(extract.class_constant(P, "sha1_crypt", "_chk_offsets")) if hasattr(extract, "class_constant") else None

    def mk_hmac(it, a, k):
        key = it.to_z3(a[1])
        it.run.ghost["hmac_key"] = key
        return SStub(lambda i, aa, kk: SStr(HM(key, i.to_z3(aa[0])), "bytes"), "keyed_hmac")

    def enc(it, a, k):
        table = it.static_items_req(it.resolve(a[1]))
        it.run.ghost["table"] = tuple(table)
        r = SStr(ENC(it.to_z3(a[0]), z3.IntVal(table_id(tuple(table)))), "bytes")
        it.run.assume(it.all_codes_below(r.e, 128))
        return r

    def post(it, env):
        self = it.resolve(env.lookup("self"))
        secret = it.to_z3(env.lookup("secret"))
        rounds = it.to_z3(self.fields["rounds"], "int")
        seed = z3.Concat(it.to_z3(self.fields["salt"]), z3.StringVal("$sha1$"), z3.IntToStr(rounds))
        want = ENC(_ith(it, secret, seed, rounds), z3.IntVal(table_id(it.run.ghost["table"])))
        return z3.And(it.to_z3(env.lookup("result")) == want, it.run.ghost["hmac_key"] == secret)

    return Contract(
        "sha1_crypt._calc_checksum_builtin", f"{P}::sha1_crypt._calc_checksum_builtin",
        params={"self": Obj(cls=(P, "sha1_crypt"), fields={"rounds": Int(1, 4294967295), "salt": Str()}), "secret": Bytes()},
        globals={"compile_hmac": SStub(mk_hmac, "compile_hmac", trusted="C11: compile_hmac(digest, key) == HMAC(key, .) (own contract)"),
                 "h64": SObj("h64", fields={"encode_transposed_bytes": SStub(enc, "encode_transposed_bytes", trusted="C12")})},
        specs={"hiter": lambda it, a, k: SStr(_ith(it, it.to_z3(a[0]), it.to_z3(a[1]), it.to_z3(a[2], "int")), "bytes")},
        requires=["b'\\x00' not in secret", lambda it, env: it.all_codes_below(it.to_z3(env.lookup("self").fields["salt"]), 128)],
        loops={"_calc_checksum_builtin#0": Loop(invariant=["0 <= __i0__", "result == hiter(secret, (self.salt + '$sha1$' + str(rounds)).encode('ascii'), __i0__)"], modifies=["result", "_"])},
        ensures=[("checksum == transposed encoding of HMAC(password, .) iterated `rounds` times over salt || '$sha1$' || rounds", post)],
        prop=prop, descr="every password without NUL, every ASCII salt, every rounds >= 1; HMAC abstract (proved under C11)", replay=_sha1_replay(),
    )


# ---- replay hooks: the postconditions as executable specifications (hashlib / hmac as the abstract hash) ----
def _iter_search(values):
    out = []
    for secret in ("", "a", "password", "x" * 64, "éÿ"):
        for rounds in (1, 2, 3, 7, 8):
            out.append(dict(values, secret=secret, rounds=rounds))
    return out


def _phpass_replay():
    from pyvc.replay import py_replay
    ref = """
import hashlib
from passlib.handlers.phpass import phpass
from passlib.utils.binary import h64
def ref(secret, salt, rounds):
    d = hashlib.md5(salt.encode('ascii') + secret).digest()
    for _ in range(1 << rounds):
        d = hashlib.md5(d + secret).digest()
    return h64.encode_bytes(d).decode('ascii')
"""
    return py_replay(ref, "s = V['secret'].encode('latin-1'); r = (phpass(salt='saltsalt', rounds=V['rounds'] + 6, use_defaults=True)._calc_checksum(s), ref(s, 'saltsalt', V['rounds'] + 6))",
                     "exc is None and r[0] == r[1]", {"secret": "password", "rounds": 1}, search=_iter_search)


def _sha1_replay():
    from pyvc.replay import py_replay
    ref = """
import hashlib, hmac
from passlib.handlers.sha1_crypt import sha1_crypt
from passlib.utils.binary import h64
def ref(secret, salt, rounds):
    d = (salt + '$sha1$' + str(rounds)).encode('ascii')
    for _ in range(rounds):
        d = hmac.new(secret, d, hashlib.sha1).digest()
    return h64.encode_transposed_bytes(d, sha1_crypt._chk_offsets).decode('ascii')
"""
    return py_replay(ref, "s = V['secret'].encode('latin-1'); r = (sha1_crypt(salt='saltsalt', rounds=V['rounds'], use_defaults=True)._calc_checksum_builtin(s), ref(s, 'saltsalt', V['rounds']))",
                     "exc is None and r[0] == r[1]", {"secret": "password", "rounds": 1}, search=_iter_search)
