NOTES = ("Contract-based deductive verification of the real code (see DESIGN.md, section A for what is discharged and what is bounded). "
         "pyvc re-reads the functions from /repo on every run, generates verification conditions from their AST against sidecar contracts and discharges them with z3 / cvc5. "
         "Exit codes: 0 held, 1 violation (+VIOLATION line), 3 checker error (never with a VIOLATION line).")
NOT_APPLICABLE = {
    "C19": "quantifies over thread schedules; function-modular contracts over sequential semantics cannot express or decide interleavings, and no installed deductive tool for Python adds them (DESIGN.md section 6, C19)",
}
B = " Bounded stand-ins are reported under coverage.bounded and never counted as proved."
T = "trusted: pyvc VC generator (Python-subset semantics, DESIGN 2.2/A.3), z3 5.1 / cvc5 1.0.3 answers, models of built-ins and externals in pyvc/pybuiltins.py and contracts/trusted.py; "


def e(category, technique, text, note):
    return dict(category=category, technique=technique, text=text + B, note=T + note)


CHECKS = {
    "C01": e("proof", "contracts on GenericHandler.hash/verify over an abstract handler + round-trip lemma, PrefixWrapper wrap/unwrap inverse, libpass own-format rendering, discharged by z3/cvc5; bounded grid over all hashers",
             "hash(secret) == render(settings, calc(settings, secret)) and verify(secret, h) == (calc(parse_settings(h), secret) == parse_checksum(h)) are proved from the real bodies, so verify(s, hash(s)) is True and a different password verifies only on a digest collision, given the per-format obligations H1 (parse o render: C07) and H2 (deterministic checksum); wrapped hashers inherit it through the proved wrap/unwrap inverse. Every registered hasher is additionally swept (>= 20 near misses per case).",
             "H1/H2 handler obligations, consteq == equality, collision resistance; documented equivalences tabulated from the format documentation"),
    "C02": e("other", "bounded comparison with independent reference implementations / crypt(3) / Django / bcrypt / hashlib.scrypt; thorough tier adds the discharged SHA-crypt schedule proof (ghost lock-step vs Drepper's recurrence, cvc5/z3)",
             "Foreign code cannot be put under contract, so the property is decided by comparing ~85 formats in both directions with independent implementations on the statement's grid. In the thorough tier passlib's _raw_sha2_crypt (both variants) and libpass' _sha_crypt are proved, hash abstract, to compute the published SHA-crypt algorithm for every password, salt and round count.",
             "references in /verif/specs self-tested against RFC vectors and crypt(3); hashlib, legacycrypt, Django, bcrypt as oracles; abstract hash object contract"),
    "C03": e("other", "bounded: every ordered pair of loadable backends, switching sequences, independent oracles; proved core: BackendMixin.set_backend/has_backend state contract and bcrypt builtin loader typestate (z3)",
             "Agreement with libcrypt / OpenSSL / bcrypt-C is foreign code: decided by the bounded pairwise comparison. Proved from the real source: a successful non-dry set_backend installs the requested backend, has_backend never changes it, pending markers are restored on every exit path, unavailable backends raise MissingBackendError; bcrypt's pure-python loader binds the routine its checksum code calls.",
             "host probes (crypt(3) vectors), loaders return True/False or raise the documented errors, sequential execution"),
    "C04": e("other", "contracts on rounds-policy arithmetic, verify_and_update, identify_record, libpass CryptContext discharged by z3 (pyvc) + generated configurations vs a policy oracle",
             "Clipping, variation range, fresh-cost-never-stale, needs_update arithmetic, verify_and_update's outcome shape, first-claimant identification (<= 3 schemes) and the libpass context are proved for all integers / None combinations; the only refuted obligations are the 'inside the recorded witness class' halves of two known findings (bsdi_crypt odd rounds above an even maximum, duplicate libpass scheme), hence evidence level 'other'. Option inheritance across categories is compared with a policy oracle on ~3000 generated configurations.",
             "rng.randint range contract; float vary_rounds bounded only"),
    "C05": e("proof", "contracts on _check_truncate_policy, validate_secret, the truncating _calc_checksum bodies and bcrypt's _norm_digest_args discharged by z3/cvc5 (string theory) + boundary-length stand-in",
             "The truncation policy raises exactly when truncate_error is set and the BYTE length exceeds the limit, and every call site hands it the encoded password (text counted in bytes); validate_secret refuses more than 4096; bcrypt checks size, truncation policy and NUL in that order and the backend sees the first 72 bytes. Dependence on every byte and NUL refusal of the raw crypt routines are swept on the real hashers.",
             "utf-8 as an injective uninterpreted function with length bounds; MAX_PASSWORD_SIZE == 4096"),
    "C06": e("proof", "contracts + loop invariants on getrandbytes/getrandstr discharged by z3/cvc5 (pyvc); bijection lemma; _norm_scheme_option refuses salt; exhaustive small-domain stand-in",
             "getrandbytes/getrandstr are proved, for every count and every value of the single rng draw, to return exactly the base-256/base-L digits of that draw; the digit step map is proved bijective, so a uniform draw yields a uniform output of the declared size and alphabet; a CryptContext option named salt is refused whatever its type. Salt generators of all hashers, TOTP.new and pwd entropy are swept.",
             "rng range contracts; induction over n of the digits bijection argued from the mechanised step; float entropy arithmetic bounded only"),
    "C07": e("proof", "contracts on parse_mc2/parse_mc3/render_mc2/render_mc3 + round-trip lemma and libpass PHC definition choice discharged by cvc5/z3 (strings); parse/render stand-in over all hashers",
             "The modular-crypt helpers are proved to be inverse on '$'-free fields (unique decomposition by the solver, zero-padded rounds refused, decimal conversion round trip); libpass' PHC parser selects a definition only on an exact version match. Regex-based formats, config strings and libpass inspect records are swept.",
             "int.to.str semantics of the solvers; regex-based parsers bounded only"),
    "C08": e("proof", "exception-frame contracts on from_string/identify/needs_update of every concrete handler class (arbitrary str / ASCII bytes input) discharged by z3/cvc5 + ~100k mutated hashes stand-in",
             "For 53 parser bodies (262 contracts) every path that leaves the function raises only ValueError/TypeError subclasses (identify returns a bool): no IndexError, KeyError, AttributeError, AssertionError; sha-crypt's parser repairs out-of-range salt/rounds only for config strings. 'An altered digest never verifies' is swept with single-edit mutants of valid hashes.",
             "regex engine and codec models over-approximate; constructors raise only ValueError/TypeError; 8 contracts (htdigest, scram, sun_md5_crypt) undecided and covered by the stand-in only"),
    "C09": e("other", "contracts on norm_integer, HasRounds.using (frame: writes only to the fresh subclass), HasSalt._norm_salt, TruncateMixin.using discharged by z3/cvc5 + option grids on all hashers",
             "Strict refusal / relaxed clamping, alias exclusivity, hard limits, the policy invariant of the derived class and the frame (parent never written) are proved for all None/int/string combinations; the refuted obligations are the 'inside the recorded witness class' half of the chained-using known finding, hence evidence level 'other'. Remaining using() overrides are exercised on 74 hashers.",
             "MinimalHandler.using returns a fresh subclass; int(str) model"),
    "C10": e("proof", "exception-atomicity contract on CryptContext.load (every fallible step may raise) + _norm_scheme_option, discharged by z3; export/import stand-in",
             "Every exceptional exit of load() is proved to occur before the first write to the context, a successful load installs the new config and resets the dummy-verify cache exactly once, an empty update returns before any write. Export/import equality and 35 kinds of failed change are swept on generated configurations.",
             "_CryptConfig(source) writes only fresh objects (frame of using(): C09)"),
    "C11": e("proof", "ghost lock-step contracts on MD4 compression and Salsa20/8 (64-bit vectors with no-overflow obligations), md4 padding, HMAC == RFC 2104 over an abstract hash, DES key conversion, scrypt.validate, discharged by z3; references stand-in",
             "MD4's compression function, Salsa20/8, MD4 padding, compile_hmac, the 7<->8 byte DES key conversion and scrypt parameter validation are proved against RFC 1320 / 7914 / 2104 for all inputs. The table-driven DES rounds, bcrypt core, ROMix, PBKDF1/2 and SASLprep are compared with independent references on stated bounds.",
             "struct models; abstract hash object; RFC transcriptions in /verif/specs"),
    "C12": e("proof", "contracts on the chunk codecs (per shape, all byte values) and integer codecs + round-trip lemmas discharged by z3; exhaustive 1-/2-byte stand-in",
             "Every chunk encoder/decoder of Base64Engine (and libpass' copies) is proved equal to the 24-bit group definition on every shape chunks <= 2 x tail; integer codecs (12/24/30/64 bit, both bit orders) for all integers incl. refusals; decode . encode = id as lemmas. Real engines are run on every 1-/2-byte group and against stdlib base64.",
             "stream-map meta-rule for more than two chunks; abstract charmap with dec(enc(i)) = i; stdlib wrappers bounded only"),
    "C13": e("proof", "contracts on TOTP._generate / generate / normalize_token discharged by z3/cvc5; RFC reference stand-in",
             "TOTP._generate is proved to return RFC 4226's dynamic truncation modulo 10^digits, zero padded to exactly `digits` characters, for every counter, every 20..64 byte digest and digits 6..10; generate() uses floor(time/period) and reports the validity interval. HMAC itself is proved under C11; key text forms and date-times are swept.",
             "decimal-rendering meta-rule; struct model"),
    "C14": e("proof", "contracts on TOTP.match/_find_match with loop invariant (earliest match) over an uninterpreted counter->token map, discharged by z3; exhaustive small-domain stand-in",
             "For all integer time/skew/window/period/last_counter and any token function, match() searches exactly the stated range, returns the earliest matching counter later than the last used one, raises Used/Invalid/Malformed exactly in the stated cases and fills TotpMatch correctly; accepted counters strictly increase when fed back.",
             "quantifier instantiation by z3 for the 'no earlier match' invariant; consteq == equality"),
    "C15": e("other", "field-preservation contracts on to_dict/_to_uri_params with symbolic class defaults, _adapt_dict_kwds, discharged by z3/cvc5 + round-trip stand-in",
             "Outside the recorded witness class every field is proved to survive serialisation (value in the output, else the class default, equals the instance value); the obligations inside that class are refuted = the known class-default elision finding, hence evidence level 'other'. URI quoting of hostile labels and corrupted sources are swept.",
             "loading through the same class; urllib/json inverse pairs; wallet AES skipped (cryptography absent)"),
    "C16": e("proof", "ghost-view invariant contracts on _set_record / delete / set_hash (maps as arrays, _source as ghost multiset, skolem key) and _encode_field, discharged by z3/cvc5; operation-sequence stand-in",
             "Each current key has exactly one source entry and no key more than one, preserved by the record-changing operations for an arbitrary key; names with separators, control characters or more than 255 bytes are refused. _load_lines/_iter_lines loops and whole edit histories are explored up to a bound against an independent reader.",
             "_source abstracted by its multiset of record entries; _autosave only reads the state"),
    "C17": e("proof", "finite complete execution of the real _init_htpasswd_context / _init_default_schemes on all 2^7 x 2 hosts, scheme-list literals, registry locations, shared-cache immutability; context attribution stand-in",
             "The htpasswd context is computed by the real code for every possible crypt() support set: catch-all last, default listed, no duplicates; every shipped literal scheme list keeps catch-alls last; every registry name is defined where _locations points; the shared os_crypt scheme cache is an immutable tuple. Hashes of every scheme are attributed through all 34 contexts.",
             "catch-all set {plaintext, ldap_plaintext}; get_supported_os_crypt_schemes returns a sub-tuple of os_crypt_schemes"),
    "C18": e("proof", "contracts on unix_disabled / django_disabled and CryptContext verify/enable/disable/is_enabled/load discharged by cvc5/z3 string theory + lemma enable(disable(h)) == h",
             "For arbitrary strings: a disabled string is identified, never verifies, disabling twice stays disabled, enable returns exactly the embedded original and refuses a bare marker; CryptContext.verify(hash=None) is False after exactly one dummy verification and the dummy cache follows the configuration. Contexts x originals x sequences are swept.",
             "MAX_PASSWORD_SIZE == 4096; ASCII model of bytes hashes"),
    "C20": e("other", "bounded cross verification passlib <-> libpass; proved: libpass CryptContext contracts (quick) and, in the thorough tier, both SHA-crypt cores against one published schedule",
             "Six formats x passwords x salts x costs: each direction of verification, equal digests, independent oracle, identify exactly own format, needs_update. The libpass context is proved to hash with its first scheme, verify with any and ask for an update exactly for foreign formats (outside the duplicate-scheme known finding); the thorough tier proves both SHA-crypt implementations compute the same published algorithm.",
             "bcrypt, hashlib, base64 as oracles; abstract hash object contract"),
}
