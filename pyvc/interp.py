"""pyvc.interp -- the statement interpreter (one instance per path)."""

from __future__ import annotations

import ast

import z3

from . import extract
from .ops import OpsMixin
from .pybuiltins import BuiltinsMixin
from .symexec import (
    BreakSig,
    ClassRef,
    ContinueSig,
    Env,
    PathCut,
    RaiseSig,
    ReturnSig,
    exc_class,
)
from .values import (
    IntSeqSort,
    SAbsIter,
    SBool,
    SClosure,
    SDict,
    SExc,
    SExcClass,
    SInt,
    SList,
    SMap,
    SModule,
    SObj,
    SOpaque,
    SSeq,
    SSet,
    SStr,
    SStub,
    SType,
    SUnion,
    Unsupported,
)


class Collector:
    """accumulates the values a generator yields"""

    def __init__(self):
        self.items = []  # static mode
        self.seq = None  # symbolic mode: z3 Seq(Int) or String
        self.kind = None

    def add(self, it, v):
        if self.seq is None:
            self.items.append(v)
        else:
            self.seq = z3.Concat(self.seq, it.unit_of(v, self.kind))

    def to_symbolic(self, it, kind):
        if self.seq is not None:
            return
        self.kind = kind
        if kind == "str":
            acc = z3.StringVal("")
        else:
            acc = z3.Empty(IntSeqSort)
        for v in self.items:
            acc = z3.Concat(acc, it.unit_of(v, kind))
        self.seq = z3.simplify(acc)
        self.items = []


class Interp(OpsMixin, BuiltinsMixin):
    def __init__(self, run, contract, registry):
        self.run = run
        self.c = contract
        self.registry = registry
        self.bv = None
        if isinstance(contract.ints, str) and contract.ints.startswith("bv"):
            self.bv = int(contract.ints[2:])
        self.spec = False
        self.lineno = None
        self.collectors = []
        self.loop_counts = {}
        self.try_depth = 0
        self.inputs = {}
        self.func_stack = []
        self.info = None
        self.first_self_write = None
        self.last_raising_op = None
        self.call_depth = 0

    # -- inputs -------------------------------------------------------------------------------
    def int_sort(self):
        return z3.IntSort() if self.bv is None else z3.BitVecSort(self.bv)

    def sym_int(self, name):
        e = z3.Int(name) if self.bv is None else z3.BitVec(name, self.bv)
        v = SInt(e)
        self.note_input(name, v)
        return v

    def note_input(self, name, v):
        self.inputs[name] = v

    # -- contract driver ----------------------------------------------------------------------
    def run_contract(self):
        c = self.c
        info = extract.find(c.target)
        self.info = info
        fn = info.node
        genv = Env(None, {})
        self.genv = genv
        for k, v in c.globals.items():
            genv.vars[k] = v.make(self, k) if hasattr(v, "make") else v
        env = Env(genv, {})
        # parameters
        args = {}
        for name, t in c.params.items():
            args[name] = t.make(self, name) if hasattr(t, "make") else t
        if c.setup is not None:
            extra = c.setup(self, args)
            if extra:
                args.update(extra)
        self.args = args
        self.bind_params(fn, env, args)
        self.spec_env = Env(env, {})  # spec expressions see the entry values
        self.entry = dict(args)
        # requires
        for r in c.requires:
            self.run.assume(self.spec_bool(r, self.entry_env()))
        # vacuity cover: requires satisfiable (checked once, on the first path)
        if not self.run.prefix and not self.run.feasible():
            raise Unsupported("vacuous: requires unsatisfiable")
        first = None
        owner = None
        pos = fn.args.posonlyargs + fn.args.args
        if "." in info.qualname and pos and "staticmethod" not in info.decorators:
            first = env.vars.get(pos[0].arg)
            try:
                owner = ClassRef.get(info.relpath, info.qualname.split(".")[-2])
            except extract.ExtractError:
                owner = None
        self.func_stack.append((info.qualname.split(".")[-1], info, first, owner))
        self.fn_nodes = [fn]
        outcome = None
        from .ops import _has_yield

        top_gen = _has_yield(fn)
        if top_gen:
            self.collectors.append(Collector())
        try:
            self.exec_body(extract.strip_docstring(fn.body), env)
            outcome = ("return", None)
        except ReturnSig as r:
            outcome = ("return", r.value)
        except RaiseSig as r:
            outcome = ("raise", r)
        if top_gen and outcome[0] == "return":
            col = self.collectors.pop()
            if col.seq is not None:
                outcome = ("return", SStr(col.seq, "str") if col.kind == "str" else SSeq(col.seq, "gen"))
            else:
                outcome = ("return", SList(col.items))
        self.check_exit(outcome, env)

    def entry_env(self, result=None, exc=None):
        e = Env(self.genv, dict(self.entry))
        if result is not None or True:
            e.vars["result"] = result
        e.vars["__calls__"] = self.run.calls
        return e

    def bind_params(self, fn, env, args):
        a = fn.args
        names = [x.arg for x in a.posonlyargs + a.args + a.kwonlyargs]
        defaults = {}
        pos = a.posonlyargs + a.args
        for p, d in zip(pos[len(pos) - len(a.defaults) :], a.defaults):
            defaults[p.arg] = d
        for p, d in zip(a.kwonlyargs, a.kw_defaults):
            if d is not None:
                defaults[p.arg] = d
        for n in names:
            if n in args:
                env.vars[n] = args[n]
            elif n in defaults:
                env.vars[n] = self.eval(defaults[n], env)
            else:
                raise Unsupported(f"parameter {n} has no value in the contract")
        if a.vararg:
            env.vars[a.vararg.arg] = args.get(a.vararg.arg, ())
        if a.kwarg:
            env.vars[a.kwarg.arg] = args.get(a.kwarg.arg, SDict({}))
        for n, v in args.items():
            if n not in env.vars:
                env.vars[n] = v  # ghost/extra names (visible to specs)

    def check_exit(self, outcome, env):
        c = self.c
        run = self.run
        if outcome[0] == "return":
            self.x_exit("return")
            res = outcome[1]
            senv = self.entry_env(result=res)
            senv.vars.update({"final_" + k: v for k, v in env.vars.items() if isinstance(k, str)})
            for k, spec in enumerate(c.ensures):
                name, expr = spec if isinstance(spec, tuple) else (f"ensures#{k}", spec)
                goal = self.spec_bool(expr, senv)
                run.oblige("postcondition", goal, name, self.lineno)
            if not c.ensures and not c.raises_iff and run.past_prefix:
                run.x.stats["obligations_generated"] += 1
                run.x.stats["trivial"] += 1
                run.x.record_trivial("exception-frame", "normal return (no exception escapes on this path)", self.lineno)
            for ename, cond in c.raises_iff.items():
                goal = z3.Not(self.spec_bool(cond, senv))
                run.oblige("postcondition", goal, f"returns-only-if-not({ename} condition)", self.lineno)
        else:
            sig = outcome[1]
            exc = sig.exc
            self.x_exit("raise", exc.cls.name)
            senv = self.entry_env()
            senv.vars["exc"] = exc
            allowed = None
            for ename, cond in list(c.raises_iff.items()) + list(c.raises.items()):
                if exc.cls.issub(ename):
                    allowed = (ename, cond)
                    break
            if allowed is None:
                run.oblige(
                    "exception-frame",
                    z3.BoolVal(False),
                    f"{exc.cls.name} escapes (line {sig.lineno}); allowed: {sorted(list(c.raises) + list(c.raises_iff)) or 'none'}",
                    sig.lineno,
                    hard=True,
                )
            else:
                ename, cond = allowed
                if cond is not None and cond is not True:
                    run.oblige("exceptional-postcondition", self.spec_bool(cond, senv), f"{exc.cls.name} only when {cond}", sig.lineno)
                elif run.past_prefix:
                    run.x.stats["obligations_generated"] += 1
                    run.x.stats["trivial"] += 1
                    run.x.record_trivial("exceptional-postcondition", f"{exc.cls.name} is an allowed outcome here", sig.lineno)
            if c.atomic and self.first_self_write is not None:
                run.oblige(
                    "exception-atomicity",
                    z3.BoolVal(False),
                    f"{exc.cls.name} raised at line {sig.lineno} after a write to {self.first_self_write[0]} at line {self.first_self_write[1]}",
                    sig.lineno,
                    hard=True,
                )

    def x_exit(self, kind, name=None):
        ex = self.run.x.exits
        if kind == "return":
            ex["return"] += 1
        else:
            ex["raise"][name] = ex["raise"].get(name, 0) + 1

    # -- spec expressions ----------------------------------------------------------------------
    def spec_eval(self, expr, env):
        if callable(expr):
            return expr(self, env)
        node = ast.parse(expr, mode="eval").body
        old = self.spec
        self.spec = True
        try:
            return self.eval(node, env)
        finally:
            self.spec = old

    def spec_bool(self, expr, env):
        v = self.spec_eval(expr, env)
        return self.truth(v)

    # -- statements ---------------------------------------------------------------------------
    def exec_body(self, body, env):
        for st in body:
            self.exec_stmt(st, env)

    def exec_stmt(self, st, env):
        self.lineno = getattr(st, "lineno", self.lineno)
        m = getattr(self, "st_" + type(st).__name__, None)
        if m is None:
            raise Unsupported(f"statement {type(st).__name__} at line {self.lineno}")
        m(st, env)

    def st_Pass(self, st, env):
        pass

    def st_Expr(self, st, env):
        if isinstance(st.value, ast.Constant):
            return
        self.eval(st.value, env)

    def st_Global(self, st, env):
        env.globals_decl.update(st.names)

    def st_Nonlocal(self, st, env):
        env.nonlocal_decl.update(st.names)

    def st_Import(self, st, env):
        for a in st.names:
            env.set((a.asname or a.name).split(".")[0], self.import_module(a.name))

    def st_ImportFrom(self, st, env):
        mod = self.import_module(("." * st.level) + (st.module or ""))
        for a in st.names:
            env.set(a.asname or a.name, self.getattr_value(mod, a.name))

    def import_module(self, name):
        hook = self.c.globals.get("__import__")
        if hook is not None:
            return hook(self, name)
        raise Unsupported(f"import {name}")

    def st_Assign(self, st, env):
        v = self.eval(st.value, env)
        for t in st.targets:
            self.assign(t, v, env)

    def st_AnnAssign(self, st, env):
        if st.value is not None:
            self.assign(st.target, self.eval(st.value, env), env)

    def st_AugAssign(self, st, env):
        load = ast.copy_location(_as_load(st.target), st.target)
        cur = self.eval(load, env)
        v = self.binop(type(st.op).__name__, cur, self.eval(st.value, env))
        self.assign(st.target, v, env)

    def assign(self, target, v, env):
        if isinstance(target, ast.Name):
            lm = getattr(self.c, "local_models", None)
            if lm and target.id in lm and self.call_depth == 0 and isinstance(v, (SDict, SList)):
                # contract-level abstraction of a local container (a dict with symbolic keys as arrays, a list as a ghost
                # multiset): the model object replaces the literal; a factory taking two arguments receives the initial items
                f = lm[target.id]
                if f.__code__.co_argcount >= 2:
                    v = f(self, v)
                elif not v.items:
                    v = f(self)
            env.set(target.id, v)
        elif isinstance(target, (ast.Tuple, ast.List)):
            items = self.unpack(v, len(target.elts))
            for t, x in zip(target.elts, items):
                self.assign(t, x, env)
        elif isinstance(target, ast.Attribute):
            obj = self.eval(target.value, env)
            self.setattr_value(obj, target.attr, v)
        elif isinstance(target, ast.Subscript):
            obj = self.eval(target.value, env)
            idx = self.eval_index(target.slice, env)
            self.setitem(obj, idx, v)
        else:
            raise Unsupported(f"assignment target {type(target).__name__}")

    def st_Delete(self, st, env):
        for t in st.targets:
            if isinstance(t, ast.Subscript):
                obj = self.eval(t.value, env)
                self.delitem(obj, self.eval_index(t.slice, env))
            elif isinstance(t, ast.Attribute):
                obj = self.resolve(self.eval(t.value, env))
                if isinstance(obj, SObj) and t.attr in obj.fields:
                    self.note_write(obj, t.attr)
                    del obj.fields[t.attr]
                else:
                    raise Unsupported("del attribute")
            elif isinstance(t, ast.Name):
                env.vars.pop(t.id, None)
            else:
                raise Unsupported("del target")

    def st_Return(self, st, env):
        raise ReturnSig(self.eval(st.value, env) if st.value is not None else None)

    def st_If(self, st, env):
        if self.branch_on(st.test, env):
            self.exec_body(st.body, env)
        else:
            self.exec_body(st.orelse, env)

    def branch_on(self, test, env):
        return self.run.branch(self.truth(self.eval(test, env)))

    def st_Assert(self, st, env):
        ok = self.branch_on(st.test, env)
        if not ok:
            raise RaiseSig(SExc(exc_class("AssertionError")), st.lineno)

    def st_Raise(self, st, env):
        if st.exc is None:
            cur = getattr(self, "current_exc", None)
            if cur is None:
                raise Unsupported("bare raise outside handler")
            raise RaiseSig(cur, st.lineno)
        v = self.eval(st.exc, env)
        v = self.resolve(v)
        if isinstance(v, SExcClass):
            v = SExc(v)
        if not isinstance(v, SExc):
            raise Unsupported(f"raise of non-exception {v!r} at line {st.lineno}")
        raise RaiseSig(v, st.lineno)

    def st_Try(self, st, env):
        self.try_depth += 1
        try:
            try:
                self.exec_body(st.body, env)
            finally:
                self.try_depth -= 1
        except RaiseSig as sig:
            handled = False
            for h in st.handlers:
                if self.handler_matches(h, sig.exc, env):
                    handled = True
                    if h.name:
                        env.set(h.name, sig.exc)
                    prev = getattr(self, "current_exc", None)
                    self.current_exc = sig.exc
                    try:
                        try:
                            self.exec_body(h.body, env)
                        finally:
                            self.current_exc = prev
                    except (RaiseSig, ReturnSig, BreakSig, ContinueSig):
                        self.exec_body(st.finalbody, env)
                        raise
                    break
            if not handled:
                self.exec_body(st.finalbody, env)
                raise
            self.exec_body(st.finalbody, env)
            return
        except (ReturnSig, BreakSig, ContinueSig):
            self.exec_body(st.finalbody, env)
            raise
        try:
            self.exec_body(st.orelse, env)
        except (RaiseSig, ReturnSig, BreakSig, ContinueSig):
            self.exec_body(st.finalbody, env)
            raise
        self.exec_body(st.finalbody, env)

    def handler_matches(self, h, exc, env):
        if h.type is None:
            return True
        t = self.eval(h.type, env)
        ts = t if isinstance(t, tuple) else (t,)
        for one in ts:
            if isinstance(one, SExcClass):
                if exc.cls.issub(one.name):
                    return True
            else:
                raise Unsupported(f"except clause with {one!r}")
        return False

    def st_With(self, st, env):
        for item in st.items:
            ctxv = self.eval(item.context_expr, env)
            if item.optional_vars is not None:
                self.assign(item.optional_vars, ctxv, env)
        # sequential semantics: a lock / warnings context is a no-op
        self.exec_body(st.body, env)

    def st_FunctionDef(self, st, env):
        env.set(st.name, SClosure(st, env, name=st.name))

    def st_While(self, st, env):
        key = self.loop_key(st)
        spec = self.c.loops.get(key)
        if spec is None or spec.unroll:
            limit = (spec.unroll if spec else None) or 4096
            n = 0
            while True:
                if not self.branch_on(st.test, env):
                    self.exec_body(st.orelse, env)
                    return
                n += 1
                if n > limit:
                    raise Unsupported(f"loop {key}: no invariant and not bounded by constants")
                try:
                    self.exec_body(st.body, env)
                except BreakSig:
                    return
                except ContinueSig:
                    pass
                if spec is not None and callable(spec.ghost_step):
                    spec.ghost_step(self, env, n - 1)
        self.invariant_loop(st, env, spec, key, cond=lambda: self.truth(self.eval(st.test, env)))

    def loop_key(self, st=None):
        """'<function name>#<ordinal>': ordinal of the loop statement in SOURCE order within its innermost function
        (independent of the path taken)"""
        fname = self.func_stack[-1][0]
        fnode = self.fn_nodes[-1] if getattr(self, "fn_nodes", None) else None
        if st is not None and fnode is not None:
            cache = self.__dict__.setdefault("_loop_ord", {})
            if id(fnode) not in cache:
                order = {}

                def walk(node):
                    for child in ast.iter_child_nodes(node):
                        if isinstance(child, (ast.FunctionDef, ast.Lambda, ast.ClassDef)):
                            continue
                        if isinstance(child, (ast.While, ast.For)):
                            order[id(child)] = len(order)
                        walk(child)

                walk(fnode)
                cache[id(fnode)] = order
            k = cache[id(fnode)].get(id(st))
            if k is not None:
                return f"{fname}#{k}"
        k = self.loop_counts.get((fname, self.call_depth), 0)
        self.loop_counts[(fname, self.call_depth)] = k + 1
        return f"{fname}#{k}"

    def invariant_loop(self, st, env, spec, key, cond, pre_body=None):
        run = self.run
        has_yield = any(isinstance(n, (ast.Yield, ast.YieldFrom)) for b in st.body for n in ast.walk(b))
        if has_yield and self.collectors and self.collectors[-1].seq is None:
            kind = spec.ghost_step if spec.ghost_step in ("str", "intseq") else "intseq"
            self.collectors[-1].to_symbolic(self, kind)
        # (1) initiation
        for k, inv in enumerate(spec.invariant):
            run.oblige("loop-invariant-init", self.spec_bool(inv, self.loop_env(env)), f"{key} inv#{k} holds on entry: {inv}", st.lineno)
        if getattr(spec, "forget", False):
            for name, ea in spec.entry_asserts:
                run.oblige("intermediate-postcondition", self.spec_bool(ea, self.loop_env(env)), f"{key} on entry: {name}", st.lineno)
            for name in spec.cut_vars:
                if env.has(name):
                    self.set_existing(env, name, self.havoc_like(env.lookup(name), f"{key}.cut.{name}"))
            allowed = set(self.inputs.keys())
            kept = [a for a in run.pc if _consts_of(a) <= allowed]
            run.pc = list(kept)
            run.solver = z3.Solver()
            run.solver.set("timeout", getattr(self.c, "prune_timeout_ms", None) or run.x.prune_timeout_ms)
            for a in kept:
                run.solver.add(a)
            for k, inv in enumerate(spec.invariant):
                pass  # (init obligations were recorded above; the invariant is assumed below on the havoced state)
        # havoc what the body assigns
        mods = spec.modifies if spec.modifies is not None else sorted(_assigned_names(st.body))
        pre = {}
        for name in mods:
            if "." in name:
                # ghost heap location: field of a record held in a variable (e.g. the view of a hash object)
                oname, fld = name.split(".", 1)
                if env.has(oname):
                    o = self.resolve(env.lookup(oname))
                    if isinstance(o, SObj) and fld in o.fields:
                        o.fields[fld] = self.havoc_like(o.fields[fld], f"{key}.{name}")
                continue
            if not env.has(name):
                continue
            cur = env.lookup(name)
            pre[name] = cur
            rc = self.resolve(cur) if isinstance(cur, SUnion) else cur
            if isinstance(rc, SMap):
                # mutable map: havoc in place (aliases see the same object)
                rc.dom = z3.Const(self.run.fresh(f"{key}.{name}.dom"), rc.dom.sort())
                rc.arr = z3.Const(self.run.fresh(f"{key}.{name}.val"), rc.arr.sort())
                continue
            if isinstance(rc, SObj) and callable(rc.fields.get("__havoc__")):
                rc.fields["__havoc__"](self, f"{key}.{name}")
                continue
            self.set_existing(env, name, self.havoc_like(cur, f"{key}.{name}"))
        if has_yield and self.collectors:
            col = self.collectors[-1]
            col.seq = z3.Const(run.fresh(f"{key}.out"), col.seq.sort())
        for inv in spec.invariant:
            run.assume(self.spec_bool(inv, self.loop_env(env)))
        for inst in getattr(spec, "instances", ()):
            run.assume(self.spec_bool(inst, self.loop_env(env)))
        c = cond()
        if isinstance(c, SBool):
            c = c.e
        which = run.fork([c, z3.Not(c) if not isinstance(c, bool) else (not c)], label=key)
        if which == 0:
            # (2) preservation: one arbitrary iteration
            dec0 = self.spec_eval(spec.decreases, self.loop_env(env)) if spec.decreases else None
            try:
                if pre_body:
                    pre_body()
                self.exec_body(st.body, env)
            except ContinueSig:
                pass
            except BreakSig:
                return  # leaves the loop from an arbitrary iteration
            for k, inv in enumerate(spec.invariant):
                run.oblige("loop-invariant-preserved", self.spec_bool(inv, self.loop_env(env)), f"{key} inv#{k} preserved: {inv}", st.lineno)
            if dec0 is not None:
                dec1 = self.spec_eval(spec.decreases, self.loop_env(env))
                goal = z3.And(self.cmp_z3(">=", self.to_z3(dec0, "int"), 0), self.cmp_z3("<", self.to_z3(dec1, "int"), self.to_z3(dec0, "int")))
                run.oblige("loop-variant", goal, f"{key} decreases {spec.decreases}", st.lineno)
            raise PathCut()
        # (3) exit: invariant and not cond
        self.exec_body(st.orelse, env)

    def loop_env(self, env):
        e = Env(env, {})
        if self.collectors and self.collectors[-1].seq is not None:
            col = self.collectors[-1]
            e.vars["__out__"] = SStr(col.seq, "str") if col.kind == "str" else SSeq(col.seq, "gen")
        for k, v in self.entry.items():
            e.vars.setdefault("old_" + k, v)
        return e

    def set_existing(self, env, name, value):
        e = env
        while e is not None:
            if name in e.vars:
                e.vars[name] = value
                return
            e = e.parent
        env.vars[name] = value

    def havoc_like(self, cur, name):
        cur = self.resolve(cur) if isinstance(cur, SUnion) else cur
        fresh = self.run.fresh(name)
        if isinstance(cur, bool) or isinstance(cur, SBool):
            return SBool(z3.Bool(fresh))
        if isinstance(cur, int) or isinstance(cur, SInt):
            return SInt(z3.Int(fresh) if self.bv is None else z3.BitVec(fresh, self.bv))
        if isinstance(cur, str):
            return SStr(z3.String(fresh), "str")
        if isinstance(cur, bytes):
            return SStr(z3.String(fresh), "bytes")
        if isinstance(cur, SStr):
            return SStr(z3.String(fresh), cur.kind)
        if isinstance(cur, SSeq):
            return SSeq(z3.Const(fresh, IntSeqSort), cur.kind)
        raise Unsupported(f"cannot havoc {name} of kind {type(cur).__name__}")

    def st_For(self, st, env):
        it = self.resolve(self.eval(st.iter, env))
        items = self.static_items(it)
        if items is None:
            key = self.loop_key(st)
            spec = self.c.loops.get(key)
            if spec is None:
                raise Unsupported(f"for-loop {key} over a symbolic iterable needs an invariant")
            self.symbolic_for(st, env, it, spec, key)
            return
        key = self.loop_key(st)
        spec = self.c.loops.get(key)
        cut = spec.ghost_step if spec is not None and callable(spec.ghost_step) else None
        broke = False
        for k, x in enumerate(items):
            self.assign(st.target, x, env)
            try:
                self.exec_body(st.body, env)
            except BreakSig:
                broke = True
                break
            except ContinueSig:
                pass
            if cut is not None:
                # ghost lock-step: compare with the reference step, then continue from fresh symbols (cut point)
                cut(self, env, k)
        if not broke:
            self.exec_body(st.orelse, env)

    def symbolic_for(self, st, env, it, spec, key):
        """for x in <symbolic sequence or range>: index ghost ``__i__`` runs over [0, len)"""
        run = self.run
        idx_name = f"__i{key.split('#')[-1]}__"
        seq_len, get = self.seq_access(it)
        env.set(idx_name, 0 if self.bv is None else 0)
        env.set("__len__", seq_len)

        def cond():
            return self.cmp_vals("<", env.lookup(idx_name), seq_len)

        def pre_body():
            i = env.lookup(idx_name)
            self.assign(st.target, get(i), env)
            env.set(idx_name, self.binop("Add", i, 1))

        mods = sorted(_assigned_names(st.body) | {idx_name} | _target_names(st.target))
        spec2 = type(spec)(spec.invariant, spec.decreases, spec.modifies if spec.modifies is not None else mods, spec.ghost_step, instances=getattr(spec, "instances", ()))
        self.invariant_loop(st, env, spec2, key, cond, pre_body)

    def st_Break(self, st, env):
        raise BreakSig()

    def st_Continue(self, st, env):
        raise ContinueSig()

    # -- frame bookkeeping -------------------------------------------------------------------
    def note_write(self, obj, attr):
        self.run.writes.append((obj, attr, self.lineno))
        if isinstance(obj, SObj) and not obj.fresh:
            if self.first_self_write is None:
                self.first_self_write = (f"{obj.name}.{attr}", self.lineno)
            mod = self.c.modifies
            if mod is not None:
                ok = any(m == f"{obj.name}.{attr}" or m == f"{obj.name}.*" for m in mod)
                if not ok:
                    self.run.oblige("frame", z3.BoolVal(False), f"write to {obj.name}.{attr} outside modifies {sorted(mod)}", self.lineno, hard=True)


def _consts_of(e):
    """names of the uninterpreted constants (arity 0) occurring in a z3 term"""
    out = set()
    seen = set()
    stack = [e]
    while stack:
        t = stack.pop()
        if t.get_id() in seen:
            continue
        seen.add(t.get_id())
        if z3.is_app(t):
            if t.num_args() == 0 and t.decl().kind() == z3.Z3_OP_UNINTERPRETED:
                out.add(t.decl().name())
            stack.extend(t.children())
        elif z3.is_quantifier(t):
            stack.append(t.body())
    return out


def _as_load(node):
    new = ast.parse(ast.unparse(node), mode="eval").body
    return new


def _assigned_names(body):
    out = set()
    for b in body:
        for n in ast.walk(b):
            if isinstance(n, ast.Name) and isinstance(n.ctx, (ast.Store, ast.Del)):
                out.add(n.id)
    return out


def _target_names(t):
    return {n.id for n in ast.walk(t) if isinstance(n, ast.Name)}
