"""Bounded stand-in for C18: a disabled account can never log in and can be restored intact.

Oracle (from the property statement, not from passlib): a tiny state model of an account field --
``enabled(h)`` / ``disabled(orig or None)``.  disable keeps a disabled field disabled (and keeps the embedded
original), enable returns exactly the embedded original or raises ValueError, enable of a normal hash is the
identity.  unix_disabled embeds the original after a one-character marker ("!" or "*"); django_disabled never
embeds one.  The real CryptContext / hashers are driven through every disable/enable word of length <= 4.
"""
import itertools

from common import Group, main, outcome

PW = "pw-c18"


def cheap(handler):
    """handler with minimum cost"""
    if "rounds" in getattr(handler, "setting_kwds", ()) and getattr(handler, "min_rounds", None) is not None:
        try:
            return handler.using(rounds=max(handler.min_rounds, 1))
        except Exception:  # noqa: BLE001
            return handler
    return handler


def usable(handler):
    if getattr(handler, "backends", None):
        return any(outcome(handler.has_backend, b) == ("ok", True) for b in handler.backends)
    return True


def s(x):
    return x.decode("ascii") if isinstance(x, bytes) else x


class Field:
    """the property's view of an account field: ('on', hash) or ('off', embedded original or None)"""

    def __init__(self, kind, value):
        self.kind, self.value = kind, value


def classify(x, dis_name):
    """model state of a start string (None = no hash)"""
    if x is None:
        return None
    x = s(x)
    if dis_name == "unix_disabled":
        if x == "":
            return Field("off", None)
        if x[0] in "!*":
            return Field("off", x[1:] or None)
    else:
        if x.startswith("!"):
            return Field("off", None)
    return Field("on", x)


def drive(g, api, label, dis_name, start, word, origpw, verify, identify, is_enabled, bare=False):
    """run one disable/enable word from `start`; api = (disable, enable)"""
    disable, enable = api
    cur = start
    state = classify(start, dis_name)
    wit = {"via": label, "disabled_scheme": dis_name, "start": start, "word": "".join(word)}
    for i, op in enumerate(word):
        w = dict(wit, step=i, op=op, arg=cur)
        if op == "d":
            o = outcome(disable, cur) if cur is not None or i else outcome(disable)
            if not g.check(o[0] == "ok" and isinstance(o[1], str), f"disable:raises:{dis_name}:{'redisable' if state is not None and state.kind == 'off' else 'fresh'}", "disable() did not return a string", dict(w, outcome=repr(o))):
                return
            new = o[1]
            if state is None or (state.kind == "on" and state.value == ""):
                state = Field("off", None)
            elif state.kind == "on":
                state = Field("off", state.value if dis_name == "unix_disabled" else None)
            # already disabled: stays disabled with the same embedded original
            cur = new
        else:
            if bare and state.kind == "on":
                return  # the bare hasher rejects foreign hashes in enable(); only the context passes them through
            o = outcome(enable, cur)
            if state.kind == "on":
                g.check(o[0] == "ok" and s(o[1]) == state.value, f"enable:normal-hash-changed:{dis_name}", "enable() of a normal hash did not return it unchanged", dict(w, outcome=repr(o)))
                if o[0] != "ok":
                    return
                cur = o[1]
            elif state.value is not None:
                if not g.check(o[0] == "ok" and s(o[1]) == state.value, f"enable:not-original:{dis_name}", "enable() did not return exactly the embedded original hash", dict(w, want=state.value, outcome=repr(o))):
                    return
                cur = o[1]
                state = Field("on", state.value)
            else:
                g.check(o[0] == "exc" and o[3] and o[1] != "TypeError", f"enable:no-original:{dis_name}", "enable() of a disabled string without original did not raise ValueError", dict(w, outcome=repr(o)))
                if o[0] == "ok":
                    return
                # field unchanged
        # ---- observations on the current field --------------------------------------------
        w = dict(wit, step=i, op=op, field=cur)
        if state.kind == "off":
            o = outcome(is_enabled, cur)
            g.check(o == ("ok", False), f"disabled:is_enabled:{dis_name}", "disabled string not recognised as disabled (is_enabled is not False)", dict(w, outcome=repr(o)))
            o = outcome(identify, cur)
            g.check(o == ("ok", dis_name), f"disabled:identify:{dis_name}", "disabled string not attributed to the disabled scheme", dict(w, outcome=repr(o)))
            pws = ["", "x", s(cur), PW]
            if state.value:
                pws.append(state.value)
            for pw in pws:
                for p in (pw, pw.encode("utf-8")):
                    o = outcome(verify, p, cur)
                    g.check(o == ("ok", False), f"disabled:verify:{dis_name}", "a password verified (or verify raised) against a disabled string", dict(w, password=repr(p), outcome=repr(o)))
            if dis_name == "unix_disabled":
                g.check(s(cur)[1:] == (state.value or ""), f"disabled:embedding:{dis_name}", "disabled string is not marker + original hash", dict(w, want_tail=state.value))
        else:
            g.check(s(cur) == state.value, f"enabled:value:{dis_name}", "restored field is not the original hash", dict(w, want=state.value))
            if origpw is not None and state.value:
                o = outcome(is_enabled, cur)
                g.check(o == ("ok", True), f"enabled:is_enabled:{dis_name}", "normal hash not reported enabled", dict(w, outcome=repr(o)))
                o = outcome(verify, origpw, cur)
                g.check(o == ("ok", True), f"enabled:verify:{dis_name}", "restored hash no longer verifies its password", dict(w, outcome=repr(o)))


def done(g):
    """freeze the group's timing at the moment it is finished"""
    res = g.out()
    g.out = lambda: res
    return g


def words(maxlen):
    for n in range(1, maxlen + 1):
        yield from itertools.product("de", repeat=n)


def build(tier, rng):
    from passlib import hash as H
    from passlib import registry
    from passlib.context import CryptContext
    import passlib.apps as apps
    import passlib.hosts as hosts

    skipped = []
    host = {}
    groups = []
    maxlen = 4 if tier == "quick" else 5

    def make_hashes(ctx, dis_name):
        """[(scheme, hash, password, ctx kwds)] from every other scheme of the context"""
        out = []
        for name in ctx.schemes():
            h = registry.get_crypt_handler(name)
            if getattr(h, "is_disabled", False):
                continue
            if not usable(h):
                skipped.append(f"{name}: no backend")
                continue
            kw = {"user": "u"} if "user" in getattr(h, "context_kwds", ()) else {}
            try:
                out.append((name, cheap(h).hash(PW, **kw), PW, kw))
            except Exception as err:  # noqa: BLE001
                skipped.append(f"{name}: hash failed {type(err).__name__}: {str(err)[:60]}")
        return out

    # ---------------- contexts ------------------------------------------------------------------
    g = Group(
        "context-disable-enable",
        "CryptContext.disable/enable/is_enabled",
        "shipped contexts carrying a disabled scheme (passlib.hosts *, passlib.apps django*) + custom contexts with unix_disabled / "
        "django_disabled at every list position (also marker='*') x start field in {None, '', '!', '*', marker+hash for both markers, "
        "hash of every other scheme (min rounds), django '!'+40 chars} x every word over {disable, enable} of length <= 4 (thorough: 5); after every "
        "step: is_enabled/identify, verify False for '', 'x', the field itself, the original hash text and the original password (str and "
        "bytes); restored hash equals the original and verifies.  Starts the context cannot identify ('' and '*' under django_disabled, "
        "None) only begin with disable.",
    )
    ctxs = []
    for mod in (hosts, apps):
        for k, v in sorted(vars(mod).items()):
            if isinstance(v, CryptContext) and not k.startswith("_"):
                try:
                    names = v.schemes()
                except Exception as err:  # noqa: BLE001
                    skipped.append(f"{mod.__name__}.{k}: {type(err).__name__}")
                    continue
                dis = [n for n in names if getattr(registry.get_crypt_handler(n), "is_disabled", False)]
                if dis:
                    ctxs.append((f"{mod.__name__.split('.')[-1]}.{k}", v, dis[0]))
    host["shipped_contexts_with_disabled"] = [c[0] for c in ctxs]
    base_unix = ["sha256_crypt", "md5_crypt", "des_crypt", "bcrypt"]
    base_dj = ["django_pbkdf2_sha256", "django_salted_sha1", "django_bcrypt", "hex_md5"]
    for pos in range(len(base_unix) + 1):
        names = base_unix[:pos] + ["unix_disabled"] + base_unix[pos:]
        ctxs.append((f"custom.unix@{pos}", CryptContext(names, sha256_crypt__default_rounds=1000, bcrypt__default_rounds=4), "unix_disabled"))
    ctxs.append(("custom.unix@0,marker=*", CryptContext(["unix_disabled"] + base_unix, unix_disabled__marker="*", sha256_crypt__default_rounds=1000, bcrypt__default_rounds=4), "unix_disabled"))
    ctxs.append(("custom.unix-only", CryptContext(["unix_disabled"]), "unix_disabled"))
    for pos in range(len(base_dj) + 1):
        names = base_dj[:pos] + ["django_disabled"] + base_dj[pos:]
        ctxs.append((f"custom.django@{pos}", CryptContext(names, django_pbkdf2_sha256__default_rounds=1, django_bcrypt__default_rounds=4), "django_disabled"))
    # both disabled hashers in one context: the first one listed is the one disable() uses
    ctxs.append(("custom.unix+django", CryptContext(["md5_crypt", "unix_disabled", "django_salted_sha1"]), "unix_disabled"))

    for label, ctx, dis_name in ctxs:
        hashes = make_hashes(ctx, dis_name)
        starts = [(None, None, {})]
        if dis_name == "unix_disabled":
            starts += [("", None, {}), ("!", None, {}), ("*", None, {})]
            for _, h, pw, kw in hashes:
                starts += [(h, pw, kw), ("!" + h, pw, kw), ("*" + h, pw, kw)]
        else:
            starts += [("", None, {}), ("!", None, {}), ("!" + "a1B2" * 10, None, {})]
            for _, h, pw, kw in hashes:
                starts += [(h, pw, kw)]
        for start, pw, kw in starts:
            unknown = start is None or (dis_name == "django_disabled" and start == "")
            for word in words(maxlen):
                if unknown and word[0] != "d":
                    continue
                g.case((label, start, "".join(word)))
                drive(
                    g,
                    (ctx.disable, ctx.enable),
                    label,
                    dis_name,
                    start,
                    word,
                    pw,
                    lambda p, h, kw=kw: ctx.verify(p, h, **kw),
                    ctx.identify,
                    ctx.is_enabled,
                )
    groups.append(done(g))

    # ---------------- a live scheme whose own hashes start with a marker character -------------------
    g = Group(
        "marker-collision",
        "CryptContext.disable/enable",
        "contexts listing mysql41 ('*' + 40 hex digits: the hash text itself starts with a unix_disabled marker) before / after "
        "unix_disabled x passwords: the disabled string is not enabled, verifies nothing, stays disabled, and enable() gives back exactly the original",
    )
    for names in (["mysql41", "unix_disabled", "md5_crypt"], ["md5_crypt", "mysql41", "unix_disabled"]):
        ctx = CryptContext(names)
        for pw in ("pw", "", "x" * 20):
            h = H.mysql41.hash(pw)
            g.case((tuple(names), pw))
            w = {"schemes": names, "original": h}
            d = outcome(ctx.disable, h)
            ok = d[0] == "ok" and isinstance(d[1], str)
            g.check(ok, "marker-collision:mysql41:disable-failed", "disable() of a mysql41 hash failed", dict(w, outcome=repr(d)))
            if not ok:
                continue
            d = d[1]
            g.check(outcome(ctx.is_enabled, d) == ("ok", False), "marker-collision:mysql41:still-enabled", "disabled string reported enabled", dict(w, disabled=d))
            for p in (pw, "", h, d):
                g.check(outcome(ctx.verify, p, d) == ("ok", False), "marker-collision:mysql41:verifies", "a password verified against the disabled string", dict(w, disabled=d, password=p))
            g.check(outcome(ctx.disable, d) == ("ok", d), "marker-collision:mysql41:disable-twice", "disabling twice changed the string", dict(w, disabled=d, outcome=repr(outcome(ctx.disable, d))))
            e = outcome(ctx.enable, d)
            g.check(e == ("ok", h), "marker-collision:mysql41:enable-not-original", "enable(disable(h)) != h for a hash that itself starts with a marker character", dict(w, disabled=d, outcome=repr(e)))
    groups.append(done(g))

    # ---------------- hashers directly ------------------------------------------------------------
    g = Group(
        "disabled-hashers",
        "unix_disabled/django_disabled.disable/enable",
        "passlib.hash.unix_disabled (default marker, using(marker='*'), using(marker='!')) and django_disabled directly: identify/verify/"
        "disable/enable over the same start fields (str and bytes) x words of length <= 4; hash('anything') is a disabled string; "
        "strings starting with '$' are never identified as disabled",
    )
    sample = [H.md5_crypt.hash(PW), H.sha256_crypt.using(rounds=1000).hash(PW), H.des_crypt.hash(PW)]
    variants = [
        ("unix_disabled", H.unix_disabled, "unix_disabled"),
        ("unix_disabled(marker=*)", H.unix_disabled.using(marker="*"), "unix_disabled"),
        ("unix_disabled(marker=!)", H.unix_disabled.using(marker="!"), "unix_disabled"),
        ("django_disabled", H.django_disabled, "django_disabled"),
    ]
    for label, hd, dis_name in variants:
        if dis_name == "unix_disabled":
            starts = [None, "", "!", "*", b"!", b"*"]
            for h in sample:
                starts += [h, "!" + h, "*" + h, h.encode(), b"!" + h.encode()]
        else:
            starts = [None, "!", "!" + "Zz09" * 10, b"!"]
        for start in starts:
            for word in words(maxlen):
                st = classify(start, dis_name)
                if start is None and word[0] != "d":
                    continue
                if st is not None and st.kind == "on" and word[0] == "e":
                    continue
                g.case((label, start, "".join(word)))
                drive(
                    g,
                    (hd.disable, hd.enable),
                    label,
                    dis_name,
                    start,
                    word,
                    None,
                    hd.verify,
                    lambda x, hd=hd, dis_name=dis_name: dis_name if hd.identify(x) else None,
                    lambda x, hd=hd: not hd.identify(x),
                    bare=True,
                )
        for secret in ("", "x", "p" * 80, b"\xff\xfe"):
            o = outcome(hd.hash, secret)
            g.case((label, "hash", repr(secret)))
            ok = o[0] == "ok" and isinstance(o[1], str) and hd.identify(o[1])
            g.check(ok, f"hasher:hash:{dis_name}", "hash() of a disabled hasher is not a disabled string", {"hasher": label, "secret": repr(secret), "outcome": repr(o)})
            if ok:
                for p in ("", "x", secret, o[1]):
                    v = outcome(hd.verify, p, o[1])
                    g.check(v == ("ok", False), f"hasher:verify:{dis_name}", "password verified against hash() of a disabled hasher", {"hasher": label, "password": repr(p), "hash": o[1], "outcome": repr(v)})
        for h in sample + ["$6$x$y", "$2b$04$" + "a" * 53]:
            g.case((label, "foreign", h))
            g.check(hd.identify(h) is False, f"hasher:identify-foreign:{dis_name}", "a '$...' crypt string identified as disabled", {"hasher": label, "hash": h})
            o = outcome(hd.verify, "x", h)
            g.check(o[0] == "exc" and o[3] and o[1] != "TypeError", f"hasher:verify-foreign:{dis_name}", "verify() against a foreign hash did not raise ValueError", {"hasher": label, "hash": h, "outcome": repr(o)})
    # marker styles
    g.case("markers")
    g.check(H.unix_disabled.using(marker="*").disable() == "*", "hasher:marker:*", "marker='*' not used by disable()", {})
    g.check(H.unix_disabled.using(marker="!").disable(sample[0]) == "!" + sample[0], "hasher:marker:!", "marker='!' + hash expected", {})
    o = outcome(H.unix_disabled.using, marker="$x")
    g.check(o[0] == "exc" and o[1] == "ValueError", "hasher:marker:invalid", "a marker that is not a disabled string was accepted", {"outcome": repr(o)})
    groups.append(done(g))

    # ---------------- verify against a missing hash -------------------------------------------------
    g = Group(
        "missing-hash-dummy-verify",
        "CryptContext.verify(hash=None)",
        "every context of group 1 + contexts without a disabled scheme x passwords ('', 'x', bytes, 200 chars) x verify / "
        "verify_and_update with hash=None: result False / (False, None), dummy_verify called exactly once per call and the dummy "
        "verification runs the default scheme's verify (counted on the handler record)",
    )
    extra = [
        ("custom.md5_crypt", CryptContext(["md5_crypt"])),
        ("custom.sha256+des", CryptContext(["sha256_crypt", "des_crypt"], sha256_crypt__default_rounds=1000)),
        ("custom.plaintext", CryptContext(["plaintext"])),
        ("custom.ldap", CryptContext(["ldap_salted_sha1", "ldap_plaintext"])),
        ("custom.postgres(user kw)", CryptContext(["md5_crypt", "postgres_md5"])),
        # the dummy verification hashes a fixed 16-character secret with the DEFAULT scheme and no context keywords:
        # default schemes that need a user name, or refuse long passwords, are the classes where that can fail
        ("needs-user.postgres_md5", CryptContext(["postgres_md5", "unix_disabled"])),
        ("needs-user.oracle10", CryptContext(["oracle10", "md5_crypt"])),
        ("needs-user.msdcc2", CryptContext(["msdcc2", "unix_disabled"])),
        ("truncate-error.des_crypt", CryptContext(["des_crypt", "unix_disabled"], des_crypt__truncate_error=True)),
        ("truncate-error.bcrypt", CryptContext(["bcrypt", "unix_disabled"], bcrypt__truncate_error=True, bcrypt__rounds=4)),
        ("user-optional.cisco_pix", CryptContext(["cisco_pix", "unix_disabled"])),
    ]
    allctx = [(a, b) for a, b, _ in ctxs] + extra
    for label, ctx in allctx:
        klass = ":default-" + label.split(".")[0] if label.split(".")[0] in ("needs-user", "truncate-error") else ""
        ctx = ctx.copy()  # never patch the shipped objects
        if label.split(".")[0] in ("hosts", "apps") and tier == "quick":
            # cheap copy so that the dummy hash does not cost default rounds; same scheme list and default
            cheapkw = {}
            for sch in ctx.schemes():
                h = registry.get_crypt_handler(sch)
                if "rounds" in getattr(h, "setting_kwds", ()) and usable(h):
                    cheapkw[f"{sch}__default_rounds"] = max(h.min_rounds, 1)
            try:
                ctx = ctx.copy(**cheapkw)
            except Exception as err:  # noqa: BLE001
                skipped.append(f"{label}: cheap copy failed {type(err).__name__}")
        default = outcome(ctx.default_scheme)
        if default[0] != "ok" or not usable(registry.get_crypt_handler(default[1])):
            skipped.append(f"{label}: default scheme unusable on this host ({default[1]})")
            continue
        calls, seen = [], []
        orig_dummy, orig_verify = ctx.dummy_verify, ctx.verify

        def counted(orig=orig_dummy, calls=calls):
            calls.append(1)
            return orig()

        def recorded(secret, hash, *a, orig=orig_verify, seen=seen, **k):
            seen.append(hash)
            return orig(secret, hash, *a, **k)

        # instance attributes: CryptContext.verify/dummy_verify look both up through ``self``
        ctx.dummy_verify = counted
        ctx.verify = recorded
        for pw in ("", "x", b"x", "y" * 200):
            for meth, want in (("verify", False), ("verify_and_update", (False, None))):
                calls.clear()
                seen.clear()
                o = outcome(getattr(ctx, meth), pw, None)
                w = {"context": label, "schemes": list(ctx.schemes()), "call": meth, "password": repr(pw)}
                g.case((label, meth, repr(pw)))
                g.check(o == ("ok", want), f"missing:{meth}:result{klass}", "verification against a missing hash is not False", dict(w, outcome=repr(o)))
                g.check(len(calls) == 1, f"missing:{meth}:dummy{klass}", "dummy_verify not called exactly once", dict(w, calls=len(calls)))
                real = [h for h in seen if h is not None]
                ok = len(real) == 1 and isinstance(real[0], str) and outcome(ctx.identify, real[0]) == ("ok", default[1])
                g.check(ok, f"missing:{meth}:cost{klass}", "no dummy verification against a hash of the default scheme was performed", dict(w, default=default[1], verified_against=real))
        calls.clear()
        o = outcome(ctx.dummy_verify)
        g.case((label, "dummy_verify"))
        g.check(o == ("ok", False), f"dummy:result{klass}", "dummy_verify() does not return False", {"context": label, "outcome": repr(o)})
    groups.append(done(g))
    host["disabled_default_marker"] = H.unix_disabled.default_marker
    return groups, sorted(set(skipped)), host


if __name__ == "__main__":
    main(build)
