#!/usr/bin/env python3
"""Run every stored seeded change (/verif/seeded/<id>/patch.diff) against the property's check on a scratch copy of /repo
(PYVC_REPO), in parallel, and write seeded/RESULTS.json + a markdown table (seeded/RESULTS.md).
Usage: seeded_all.py [--jobs N] [--tier quick] [ids...]"""
import concurrent.futures as cf, glob, json, os, re, shutil, subprocess, sys, time
V = os.path.dirname(os.path.dirname(os.path.abspath(__file__)))
args = sys.argv[1:]
jobs = 4; tier = "quick"
if "--jobs" in args: i = args.index("--jobs"); jobs = int(args[i + 1]); del args[i:i + 2]
if "--tier" in args: i = args.index("--tier"); tier = args[i + 1]; del args[i:i + 2]
ids = args or sorted(os.path.basename(os.path.dirname(p)) for p in glob.glob(V + "/seeded/*/patch.diff"))

def sh(cmd, **kw):
    return subprocess.run(cmd, shell=True, capture_output=True, text=True, **kw)

def one(sid):
    pid = sid.split("-")[0]
    scr = f"/tmp/scr_{sid}"; ev = f"/tmp/scr_ev_{sid}"
    shutil.rmtree(scr, ignore_errors=True); shutil.rmtree(ev, ignore_errors=True)
    sh(f"rsync -a --exclude .git /repo/ {scr}/")
    try:
        r = sh(f"cd {scr} && patch -p1 -s < {V}/seeded/{sid}/patch.diff")
        if r.returncode:
            return sid, {"error": "patch does not apply: " + (r.stdout + r.stderr)[:200]}
        t0 = time.time()
        env = dict(os.environ, PYVC_REPO=scr, PYVC_EVIDENCE_DIR=ev, PYVC_WORKERS=str(max(2, 16 // jobs)))
        c = subprocess.run(["./check", pid, "--tier", tier], cwd=V, env=env, capture_output=True, text=True, timeout=3600)
        dt = time.time() - t0
        viol = [l for l in c.stdout.splitlines() if l.startswith("VIOLATION")]
        names = []
        for l in viol:
            m = re.search(r"replay=(\S+)", l)
            names.append(os.path.basename(m.group(1))[:-5] if m else l)
        kinds = sorted({"bounded" if n.startswith("bounded_") else "finite" if n.startswith("finite_") else "contract-replay" if "spec-replay" in n else "proof" for n in names})
        return sid, {"check_rc": c.returncode, "violations": len(viol), "caught_by": kinds, "first": names[:4], "seconds": round(dt),
                     "no_input": sum(1 for l in viol if l.rstrip().endswith("no-failing-input-found"))}
    finally:
        shutil.rmtree(scr, ignore_errors=True); shutil.rmtree(ev, ignore_errors=True)

res = {}
with cf.ThreadPoolExecutor(jobs) as ex:
    for sid, r in ex.map(one, ids):
        res[sid] = r
        print(sid, json.dumps(r)[:300], flush=True)
path = V + "/seeded/RESULTS.json"
old = json.load(open(path)) if os.path.exists(path) else {}
old.update(res)
json.dump(old, open(path, "w"), indent=1, sort_keys=True)
