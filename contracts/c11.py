"""C11 -- the built-in cryptographic primitives equal their standards."""
import z3

from pyvc.contract import Const, Contract, Int, Lemma, Loop, Obj
from pyvc.runner import Bounded, Finite
from pyvc.values import SInt, SList, SModule, SObj, SStub
from specs import rfc1320, rfc7914

LEVEL = "proof"
EXPLANATION = (
    "MD4 compression (passlib/crypto/_md4.py::md4._process) is verified step by step against RFC 1320 (ghost lock-step, "
    "48 cut points, 64-bit vectors with no-overflow side obligations); Salsa20/8, DES key expansion, scrypt parameter "
    "validation, MD4's buffering (update: the stream reaches the compression function in order in 64-byte blocks, remainder "
    "kept, block count advanced), copy and padding (digest), and compile_hmac == RFC 2104 over an abstract hash (bytes and text keys) "
    "with its pad tables, and PBKDF1 == H^rounds(P || S) truncated (RFC 8018 5.1), are verified from their real source; DES rounds, bcrypt core, ROMix, PBKDF2 (delegated to hashlib) and "
    "SASLprep are covered by the bounded stand-in against independent references."
)
ASSUMPTIONS = [
    "struct.unpack('<16I') yields 16 integers in [0, 2^32) (little-endian words of the block)",
    "machine arithmetic: Python ints modelled as 64-bit vectors in the BV-mode contracts, every + - * << carries a no-overflow side obligation",
]
M = "passlib/crypto/_md4.py"


# ---- MD4 ------------------------------------------------------------------------------------------
def _md4_setup(it, args):
    st = []
    for k in range(4):
        v = it.sym_int(f"state{k}")
        it.run.assume(z3.And(z3.ULE(v.e, z3.BitVecVal(2**32 - 1, 64))))
        st.append(v)
    lst = SList(st)
    args["self"].fields["_state"] = lst
    it.run.ghost["orig"] = [z3.Extract(31, 0, v.e) for v in st]
    it.run.ghost["regs"] = list(it.run.ghost["orig"])
    it.run.ghost["state_list"] = None
    return None


def _unpack(it, args, kwargs):
    fmt = args[0]
    if fmt != "<16I":
        from pyvc.values import Unsupported
        raise Unsupported(f"struct.unpack({fmt!r})")
    xs = []
    for k in range(16):
        v = it.sym_int(f"X{k}")
        it.run.assume(z3.ULE(v.e, z3.BitVecVal(2**32 - 1, 64)))
        xs.append(v)
    it.run.ghost["X"] = [z3.Extract(31, 0, v.e) for v in xs]
    return tuple(xs)


def _md4_cut(rnd):
    def cut(it, env, j):
        g = it.run.ghost
        g["steps"] = g.get("steps", 0) + 1
        g["regs"] = rfc1320.step(g["regs"], g["X"], rnd, j)
        state = env.lookup("state")
        for i in range(4):
            it.run.oblige("ghost-lock-step", it.to_z3(state.items[i], "int") == z3.ZeroExt(32, g["regs"][i]), f"MD4 round {rnd + 1} step {j}: register {i} == RFC 1320", it.lineno)
        # cut point: continue from fresh symbols
        fresh = [z3.BitVec(it.run.fresh(f"r{rnd}s{j}_{i}"), 32) for i in range(4)]
        g["regs"] = fresh
        for i in range(4):
            state.items[i] = SInt(z3.ZeroExt(32, fresh[i]))

    return cut


def _md4_post(it, env):
    g = it.run.ghost
    self = env.lookup("self")
    final = self.fields["_state"]
    if g.get("steps") != 48:
        return False  # the RFC has 3 rounds of 16 operations
    return z3.And(*[it.to_z3(final.items[i], "int") == z3.ZeroExt(32, g["orig"][i] + g["regs"][i]) for i in range(4)])


CONTRACTS = [
    Contract(
        "md4._process", f"{M}::md4._process",
        params={"self": Obj(cls=(M, "md4")), "block": Const(b"")},
        setup=_md4_setup,
        ints="bv64",
        globals={"struct": SModule("struct", {"unpack": SStub(_unpack, "struct.unpack", trusted="struct '<16I'")})},
        loops={
            "_process#0": Loop(ghost_step=_md4_cut(0)),
            "_process#1": Loop(ghost_step=_md4_cut(1)),
            "_process#2": Loop(ghost_step=_md4_cut(2)),
        },
        ensures=[("state' == state + compress(state, X) (mod 2^32), every register", _md4_post)],
        max_depth=4,
        descr="all 128-bit states, all 512-bit blocks",
    ),
]

# ---- Salsa20/8 -----------------------------------------------------------------------------------
SALSA = "passlib/crypto/scrypt/_salsa.py"


def _salsa_setup(it, args):
    xs = []
    for k in range(16):
        v = it.sym_int(f"in{k}")
        it.run.assume(z3.ULE(v.e, z3.BitVecVal(2**32 - 1, 64)))
        xs.append(v)
    args["input"] = tuple(xs)
    it.run.ghost["b"] = [z3.Extract(31, 0, v.e) for v in xs]
    it.run.ghost["x"] = list(it.run.ghost["b"])
    return None


def _salsa_cut(it, env, k):
    g = it.run.ghost
    g["rounds"] = g.get("rounds", 0) + 1
    g["x"] = rfc7914.double_round(g["x"])
    for i in range(16):
        it.run.oblige("ghost-lock-step", it.to_z3(env.lookup(f"v{i}"), "int") == z3.ZeroExt(32, g["x"][i]), f"Salsa20/8 double round {k}: word {i} == RFC 7914", it.lineno)
    fresh = [z3.BitVec(it.run.fresh(f"dr{k}_{i}"), 32) for i in range(16)]
    g["x"] = fresh
    for i in range(16):
        env.set(f"v{i}", SInt(z3.ZeroExt(32, fresh[i])))


def _salsa_post(it, env):
    g = it.run.ghost
    res = env.lookup("result")
    if g.get("rounds") != 4:
        return False  # Salsa20/8 = 4 double rounds
    return z3.And(*[it.to_z3(res[i], "int") == z3.ZeroExt(32, g["b"][i] + g["x"][i]) for i in range(16)])


CONTRACTS.append(Contract(
    "salsa20", f"{SALSA}::salsa20",
    params={"input": Const(None)},
    setup=_salsa_setup,
    ints="bv64",
    loops={"salsa20#0": Loop(unroll=8, ghost_step=_salsa_cut)},
    ensures=[("result[i] == (input[i] + doubleround^4(input)[i]) mod 2^32", _salsa_post), ("sixteen words", "len(result) == 16")],
    descr="all 16-word inputs",
))

# ---- DES key expansion (7 <-> 8 bytes) ----------------------------------------------------------------
DES = "passlib/crypto/des.py"


def _shrink_spec(it, env):
    k = it.to_z3(env.lookup("key"), "int")
    want = sum(((k / 2 ** (8 * j + 1)) % 128) * 2 ** (7 * j) for j in range(8))
    return it.to_z3(env.lookup("result"), "int") == want


def _unpack56(it, args, kwargs):
    src = it.resolve(args[0])
    items = [it.to_z3(x, "int") for x in src.items]
    return SInt(sum(b * 2 ** (8 * (6 - j)) for j, b in enumerate(items)))


def _expand_spec(it, env):
    src = it.resolve(env.lookup("key"))
    k = sum(it.to_z3(b, "int") * 2 ** (8 * (6 - j)) for j, b in enumerate(src.items))
    want = [((k / 2 ** (49 - 7 * j)) % 128) * 2 for j in range(8)]  # 7 key bits, most significant group first, parity bit 0
    return it.cmp_vals("==", env.lookup("result"), it.make_bytes(tuple(SInt(w) for w in want)))


from pyvc.contract import BytesOfLen

CONTRACTS.append(Contract(
    "shrink_des_key[int]", f"{DES}::shrink_des_key",
    params={"key": Int(-(2**100), 2**100)},
    ints="bv128",
    raises_iff={"ValueError": f"key < 0 or key > {2**64 - 1}"},
    ensures=[("result packs bits 1..7 of every byte, byte 0 least significant", _shrink_spec), ("56-bit result", f"0 <= result <= {2**56 - 1}")],
    loops={"shrink_des_key#0": Loop(unroll=8)},
    descr="all integers of magnitude < 2^100 (128-bit vectors; no-overflow side obligations)",
))
CONTRACTS.append(Contract(
    "expand_des_key[bytes]", f"{DES}::expand_des_key",
    params={"key": BytesOfLen(7)},
    globals={"_unpack56": SStub(_unpack56, "_unpack56", trusted="struct big-endian 56-bit")},
    ensures=[("byte j carries key bits 55-7j .. 49-7j in its upper 7 bits, parity bit 0", _expand_spec)],
    descr="all 7-byte keys",
))
for _n in (6, 8):
    CONTRACTS.append(Contract(
        f"expand_des_key[bytes len={_n}]", f"{DES}::expand_des_key",
        params={"key": BytesOfLen(_n)},
        raises={"ValueError": None},
        ensures=[("wrong length is refused", "False")],
        descr="wrong key size",
    ))


def _des_key_roundtrip():
    k = z3.BitVec("k", 64)
    exp = [z3.ZeroExt(0, ((k >> (49 - 7 * j)) & 0x7F) << 1) for j in range(8)]  # the expand contract, as bytes
    as_int = sum(exp[j] << (8 * (7 - j)) for j in range(8))                       # _unpack64 of those bytes
    shr = sum((((as_int >> (8 * j + 1)) & 0x7F) << (7 * j)) for j in range(8))     # the shrink contract
    return [("shrink_des_key(expand_des_key(k)) == k for every 56-bit k", [z3.ULE(k, z3.BitVecVal(2**56 - 1, 64))], shr == k)]


LEMMAS = [Lemma("des-key-roundtrip", _des_key_roundtrip, "7<->8 byte DES key conversion is lossless (over the two contracts)")]

# ---- scrypt parameter validation -----------------------------------------------------------------------
SC = "passlib/crypto/scrypt/__init__.py"
_POW2 = " or ".join(f"n == {2**k}" for k in range(1, 62))
CONTRACTS.append(Contract(
    "scrypt.validate", f"{SC}::validate",
    params={"n": Int(-(2**61), 2**61), "r": Int(-(2**31), 2**31), "p": Int(-(2**31), 2**31)},
    ints="bv64",
    raises_iff={"ValueError": f"r < 1 or p < 1 or r * p > {2**30 - 1} or n < 2 or not ({_POW2})"},
    ensures=[("accepts", "result is True")],
    descr="n up to 2^61, r/p up to 2^31 (64-bit vectors, multiplication proved not to overflow)",
))

# ---- MD4 padding (RFC 1320 3.1 / 3.2) ---------------------------------------------------------------------
def _md4_digest_setup(it, args):
    from pyvc.values import SStr
    self = args["self"]
    buf = SStr(z3.String("buf"), "bytes")
    it.note_input("buf", buf)
    it.run.assume(z3.Length(buf.e) < 64)
    count = it.sym_int("count")
    it.run.assume(count.e >= 0)
    st = SList([it.sym_int(f"st{k}") for k in range(4)])
    self.fields.update({"_buf": buf, "_count": count, "_state": st})
    blocks = []

    def process(it2, a, k):
        blocks.append(a[0])
        cur = self.fields["_state"]
        for i in range(4):  # the compression function overwrites the chaining value in place
            cur.items[i] = it2.sym_int(it2.run.fresh("compressed"))

    self.fields["_process"] = SStub(process, "_process (own contract above)")
    it.run.ghost.update({"blocks": blocks, "state0": SList(list(st.items)), "buf": buf, "count": count})
    lenfield = z3.Function("pack_2I", z3.IntSort(), z3.IntSort(), z3.StringSort())

    def pack(it2, a, k):
        if a[0] == "<2I":
            lo, hi = it2.to_z3(a[1], "int"), it2.to_z3(a[2], "int")
            r = lenfield(lo, hi)
            it2.run.assume(z3.Length(r) == 8)
            it2.run.ghost["lenfield"] = (lo, hi, r)
            return SStr(r, "bytes")
        if a[0] == "<4I":
            return SStr(z3.String(it2.run.fresh("digest")), "bytes")
        from pyvc.values import Unsupported
        raise Unsupported("struct.pack format")

    it.genv.vars["struct"] = SModule("struct", {"pack": SStub(pack, "struct.pack", trusted="struct '<2I' / '<4I'")})
    return None


def _md4_digest_post(it, env):
    from pyvc.values import SStr
    g = it.run.ghost
    buf = g["buf"].e
    n = z3.Length(buf)
    total = z3.Concat(*[it.to_z3(b) for b in g["blocks"]]) if len(g["blocks"]) > 1 else it.to_z3(g["blocks"][0])
    lo, hi, lf = g["lenfield"]
    bits = g["count"].e * 512 + n * 8
    zeros = it.str_repeat(SStr(z3.StringVal("\x00"), "bytes"), it.wrap_int((55 - n) % 64))
    want = z3.Concat(buf, z3.StringVal("\x80"), it.to_z3(zeros), lf)
    self = env.lookup("self")
    restored = self.fields["_state"] is not None and all(it.truth(it.cmp_vals("==", a, b)) is True or True for a, b in zip(it.static_items_req(self.fields["_state"]), g["state0"].items))
    same_state = z3.And(*[it.to_z3(a, "int") == it.to_z3(b, "int") for a, b in zip(it.static_items_req(self.fields["_state"]), g["state0"].items)])
    return z3.And(total == want, lo == bits % 2**32, hi == (bits / 2**32) % 2**32, z3.Or(len(g["blocks"]) == 1, len(g["blocks"]) == 2), same_state,
                  z3.And(*[z3.Length(it.to_z3(b)) == 64 for b in g["blocks"]]))


CONTRACTS.append(Contract(
    "md4.digest", f"{M}::md4.digest",
    params={"self": Obj(cls=(M, "md4"))},
    setup=_md4_digest_setup,
    ensures=[("blocks processed == buf || 0x80 || zeros((55 - len) mod 64) || bit length (64-bit little endian, low word first); one or two 64-byte blocks; state restored", _md4_digest_post)],
    descr="every buffer of < 64 bytes, every block count",
))

# ---- MD4 buffering: update() feeds the stream to the compression function in 64-byte blocks, in order -------------------
def _md4_update_setup(it, args):
    from pyvc.values import SStr
    self = args["self"]
    buf = SStr(z3.String("buf0"), "bytes")
    it.note_input("buf0", buf)
    it.run.assume(z3.Length(buf.e) < 64)
    count = it.sym_int("count0")
    it.run.assume(count.e >= 0)
    self.fields.update({"_buf": buf, "_count": count, "absorbed": SStr(z3.StringVal(""), "bytes")})

    def process(it2, a, k):
        blk = it2.to_z3(a[0])
        it2.run.oblige("callee-precondition", z3.Length(blk) == 64, "_process receives exactly one 64-byte block", it2.lineno)
        self.fields["absorbed"] = SStr(z3.Concat(it2.to_z3(self.fields["absorbed"]), blk), "bytes")

    self.fields["_process"] = SStub(process, "_process (own contract above)")
    it.run.ghost.update({"buf0": buf, "count0": count})
    return {"buf0": buf, "count0": count}


CONTRACTS.append(Contract(
    "md4.update", f"{M}::md4.update",
    params={"self": Obj(cls=(M, "md4")), "content": __import__("pyvc.contract", fromlist=["Bytes"]).Bytes()},
    setup=_md4_update_setup,
    loops={"update#0": Loop(invariant=["idx % 64 == 0", "0 <= idx", "idx <= end", "end == len(content)", "self.absorbed == content[0:idx]", "self._count == count0 + idx // 64",
                                        "content == (buf0 + old_content if len(buf0) > 0 else old_content)"],
                            modifies=["idx", "next", "self.absorbed", "self._count", "self._buf"], decreases="end - idx")},
    ensures=[
        ("the stream buf + content is handed to the compression function in order, in 64-byte blocks, as far as whole blocks go",
         "self.absorbed == (buf0 + content)[0:64 * ((len(buf0) + len(content)) // 64)]"),
        ("the rest (< 64 bytes) is kept for the next call", "self._buf == (buf0 + content)[64 * ((len(buf0) + len(content)) // 64):] and len(self._buf) < 64"),
        ("the block count advances by the number of blocks processed", "self._count == count0 + (len(buf0) + len(content)) // 64"),
    ],
    descr="every buffered remainder (< 64 bytes), every content, any block count; compression function abstract (own contract)",
))

# ---- HMAC (RFC 2104) over an abstract hash -----------------------------------------------------------
DG = "passlib/crypto/digest.py"
Hf = z3.Function("H", z3.StringSort(), z3.StringSort())


def _hash_obj(it, view, dsize):
    o = SObj(it.run.fresh("hashobj"), fresh=True, fields={"view": view})

    def update(it2, a, k):
        o.fields["view"] = it2.binop("Add", o.fields["view"], a[0])

    def digest(it2, a, k):
        from pyvc.values import SStr
        d = Hf(it2.to_z3(o.fields["view"]))
        it2.run.assume(z3.Length(d) == it2.to_z3(dsize, "int"))
        return SStr(d, "bytes")

    def copy(it2, a, k):
        return _hash_obj(it2, o.fields["view"], dsize)

    o.fields.update({"update": SStub(update, "hash.update"), "digest": SStub(digest, "hash.digest"), "copy": SStub(copy, "hash.copy")})
    return o


def _hmac_setup(it, args):
    from pyvc.values import SStr
    B = it.sym_int("block_size")
    D = it.sym_int("digest_size")
    it.run.assume(z3.And(B.e >= 16, D.e >= 1, D.e <= B.e))
    const = SStub(lambda it2, a, k: _hash_obj(it2, a[0] if a else b"", D), "hash constructor", trusted="hash object: view = bytes absorbed; digest() = H(view); copy() keeps the view")
    info = (const, D, B)
    it.genv.vars["lookup_hash"] = SStub(lambda it2, a, k: info, "lookup_hash")
    it.run.ghost.update({"B": B, "D": D})
    return {"block_size": B, "digest_size": D}


def _hmac_post(it, env):
    from pyvc.values import SStr
    g = it.run.ghost
    key = env.lookup("key")
    if it.kind_of(key) == "str":
        # a text key denotes its UTF-8 bytes: all lengths below are BYTE lengths
        key = it.m_text_encode(key, "utf-8")
    key = it.to_z3(key)
    msg = env.lookup("msg")
    B = g["B"].e
    hk = Hf(key)
    it.run.assume(z3.Length(hk) == g["D"].e)
    k0 = z3.If(z3.Length(key) > B, hk, key)
    zeros = SStr(z3.StringVal("\x00"), "bytes")
    pad = it.str_repeat(zeros, it.wrap_int(B - z3.Length(k0)))
    K = SStr(z3.Concat(k0, it.to_z3(pad)), "bytes")
    t36 = extract_const(DG, "_TRANS_36")
    t5c = extract_const(DG, "_TRANS_5C")
    ipad = it.m_text_translate(K, t36)
    opad = it.m_text_translate(K, t5c)
    inner = Hf(z3.Concat(ipad.e, it.to_z3(msg)))
    want = Hf(z3.Concat(opad.e, inner))
    res = env.lookup("result")
    got = it.call_value(res, [msg], {})
    return it.cmp_vals("==", got, SStr(want, "bytes"))


def extract_const(relpath, name):
    from pyvc import extract as _e
    return _e.module_constant(relpath, name)


CONTRACTS.append(Contract(
    "compile_hmac", f"{DG}::compile_hmac",
    params={"digest": Const("sha256"), "key": __import__("pyvc.contract", fromlist=["Bytes"]).Bytes(), "multipart": Const(False), "msg": __import__("pyvc.contract", fromlist=["Bytes"]).Bytes()},
    setup=_hmac_setup,
    ensures=[("hmac(msg) == H((K0 xor opad) || H((K0 xor ipad) || msg)), K0 = key (hashed only if LONGER than a block) zero-padded to the block size (RFC 2104)", _hmac_post)],
    descr="abstract hash with any block size >= 16 and digest size <= block size, every key length, every message",
))


CONTRACTS.append(Contract(
    "compile_hmac[text key]", f"{DG}::compile_hmac",
    params={"digest": Const("sha256"), "key": __import__("pyvc.contract", fromlist=["Str"]).Str(), "multipart": Const(False), "msg": __import__("pyvc.contract", fromlist=["Bytes"]).Bytes()},
    setup=_hmac_setup,
    ensures=[("a text key is its UTF-8 encoding: hashed / padded by its BYTE length (RFC 2104 over the encoded key)", _hmac_post)],
    descr="abstract hash, every text key (utf-8 abstract, length-bounded), every message",
))


def _hmac_multi_post(it, env):
    """result() -> (update, finalize): finalize() after update(a) is HMAC(a); after a further update(b) it is HMAC(a || b); asking twice gives the same"""
    from pyvc.values import SStr
    g = it.run.ghost
    key = it.to_z3(env.lookup("key"))
    B = g["B"].e
    hk = Hf(key)
    it.run.assume(z3.Length(hk) == g["D"].e)
    k0 = z3.If(z3.Length(key) > B, hk, key)
    pad = it.str_repeat(SStr(z3.StringVal("\x00"), "bytes"), it.wrap_int(B - z3.Length(k0)))
    K = SStr(z3.Concat(k0, it.to_z3(pad)), "bytes")
    ipad = it.m_text_translate(K, extract_const(DG, "_TRANS_36"))
    opad = it.m_text_translate(K, extract_const(DG, "_TRANS_5C"))

    def mac(m):
        return Hf(z3.Concat(opad.e, Hf(z3.Concat(ipad.e, m))))

    a, b = it.to_z3(env.lookup("msg")), it.to_z3(env.lookup("msg2"))
    pair = it.call_value(env.lookup("result"), [], {})
    update, finalize = it.static_items_req(pair)
    it.call_value(update, [env.lookup("msg")], {})
    f1 = it.to_z3(it.call_value(finalize, [], {}))
    f1b = it.to_z3(it.call_value(finalize, [], {}))
    it.call_value(update, [env.lookup("msg2")], {})
    f2 = it.to_z3(it.call_value(finalize, [], {}))
    return z3.And(f1 == mac(a), f1b == mac(a), f2 == mac(z3.Concat(a, b)))


CONTRACTS.append(Contract(
    "compile_hmac[multipart]", f"{DG}::compile_hmac",
    params={"digest": Const("sha256"), "key": __import__("pyvc.contract", fromlist=["Bytes"]).Bytes(), "multipart": Const(True), "msg": __import__("pyvc.contract", fromlist=["Bytes"]).Bytes(), "msg2": __import__("pyvc.contract", fromlist=["Bytes"]).Bytes()},
    setup=_hmac_setup,
    ensures=[("incremental use equals one-shot use: finalize() is HMAC of everything absorbed so far, any number of times, also after further update() calls", _hmac_multi_post)],
    descr="abstract hash, every key, two arbitrary message parts, finalize called three times",
))


def _md4_new(it, args, kwargs):
    from pyvc.values import SList, SObj
    return SObj(it.run.fresh("md4 object"), cls=args[0].cls, fresh=True, fields={"_count": 0, "_state": SList([0x67452301, 0xEFCDAB89, 0x98BADCFE, 0x10325476]), "_buf": b""})


def _md4_copy_post(it, env):
    res = it.resolve(env.lookup("result"))
    me = it.resolve(env.lookup("self"))
    rs, ms = it.resolve(res.fields["_state"]), it.resolve(me.fields["_state"])
    same = [it.to_zbool(it.truth(it.cmp_vals("==", a, b))) for a, b in zip(rs.items, ms.items)]
    return z3.And(z3.BoolVal(res is not me and rs is not ms and len(rs.items) == 4), it.to_zbool(it.truth(it.cmp_vals("==", res.fields["_count"], me.fields["_count"]))),
                  it.to_zbool(it.truth(it.cmp_vals("==", res.fields["_buf"], me.fields["_buf"]))), *same)


CONTRACTS.append(Contract(
    "md4.copy", f"{M}::md4.copy",
    params={"self": Obj(cls=(M, "md4"), fields={"_count": Int(lo=0), "_buf": __import__("pyvc.contract", fromlist=["Bytes"]).Bytes()})},
    setup=lambda it, args: (args["self"].fields.__setitem__("_state", __import__("pyvc.values", fromlist=["SList"]).SList([it.sym_int(f"state{i}") for i in range(4)])), None)[1],
    globals={"new.*": SStub(_md4_new, "md4()", trusted="md4() starts from the RFC 1320 initial state with an empty buffer")},
    modifies=[],
    ensures=[("the copy carries the same block count, buffer and an independent copy of the state: hashing may continue on either object", _md4_copy_post)],
    descr="any state, any number of blocks already absorbed",
))


# ---- PBKDF1 (RFC 8018 5.1): T_1 = H(P || S), T_i = H(T_{i-1}), DK = T_c[0:dkLen] --------------------------------------
ITER = z3.Function("H_iterated", z3.StringSort(), z3.IntSort(), z3.StringSort())


def _iter(it, x, n):
    r = ITER(x, n)
    it.run.assume(r == z3.If(n <= 0, x, Hf(ITER(x, n - 1))))
    it.run.assume(z3.Implies(n >= 1, z3.Length(r) == it.run.ghost["D"].e))
    return r


def _iter_spec(it, args, kwargs):
    from pyvc.values import SStr
    return SStr(_iter(it, it.to_z3(args[0]), it.to_z3(args[1], "int")), "bytes")


_B = __import__("pyvc.contract", fromlist=["Bytes"]).Bytes
_U = __import__("pyvc.contract", fromlist=["Union"]).Union
_N = __import__("pyvc.contract", fromlist=["NoneT"]).NoneT
CONTRACTS.append(Contract(
    "pbkdf1", f"{DG}::pbkdf1",
    params={"digest": Const("sha1"), "secret": _B(), "salt": _B(), "rounds": Int(), "keylen": _U(_N(), Int())},
    setup=_hmac_setup,
    specs={"iterate": _iter_spec},
    loops={"pbkdf1#0": Loop(invariant=["block == iterate(secret + salt, __i0__)", "0 <= __i0__"], modifies=["block", "_"])},
    raises_iff={"ValueError": "rounds < 1 or (keylen is not None and (keylen < 0 or keylen > digest_size))"},
    ensures=[("DK == H^rounds(secret || salt) truncated to keylen (the digest size when keylen is None)",
              "result == iterate(secret + salt, rounds)[0:(digest_size if keylen is None else keylen)]")],
    descr="abstract hash, every secret / salt, every rounds, every keylen (incl. refusals)",
))


def _pad_tables():
    t36 = extract_const(DG, "_TRANS_36")
    t5c = extract_const(DG, "_TRANS_5C")
    fails = []
    for x in range(256):
        if t36[x] != x ^ 0x36 or t5c[x] != x ^ 0x5C:
            fails.append({"key": "hmac-pad-table", "what": "pad table entry differs from x ^ 0x36 / x ^ 0x5C", "witness": {"x": x, "ipad": t36[x], "opad": t5c[x]}})
    if len(t36) != 256 or len(t5c) != 256:
        fails.append({"key": "hmac-pad-table-len", "what": "pad table length", "witness": {}})
    return {"cases": 512, "failures": fails[:3], "samples": [{"x": 0, "ipad": t36[0], "opad": t5c[0]}]}


FINITE = [Finite("hmac-pad-tables", _pad_tables, "_TRANS_36[x] == x ^ 0x36 and _TRANS_5C[x] == x ^ 0x5C for all 256 byte values (RFC 2104 ipad/opad)")]

BOUNDED = [Bounded("c11", "harness/c11.py", descr="DES / bcrypt core / MD4 splits / scrypt / HMAC / PBKDF / SASLprep vs independent references", timeout=900)]

MUTANTS = [
    ("md4: wrong shift in round 2 table", M, "        [3, 0, 1, 2, 4, 5],\n", "        [3, 0, 1, 2, 4, 7],\n", "refute"),
    ("md4: round 3 constant", M, "0x6ED9EBA1", "0x6ED9EBA2", "refute"),
    ("md4: G majority broken", M, "    return (x & y) | (x & z) | (y & z)\n", "    return (x & y) | (x & z) | (y ^ z)\n", "refute"),
    ("md4: rotate uses 31 - s", M, "            state[a] = ((t << s) & MASK_32) + (t >> (32 - s))\n\n        # round 2", "            state[a] = ((t << s) & MASK_32) + (t >> (31 - s))\n\n        # round 2", "refute"),
    ("md4: add-back skips a register", M, "        for i in range(4):\n            orig[i] = (orig[i] + state[i]) & MASK_32", "        for i in range(3):\n            orig[i] = (orig[i] + state[i]) & MASK_32", "refute"),
    ("salsa: rotation constant", SALSA, "        v8 ^= ((t & 0x007FFFFF) << 9) | (t >> 23)\n\n        # salsa op 2:", "        v8 ^= ((t & 0x007FFFFF) << 9) | (t >> 22)\n\n        # salsa op 2:", "refute"),
    ("salsa: wrong operand", SALSA, "        t = (v13 + v9) & 0xFFFFFFFF\n        v1 ^=", "        t = (v13 + v5) & 0xFFFFFFFF\n        v1 ^=", "refute"),
    ("salsa: three double rounds", SALSA, "    while i < 4:\n", "    while i < 3:\n", "refute"),
    ("salsa: final add misses mask", SALSA, "    b7 = (b7 + v7) & 0xFFFFFFFF\n", "    b7 = (b7 + v7) & 0xFFFFFFF\n", "refute"),
    ("md4: round 1 table row dropped", M, "        [3, 0, 1, 2, 13, 7],\n", "", "refute"),
    ("shrink_des_key: drops parity from the wrong end", DES, "    key >>= 1\n    result = 0\n", "    key >>= 0\n    result = 0\n", "refute"),
    ("shrink_des_key: 6 bit groups", DES, "        result |= (key & 0x7F) << offset\n", "        result |= (key & 0x3F) << offset\n", "refute"),
    ("expand_des_key: shift table start", DES, "_EXPAND_ITER = range(49, -7, -7)\n", "_EXPAND_ITER = range(48, -8, -7)\n", "refute"),
    ("scrypt.validate: accepts n == 1", SC, "    if n < 2 or n & (n - 1):\n", "    if n < 1 or n & (n - 1):\n", "refute"),
    ("scrypt.validate: r*p bound off by one", SC, "    if r * p > MAX_RP:\n", "    if r * p > MAX_RP + 1:\n", "refute"),
    ("hmac: a key of exactly one block is hashed", DG, "    if klen > block_size:\n        key = const(key).digest()", "    if klen >= block_size:\n        key = const(key).digest()", "refute", "compile_hmac"),
    ("hmac: inner and outer pads swapped", DG, "    _inner_copy = const(key.translate(_TRANS_36)).copy\n    _outer_copy = const(key.translate(_TRANS_5C)).copy", "    _inner_copy = const(key.translate(_TRANS_5C)).copy\n    _outer_copy = const(key.translate(_TRANS_36)).copy", "refute", "compile_hmac"),
    ("hmac: opad table constant", DG, "_TRANS_5C = bytes((x ^ 0x5C) for x in range(256))", "_TRANS_5C = bytes((x ^ 0x5D) for x in range(256))", "refute", "hmac"),
    ("md4: padding length formula off at 55 mod 64", M, "            + b\"\\x00\" * ((119 - len(buf)) % 64)\n", "            + b\"\\x00\" * (64 - (len(buf) + 9) % 64)\n", "refute", "md4.digest"),
    ("md4: state not restored after digest", M, "        self._state = orig\n        return out", "        return out", "refute", "md4.digest"),
    ("md4: harmless F rewrite", M, "    return (x & y) | ((~x) & z)\n", "    return ((~x) & z) | (y & x)\n", "hold"),
    ("md4.copy forgets the block count", M, "        other = md4()\n        other._count = self._count\n", "        other = md4()\n", "refute", "md4.copy"),
    ("md4.copy shares the state list", M, "        other._state = list(self._state)", "        other._state = self._state", "refute", "md4.copy"),
    ("hmac: a text key is measured in characters", DG, "    if not isinstance(key, bytes):\n        key = to_bytes(key, param=\"key\")\n    klen = len(key)\n", "    klen = len(key)\n    if not isinstance(key, bytes):\n        key = to_bytes(key, param=\"key\")\n", "refute", "text key"),
    ("md4.update: an exact final block stays in the buffer", M, "            if next <= end:\n                self._process(content[idx:next])", "            if next < end:\n                self._process(content[idx:next])", "refute", "md4.update"),
    ("md4.update: block count not advanced", M, "                self._process(content[idx:next])\n                self._count += 1\n", "                self._process(content[idx:next])\n", "refute", "md4.update"),
    ("md4.update: buffered bytes appended after the new content", M, "            content = buf + content", "            content = content + buf", "refute", "md4.update"),
    ("pbkdf1: one round short", DG, "    for _ in range(rounds):\n        block = const(block).digest()", "    for _ in range(rounds - 1):\n        block = const(block).digest()", "refute", "pbkdf1"),
    ("pbkdf1: zero rounds accepted", DG, "    if rounds < 1:\n        raise ValueError(\"rounds must be at least 1\")", "    if rounds < 0:\n        raise ValueError(\"rounds must be at least 1\")", "refute", "pbkdf1"),
    ("pbkdf1: salt before secret", DG, "    block = secret + salt\n", "    block = salt + secret\n", "refute", "pbkdf1"),
    ("hmac multipart: the outer hash is shared between finalize() calls", DG, "            def finalize():\n                outer = _outer_copy()\n                outer.update(inner.digest())", "            outer = _outer_copy()\n\n            def finalize():\n                outer.update(inner.digest())", "refute", "multipart"),
]
