"""Bounded stand-in for C07: hash strings parse and re-render without loss.

Sweeps every registered hasher over a generated settings space (gen_hashes.py): the settings are chosen here, the
string is produced by the hasher, and the parser must give the settings back and render the same string
(or the documented canonical form: hex case, bcrypt padding bits).  libpass inspect_* helpers and PHC records
are driven over generated field values.
"""
import dataclasses
import re
import time
from typing import Annotated, Literal

from common import Group, main, outcome

import gen_hashes as G

HEXDIGITS = "0123456789abcdefABCDEF"
BCRYPT64 = "./ABCDEFGHIJKLMNOPQRSTUVWXYZabcdefghijklmnopqrstuvwxyz0123456789"


def _eq_algs(got, want):
    return list(got or []) == sorted(want.split(","))


def expected_attrs(sample):
    """attribute name -> expected value, from the settings that made the hash (never from the parser)"""
    st = sample.settings
    exp = {}
    for k in ("rounds", "salt", "ident", "variant", "version", "block_size", "parallelism", "bare_salt"):
        if k in st and st[k] is not None:
            exp[k] = st[k]
    return exp


def verify_both(info, secret, hs):
    """(verify(secret), verify(WRONG)) for a stored hash"""
    h = info.h
    ctx = info.ctx()
    return h.verify(secret, hs, **ctx), h.verify(G.WRONG, hs, **ctx)


def hex_case_hashers(infos):
    import passlib.utils.handlers as uh

    names = set()
    for info in infos:
        cc = getattr(info.base, "checksum_chars", None)
        if cc in (uh.HEX_CHARS, uh.UPPER_HEX_CHARS, uh.LOWER_HEX_CHARS) or info.name in ("mssql2000", "mssql2005", "grub_pbkdf2_sha512", "htdigest"):
            names.add(info.name)
    return names


def hex_suffix_variants(s):
    """re-encodings of the trailing hex run in other letter cases"""
    m = re.search(r"[0-9a-fA-F]+$", s)
    if not m or not re.search(r"[a-fA-F]", m.group(0)):
        return []
    head, tail = s[: m.start()], m.group(0)
    out = []
    for v in (tail.upper(), tail.lower(), tail.swapcase(), tail[: len(tail) // 2].upper() + tail[len(tail) // 2 :].lower()):
        if head + v != s and head + v not in out:
            out.append(head + v)
    return out


def config_candidates(info, sample, obj):
    """strings obtained from the hash by dropping the digest (with and without its separator)"""
    s = sample.hash
    inner = info.unwrap(s)
    chk = obj.checksum
    cands = []
    if isinstance(chk, str) and chk and inner.endswith(chk):
        cut = inner[: -len(chk)]
        if cut.endswith("$"):
            cands.append(("no-digest-no-sep", cut[:-1]))
            if info.base.name != "sun_md5_crypt":  # there "<salt>$" is the config of the *other* ($$) form
                cands.append(("no-digest", cut))
        else:
            cands.append(("no-digest", cut))
    elif "$" in inner and not isinstance(chk, str):
        cut = inner[: inner.rindex("$")]
        cands.append(("no-digest-no-sep", cut))
        cands.append(("no-digest", cut + "$"))
    return [(k, info.wrap(c)) for k, c in cands if c]


def build(tier, rng):

    groups = []
    infos, skipped = G.list_handlers()
    notes = []
    hexcase = hex_case_hashers(infos)
    samples_by = {}
    t_gen = time.time()
    for info in infos:
        samples_by[info.name] = G.generate(info, tier, rng, notes)
    t_gen = time.time() - t_gen

    # ------------------------------------------------------------------------------------------------
    g = Group(
        "parse-render-roundtrip",
        "GenericHandler.from_string/to_string",
        "every registered hasher with a backend x rounds {min, min+1, implicit/elided default, +1, cheap larger} x a salt of every size min..min(max,24) + alphabet-edge salts (des family: every symbol) x all idents/variants/versions/block_size/parallelism/bare_salt/algs x str and ASCII bytes: render(parse(s)) == s, idempotent, parsed settings == settings used, parsehash agrees, verify(right)/verify(wrong), genhash fixpoint",
    )
    for info in infos:
        name = info.name
        h = info.h
        for sm in samples_by[name]:
            s = sm.hash
            w = sm.witness()
            g.case(sm.ident())
            if not isinstance(s, str):
                g.fail(f"hash-type:{name}", "hash() did not return a native str", w)
                continue
            # sun_md5_crypt: "$md5$" + "" + "$" + digest reads back as the "$$" form with an empty salt (own witness class)
            sub = ""
            if name.endswith("sun_md5_crypt") and sm.settings.get("bare_salt") and sm.settings.get("salt") == "":
                sub = ":bare-empty-salt"
            # implicit / elided encodings really are elided
            if name in G.IMPLICIT_ROUNDS and sm.settings.get("rounds") == G.IMPLICIT_ROUNDS[name]:
                g.check("rounds=" not in s and (name != "dlitz_pbkdf2_sha1" or s.startswith("$p5k2$$")), f"implicit-rounds:{name}", "default rounds were not elided from the rendered string", w)
            # verification of the produced string
            o = outcome(verify_both, info, sm.secret, s)
            disabled = bool(getattr(h, "is_disabled", False))
            want = ("ok", (False, False)) if disabled else ("ok", (True, False))
            g.check(o == want, f"verify:{name}{sub}", "produced hash: right password must verify, wrong must not", {**w, "outcome": repr(o)})
            ob = outcome(verify_both, info, sm.secret, s.encode("ascii")) if s.isascii() else o
            g.check(ob == o, f"verify-bytes:{name}", "ASCII-bytes hash verifies differently from the str hash", {**w, "str": repr(o), "bytes": repr(ob)})
            if not info.is_generic:
                # no parser: genhash is the only re-render route
                if hasattr(h, "genhash") and not disabled:
                    o = outcome(h.genhash, sm.secret, s, **info.ctx())
                    g.check(o == ("ok", s), f"genhash:{name}", "genhash(secret, hash) != hash", {**w, "outcome": repr(o)})
                continue
            # parse / render
            o = outcome(info.parse, s)
            if not g.check(o[0] == "ok", f"parse:{name}:{o[1] if o[0] == 'exc' else ''}", "from_string refused a hash the hasher produced", {**w, "outcome": repr(o)}):
                continue
            obj = o[1]
            o = outcome(lambda: info.wrap(obj.to_string()))
            if not g.check(o[0] == "ok", f"render:{name}", "to_string failed on a parsed hash", {**w, "outcome": repr(o)}):
                continue
            r = o[1]
            g.check(r == s, f"roundtrip:{name}{sub}", "to_string(from_string(s)) != s", {**w, "rendered": r})
            o2 = outcome(lambda: info.wrap(info.parse(r).to_string()))
            g.check(o2 == ("ok", r), f"idempotent:{name}{sub}", "second parse/render differs from the first", {**w, "first": r, "second": repr(o2)})
            if s.isascii():
                o3 = outcome(lambda: info.wrap(info.parse(s.encode("ascii")).to_string()))
                g.check(o3 == ("ok", r), f"roundtrip-bytes:{name}", "ASCII-bytes input renders differently from str input", {**w, "str": r, "bytes": repr(o3)})
            # settings
            for k, v in expected_attrs(sm).items():
                got = getattr(obj, k, "<missing>")
                g.check(got == v and type(got) is type(v), f"attr:{name}:{k}{sub}", f"parsed {k} is not the {k} used to make the hash", {**w, "attr": k, "got": repr(got), "want": repr(v)})
            if "algs" in sm.settings:
                g.check(_eq_algs(obj.algs, sm.settings["algs"]), f"attr:{name}:algs", "parsed algs differ from those used", {**w, "got": repr(obj.algs)})
            if name in G.IMPLICIT_ROUNDS and hasattr(obj, "implicit_rounds"):
                g.check(obj.implicit_rounds == (sm.settings["rounds"] == 5000), f"attr:{name}:implicit_rounds", "implicit_rounds flag wrong", w)
            g.check(obj.checksum is not None or disabled, f"attr:{name}:checksum", "parsed hash has no digest", w)
            # parsehash
            ph = getattr(info.base, "parsehash", None)
            if ph is not None:
                o = outcome(ph, info.unwrap(s))
                if g.check(o[0] == "ok" and isinstance(o[1], dict), f"parsehash:{name}", "parsehash failed on a produced hash", {**w, "outcome": repr(o)}):
                    d = o[1]
                    for k, v in expected_attrs(sm).items():
                        if k in d:
                            g.check(d[k] == v, f"parsehash:{name}:{k}{sub}", f"parsehash reports a different {k}", {**w, "got": repr(d[k]), "want": repr(v)})
                        elif k in ("salt", "rounds"):
                            g.check(v == getattr(info.base, k, None), f"parsehash-missing:{name}:{k}", f"parsehash omits {k} although it differs from the class default", {**w, "keys": sorted(d)})
                    if obj.checksum is not None:
                        g.check(d.get("checksum") == obj.checksum, f"parsehash:{name}:checksum", "parsehash digest differs from the parsed digest", w)
            # the re-rendered string verifies the same passwords
            if r != s:
                o = outcome(verify_both, info, sm.secret, r)
                g.check(o == want, f"verify-rendered:{name}{sub}", "re-rendered string does not verify the same passwords", {**w, "rendered": r, "outcome": repr(o)})
            # genhash: parse + recompute + render (public route through PrefixWrapper too)
            if hasattr(h, "genhash") and not disabled:
                o = outcome(h.genhash, sm.secret, s, **info.ctx())
                g.check(o == ("ok", s), f"genhash:{name}{sub}", "genhash(secret, hash) != hash", {**w, "outcome": repr(o)})
    g._elapsed = time.time() - g.t0
    groups.append(g)

    # ------------------------------------------------------------------------------------------------
    g = Group(
        "canonical-forms",
        "StaticHandler._norm_hash / bcrypt padding repair",
        "hex-digest formats: upper/lower/swapped/half-half case of the hex run; explicit spelling of elided default rounds (sha-crypt rounds=5000, dlitz $190$) and upper-case hex rounds (cta/dlitz); bcrypt family: every value of the padding bits of the 22nd salt character and of the last digest character: if accepted, renders to the canonical string (bit arithmetic oracle), idempotent, verifies the same passwords",
    )
    canon = {"hexcase_accepted": 0, "hexcase_refused": 0, "padding_accepted": 0, "padding_refused": 0}
    for info in infos:
        name = info.name
        if name in hexcase:
            for sm in samples_by[name][: (4 if tier == "quick" else 16)]:
                for v in hex_suffix_variants(sm.hash):
                    w = {**sm.witness(), "variant": v}
                    g.case((name, v))
                    if info.is_generic:
                        o = outcome(lambda: info.wrap(info.parse(v).to_string()))
                        if o[0] == "exc" and o[3]:
                            canon["hexcase_refused"] += 1
                            continue  # this letter case is not accepted: outside "well-formed hash it accepts"
                        canon["hexcase_accepted"] += 1
                        g.check(o == ("ok", sm.hash), f"hexcase-render:{name}", "accepted letter-case variant does not render to the canonical string", {**w, "outcome": repr(o)})
                    o = outcome(verify_both, info, sm.secret, v)
                    if o[0] == "exc" and o[3]:
                        continue
                    g.check(o == ("ok", (True, False)), f"hexcase-verify:{name}", "accepted letter-case variant verifies differently", {**w, "outcome": repr(o)})
        if name.replace("ldap_", "").replace("django_", "") in ("bcrypt", "bcrypt_sha256"):
            for sm in samples_by[name][: (3 if tier == "quick" else 12)]:
                s = sm.hash
                salt = sm.settings["salt"]
                at = s.index(salt) + 21
                for which, pos, mask in (("salt", at, 0x30), ("digest", len(s) - 1, 0x3C)):
                    i0 = BCRYPT64.index(s[pos])
                    for pad in range(64):
                        if pad & mask:
                            continue
                        c = BCRYPT64[(i0 & mask) | pad]
                        v = s[:pos] + c + s[pos + 1 :]
                        if v == s:
                            continue
                        w = {**sm.witness(), "variant": v, "field": which}
                        g.case((name, which, v))
                        o = outcome(lambda: info.wrap(info.parse(v).to_string()))
                        if o[0] == "exc" and o[3]:
                            canon["padding_refused"] += 1
                            continue  # refusing set padding bits is also within the property
                        canon["padding_accepted"] += 1
                        g.check(o == ("ok", s), f"padding-render:{name}:{which}", "set padding bits accepted but not repaired to the canonical string", {**w, "outcome": repr(o)})
                        o = outcome(verify_both, info, sm.secret, v)
                        if o[0] == "exc" and o[3]:
                            continue
                        g.check(o == ("ok", (True, False)), f"padding-verify:{name}:{which}", "padding-bit variant verifies differently from the canonical string", {**w, "outcome": repr(o)})
        # explicit spelling of an elidable default (sha-crypt rounds=5000, dlitz hex 190 = 400) and upper-case hex rounds
        if name in G.IMPLICIT_ROUNDS or name in ("cta_pbkdf2_sha1", "dlitz_pbkdf2_sha1"):
            for sm in samples_by[name]:
                s = sm.hash
                inner = info.unwrap(s)
                variants = []
                dflt = G.IMPLICIT_ROUNDS.get(name)
                if sm.settings.get("rounds") == dflt and dflt:
                    if name.endswith(("sha256_crypt", "sha512_crypt")):
                        variants.append(("explicit-default", info.wrap(inner[:3] + f"rounds={dflt}$" + inner[3:]), True))
                    elif name == "dlitz_pbkdf2_sha1":
                        variants.append(("explicit-default", s.replace("$p5k2$$", "$p5k2$%x$" % dflt, 1), False))
                if "p5k2" in name or name in ("cta_pbkdf2_sha1", "dlitz_pbkdf2_sha1"):
                    rs = inner.split("$")[2]
                    if rs != rs.upper():
                        variants.append(("upper-hex-rounds", s.replace(f"$p5k2${rs}$", f"$p5k2${rs.upper()}$", 1), False))
                for vk, v, keeps in variants:
                    w = {**sm.witness(), "variant": v, "kind": vk}
                    g.case((name, vk, v))
                    o = outcome(lambda: info.wrap(info.parse(v).to_string()))
                    if o[0] == "exc" and o[3]:
                        canon[vk + "_refused"] = canon.get(vk + "_refused", 0) + 1
                        continue
                    canon[vk + "_accepted"] = canon.get(vk + "_accepted", 0) + 1
                    g.check(o[0] == "ok" and o[1] in ((v, s) if keeps else (s,)), f"{vk}-render:{name}", "accepted alternative spelling renders to neither itself nor the canonical string", {**w, "outcome": repr(o)})
                    po = outcome(info.parse, v)
                    g.check(po[0] == "ok" and po[1].rounds == sm.settings["rounds"] and po[1].salt == sm.settings["salt"], f"{vk}-attrs:{name}", "alternative spelling parses to different settings", {**w, "outcome": repr(po)})
                    o = outcome(verify_both, info, sm.secret, v)
                    g.check(o == ("ok", (True, False)), f"{vk}-verify:{name}", "alternative spelling verifies differently from the canonical string", {**w, "outcome": repr(o)})
    g._elapsed = time.time() - g.t0
    groups.append(g)

    # ------------------------------------------------------------------------------------------------
    g = Group(
        "config-and-bare-salt-forms",
        "GenericHandler.from_string (config strings)",
        "every generated hash with its digest removed (with / without the separator): where the format accepts it, parsed settings == settings used, digest None, render is a fixpoint that parses to the same settings, genhash(secret, config) == the full hash; str and bytes",
    )
    accepted_cfg = set()
    for info in infos:
        if not info.is_generic:
            continue
        name = info.name
        for sm in samples_by[name]:
            try:
                obj = info.parse(sm.hash)
            except Exception:  # noqa: BLE001  (already reported by the first group)
                continue
            for kind, cfg in config_candidates(info, sm, obj):
                w = {**sm.witness(), "config": cfg, "form": kind}
                o = outcome(info.parse, cfg)
                if o[0] == "exc":
                    g.case((name, kind, "refused"), nontrivial=False)
                    g.check(o[3], f"config-internal-error:{name}:{o[1]}", "config string raised an internal error", {**w, "outcome": repr(o)})
                    continue
                g.case((name, kind, cfg))
                accepted_cfg.add((name, kind))
                cobj = o[1]
                sub = ":bare-empty-salt" if name.endswith("sun_md5_crypt") and sm.settings.get("bare_salt") and sm.settings.get("salt") == "" else ""
                if cobj.checksum is not None:
                    # the shortened string is itself a complete hash of this format (e.g. bigcrypt blocks): not a config
                    continue
                for k, v in expected_attrs(sm).items():
                    got = getattr(cobj, k, "<missing>")
                    g.check(got == v, f"config-attr:{name}:{k}{sub}", f"config string parses to a different {k}", {**w, "got": repr(got), "want": repr(v)})
                o = outcome(lambda: info.wrap(cobj.to_string()))
                if o[0] == "ok" and isinstance(o[1], str):
                    r = o[1]
                    o2 = outcome(lambda: info.parse(r))
                    if r.endswith("None") and not cfg.endswith("None"):
                        g.fail(f"config-render-none:{name}", "to_string() of a parsed digest-less string renders the literal text 'None' in the digest position", {**w, "rendered": r, "reparse": repr(o2)})
                    elif g.check(o2[0] == "ok", f"config-reparse:{name}", "rendered config string is refused", {**w, "rendered": r, "outcome": repr(o2)}):
                        same = all(getattr(o2[1], k, None) == v for k, v in expected_attrs(sm).items()) and o2[1].checksum is None
                        g.check(same, f"config-fixpoint:{name}{sub}", "rendered config parses to different settings", {**w, "rendered": r})
                        o3 = outcome(lambda: info.wrap(o2[1].to_string()))
                        g.check(o3 == ("ok", r), f"config-idempotent:{name}", "config render is not idempotent", {**w, "first": r, "second": repr(o3)})
                elif o[0] == "exc":
                    g.check(o[3], f"config-render:{name}:{o[1]}", "to_string of a parsed config raised an internal error", {**w, "outcome": repr(o)})
                if hasattr(info.h, "genhash"):
                    o = outcome(info.h.genhash, sm.secret, cfg, **info.ctx())
                    g.check(o == ("ok", sm.hash), f"config-genhash:{name}{sub}", "genhash(secret, config) != hash made with the same settings", {**w, "outcome": repr(o)})
                    ob = outcome(info.h.genhash, sm.secret, cfg.encode("ascii"), **info.ctx())
                    g.check(ob == o, f"config-genhash-bytes:{name}", "bytes config gives a different result", {**w, "str": repr(o), "bytes": repr(ob)})
    g._elapsed = time.time() - g.t0
    groups.append(g)

    # ------------------------------------------------------------------------------------------------
    g = Group(
        "prefix-wrappers",
        "PrefixWrapper._wrap_hash/_unwrap_hash",
        "every PrefixWrapper hasher x its generated hashes: the inner string (prefix swapped for orig_prefix) is a hash of the wrapped hasher with the same settings and verifies there; a hash made by the wrapped hasher, re-prefixed, verifies through the wrapper; identify both ways",
    )
    for info in infos:
        if not info.is_wrapper:
            continue
        name = info.name
        wrapped = info.h.wrapped
        ctx = info.ctx()
        for sm in samples_by[name]:
            s = sm.hash
            w = sm.witness()
            g.case(sm.ident())
            if not g.check(s.startswith(info.h.prefix), f"wrap-prefix:{name}", "wrapper hash lacks the wrapper prefix", w):
                continue
            inner = info.unwrap(s)
            o = outcome(lambda: (wrapped.identify(inner), wrapped.verify(sm.secret, inner, **ctx), wrapped.verify(G.WRONG, inner, **ctx)))
            g.check(o == ("ok", (True, True, False)), f"wrap-inner:{name}", "inner string is not a valid hash of the wrapped hasher", {**w, "inner": inner, "outcome": repr(o)})
            o = outcome(info.h.identify, s)
            g.check(o == ("ok", True), f"wrap-identify:{name}", "wrapper does not identify its own hash", {**w, "outcome": repr(o)})
            if info.h.prefix and not inner.startswith(info.h.prefix):
                o = outcome(info.h.identify, inner)
                g.check(o == ("ok", False), f"wrap-identify-inner:{name}", "wrapper identifies the bare inner hash", {**w, "inner": inner, "outcome": repr(o)})
        # other direction: wrapped hasher's hash, re-prefixed
        try:
            winfo = G.Info(wrapped.name, wrapped)
            wsm = G.cheapest(winfo, rng)
        except Exception as err:  # noqa: BLE001
            notes.append(f"{name}: could not make a hash with the wrapped hasher ({type(err).__name__})")
            wsm = None
        if wsm is not None and wsm.hash.startswith(info.h.orig_prefix):
            outer = info.wrap(wsm.hash)
            g.case((name, "outer", outer))
            o = outcome(lambda: (info.h.identify(outer), info.h.verify(wsm.secret, outer, **ctx), info.h.verify(G.WRONG, outer, **ctx)))
            g.check(o == ("ok", (True, True, False)), f"wrap-outer:{name}", "re-prefixed hash of the wrapped hasher is not accepted by the wrapper", {"hasher": name, "hash": outer, "secret": wsm.secret, "outcome": repr(o)})
    g._elapsed = time.time() - g.t0
    groups.append(g)

    for fn in (libpass_inspect_group, phc_group):
        g = fn(tier, rng, samples_by, skipped)
        g._elapsed = time.time() - g.t0
        groups.append(g)
    host = {"generation_seconds": round(t_gen, 2), "generated_hashes": sum(len(v) for v in samples_by.values()), "config_forms_accepted": sorted(f"{a}:{b}" for a, b in accepted_cfg), "canonical_forms": canon}
    # refusals by the hasher (e.g. bcrypt $2x$) are part of the skipped list, compressed
    seen = set()
    for n in notes:
        k = re.sub(r"\{.*\}", "{..}", n)
        if k not in seen:
            seen.add(k)
            skipped.append(n)
    now = time.time()
    for g in groups:
        g.t0 = now - g._elapsed  # Group.out() reports now - t0: the time spent in this group alone
    return groups, skipped, host


# ----------------------------------------------------------------------------------------------------
H64 = "./0123456789ABCDEFGHIJKLMNOPQRSTUVWXYZabcdefghijklmnopqrstuvwxyz"
AB64 = "./ABCDEFGHIJKLMNOPQRSTUVWXYZabcdefghijklmnopqrstuvwxyz0123456789"


def _field(rng, alphabet, n, edge=None):
    if edge == "lo":
        return alphabet[0] * n
    if edge == "hi":
        return alphabet[-1] * n
    return "".join(rng.choice(alphabet) for _ in range(n))


def libpass_inspect_group(tier, rng, samples_by, skipped):
    g = Group(
        "libpass-inspect-records",
        "libpass.inspect.inspect_sha_crypt/inspect_bcrypt_hash/inspect_pbkdf2_hash",
        "records over generated field values (rounds incl. None/1-digit/large, salts of every allowed length, first/last alphabet symbols): inspect(x.as_str()) == x; strings produced by passlib's sha256/sha512_crypt, bcrypt, pbkdf2_sha256/512 and by the libpass hashers: inspect(s).as_str() == s and the record carries the settings used",
    )
    try:
        from libpass.inspect.bcrypt import BcryptHashInfo, inspect_bcrypt_hash
        from libpass.inspect.pbkdf2 import PBKDF2SHA256CryptInfo, PBKDF2SHA512CryptInfo, inspect_pbkdf2_hash
        from libpass.inspect.sha_crypt import SHA256CryptInfo, SHA512CryptInfo, inspect_sha_crypt
    except Exception as err:  # noqa: BLE001
        skipped.append(f"libpass.inspect: import failed ({type(err).__name__}: {err})")
        return g
    n_rand = 40 if tier == "quick" else 400
    # ---- sha-crypt records
    for cls, hlen, tag in ((SHA256CryptInfo, 43, "sha256"), (SHA512CryptInfo, 86, "sha512")):
        recs = []
        for rounds in (None, 1000, 1001, 5000, 9, 535000, 999999999):
            for slen in range(1, 17):
                recs.append(cls(rounds=rounds, salt=_field(rng, H64, slen), hash=_field(rng, H64, hlen)))
            for e in ("lo", "hi"):
                recs.append(cls(rounds=rounds, salt=_field(rng, H64, 16, e), hash=_field(rng, H64, hlen, e)))
        for _ in range(n_rand):
            recs.append(cls(rounds=rng.choice([None, rng.randrange(1000, 10**9)]), salt=_field(rng, H64, rng.randrange(1, 17)), hash=_field(rng, H64, hlen)))
        for x in recs:
            g.case((tag, x.rounds, x.salt, x.hash))
            o = outcome(lambda: inspect_sha_crypt(x.as_str(), cls))
            key = f"inspect-record:sha_crypt:{tag}" + (":rounds-none" if x.rounds is None else "")
            g.check(o == ("ok", x), key, "inspect_sha_crypt(x.as_str()) != x", {"record": repr(x), "as_str": outcome(x.as_str)[1], "outcome": repr(o)})
        # strings from passlib
        pname = f"{tag}_crypt"
        for sm in samples_by.get(pname, []):
            s = sm.hash
            g.case((tag, "passlib", s))
            o = outcome(inspect_sha_crypt, s, cls)
            w = sm.witness()
            if sm.settings["salt"] == "":
                g.check(o[0] == "ok", f"inspect-string:sha_crypt:{tag}:empty-salt", "inspect raised on an empty-salt hash", {**w, "outcome": repr(o)})
                continue  # libpass documents salts of 1..16 characters; None is an answer
            if not g.check(o[0] == "ok" and o[1] is not None, f"inspect-string:sha_crypt:{tag}:unrecognised", "inspect_sha_crypt does not recognise a sha-crypt hash made by passlib", {**w, "outcome": repr(o)}):
                continue
            x = o[1]
            implicit = sm.settings["rounds"] == 5000
            g.check(x.salt == sm.settings["salt"] and (x.rounds == sm.settings["rounds"] or (implicit and x.rounds is None)), f"inspect-string:sha_crypt:{tag}:fields", "record fields differ from the settings used", {**w, "record": repr(x)})
            o = outcome(x.as_str)
            g.check(o == ("ok", s), f"inspect-string:sha_crypt:{tag}:render" + (":implicit-rounds" if implicit else ""), "inspect(s).as_str() != s", {**w, "outcome": repr(o)})
    # ---- bcrypt records
    recs = []
    for prefix in ("2a", "2b", "2y"):
        for rounds in (4, 5, 9, 10, 12, 31, 0, 99):
            recs.append(BcryptHashInfo(prefix=prefix, rounds=rounds, salt=_field(rng, BCRYPT64, 22), hash=_field(rng, BCRYPT64, 31)))
        for e in ("lo", "hi"):
            recs.append(BcryptHashInfo(prefix=prefix, rounds=12, salt=_field(rng, BCRYPT64, 22, e), hash=_field(rng, BCRYPT64, 31, e)))
    for _ in range(n_rand):
        recs.append(BcryptHashInfo(prefix=rng.choice(["2a", "2b", "2y"]), rounds=rng.randrange(4, 32), salt=_field(rng, BCRYPT64, 22), hash=_field(rng, BCRYPT64, 31)))
    for x in recs:
        g.case(("bcrypt", x.prefix, x.rounds, x.salt, x.hash))
        o = outcome(lambda: inspect_bcrypt_hash(x.as_str()))
        g.check(o == ("ok", x), "inspect-record:bcrypt", "inspect_bcrypt_hash(x.as_str()) != x", {"record": repr(x), "as_str": x.as_str(), "outcome": repr(o)})
        g.check(x.bcrypt_salt == x.as_str()[:29].encode(), "inspect-record:bcrypt:salt", "bcrypt_salt is not the 29-character salt prefix of as_str()", {"record": repr(x)})
    for sm in samples_by.get("bcrypt", []):
        s = sm.hash
        if sm.settings["ident"] not in ("$2a$", "$2b$", "$2y$"):
            continue
        g.case(("bcrypt", "passlib", s))
        o = outcome(inspect_bcrypt_hash, s)
        w = sm.witness()
        if g.check(o[0] == "ok" and o[1] is not None, "inspect-string:bcrypt:unrecognised", "inspect_bcrypt_hash does not recognise a bcrypt hash", {**w, "outcome": repr(o)}):
            x = o[1]
            g.check((f"${x.prefix}$", x.rounds, x.salt) == (sm.settings["ident"], sm.settings["rounds"], sm.settings["salt"]), "inspect-string:bcrypt:fields", "record fields differ from the settings used", {**w, "record": repr(x)})
            g.check(x.as_str() == s, "inspect-string:bcrypt:render", "inspect(s).as_str() != s", {**w, "rendered": x.as_str()})
    # ---- pbkdf2 records
    for cls, hbytes, tag in ((PBKDF2SHA256CryptInfo, 32, "sha256"), (PBKDF2SHA512CryptInfo, 64, "sha512")):
        hlen = (hbytes * 8 + 5) // 6
        recs = []
        for rounds in (1, 2, 9, 10, 29000, 600000, 4294967295):
            for slen in list(range(1, 25)):
                recs.append(cls(rounds=rounds, salt=_field(rng, AB64, slen), hash=_field(rng, AB64, hlen)))
            for e in ("lo", "hi"):
                recs.append(cls(rounds=rounds, salt=_field(rng, AB64, 22, e), hash=_field(rng, AB64, hlen, e)))
        for x in recs:
            g.case(("pbkdf2", tag, x.rounds, x.salt, x.hash))
            o = outcome(lambda: inspect_pbkdf2_hash(x.as_str(), cls))
            g.check(o == ("ok", x), f"inspect-record:pbkdf2:{tag}", "inspect_pbkdf2_hash(x.as_str()) != x", {"record": repr(x), "as_str": x.as_str(), "outcome": repr(o)})
        other = PBKDF2SHA512CryptInfo if cls is PBKDF2SHA256CryptInfo else PBKDF2SHA256CryptInfo
        o = outcome(lambda: inspect_pbkdf2_hash(recs[0].as_str(), other))
        g.check(o == ("ok", None), f"inspect-record:pbkdf2:{tag}:wrong-digest", "record of one digest accepted under the other", {"as_str": recs[0].as_str(), "outcome": repr(o)})
        for sm in samples_by.get(f"pbkdf2_{tag}", []):
            s = sm.hash
            g.case(("pbkdf2", tag, "passlib", s))
            w = sm.witness()
            o = outcome(inspect_pbkdf2_hash, s, cls)
            if len(sm.settings["salt"]) == 0:
                g.check(o[0] == "ok", f"inspect-string:pbkdf2:{tag}:empty-salt", "inspect raised on an empty-salt hash", {**w, "outcome": repr(o)})
                continue
            if g.check(o[0] == "ok" and o[1] is not None, f"inspect-string:pbkdf2:{tag}:unrecognised", "inspect_pbkdf2_hash does not recognise a passlib pbkdf2 hash", {**w, "outcome": repr(o)}):
                x = o[1]
                g.check(x.rounds == sm.settings["rounds"], f"inspect-string:pbkdf2:{tag}:fields", "record rounds differ from the rounds used", {**w, "record": repr(x)})
                g.check(x.as_str() == s, f"inspect-string:pbkdf2:{tag}:render", "inspect(s).as_str() != s", {**w, "rendered": x.as_str()})
    # ---- strings from the libpass hashers themselves
    try:
        from libpass.hashers.pbkdf2 import PBKDF2SHA256Handler, PBKDF2SHA512Handler
        from libpass.hashers.sha_crypt import SHA256Hasher, SHA512Hasher

        made = []
        for H, cls, fn in ((SHA256Hasher, SHA256CryptInfo, inspect_sha_crypt), (SHA512Hasher, SHA512CryptInfo, inspect_sha_crypt)):
            for rounds in (1000, 1001, 5000):
                for slen in (1, 8, 16):
                    salt = _field(rng, H64, slen)
                    made.append((H.__name__, H(rounds=rounds).hash(G.PW, salt=salt), cls, fn, rounds, salt))
        for H, cls, fn in ((PBKDF2SHA256Handler, PBKDF2SHA256CryptInfo, inspect_pbkdf2_hash), (PBKDF2SHA512Handler, PBKDF2SHA512CryptInfo, inspect_pbkdf2_hash)):
            for rounds in (1, 2, 1000):
                for slen in (1, 16, 24):
                    made.append((H.__name__, H(rounds=rounds).hash(G.PW, salt=bytes(rng.randrange(256) for _ in range(slen))), cls, fn, rounds, None))
        for hname, s, cls, fn, rounds, salt in made:
            g.case((hname, s))
            o = outcome(fn, s, cls)
            w = {"hasher": f"libpass.{hname}", "hash": s, "rounds": rounds}
            if g.check(o[0] == "ok" and o[1] is not None, f"inspect-libpass:{hname}:unrecognised", "inspect does not recognise the hasher's own output under the hasher's own record class", {**w, "outcome": repr(o)}):
                x = o[1]
                g.check(x.rounds == rounds and (salt is None or x.salt == salt), f"inspect-libpass:{hname}:fields", "record fields differ from the settings used", {**w, "record": repr(x)})
                g.check(x.as_str() == s, f"inspect-libpass:{hname}:render", "inspect(s).as_str() != s", {**w, "rendered": x.as_str()})
    except ImportError as err:
        skipped.append(f"libpass.hashers sha_crypt/pbkdf2: import failed ({err})")
    try:
        import bcrypt as _bc
        from libpass.hashers.bcrypt import BcryptHasher

        for prefix in ("2a", "2b"):
            for rounds in (4, 5):
                s = BcryptHasher(rounds=rounds, prefix=prefix).hash(G.PW)
                g.case(("BcryptHasher", s))
                o = outcome(inspect_bcrypt_hash, s)
                ok = o[0] == "ok" and o[1] is not None and (o[1].prefix, o[1].rounds) == (prefix, rounds) and o[1].as_str() == s
                g.check(ok, "inspect-libpass:BcryptHasher", "inspect of the hasher's own output does not give back prefix/rounds/string", {"hash": s, "outcome": repr(o)})
        del _bc
    except Exception as err:  # noqa: BLE001
        skipped.append(f"libpass BcryptHasher: unavailable ({type(err).__name__}: {err})")
    return g


def phc_group(tier, rng, samples_by, skipped):
    g = Group(
        "phc-records",
        "libpass.inspect.phc.inspect_phc / PHC.as_str",
        "Argon2PHC, BcryptSHA256PHCV2 and two harness-defined definitions (with / without version, int and str parameters) x ids x generated parameter values x salt lengths 11..64 x hash lengths 16..86 incl. first/last alphabet symbols: inspect_phc(x.as_str()) == x and inspect_phc(s).as_str() == s; passlib bcrypt_sha256 v2 strings parse to the settings used",
    )
    try:
        from libpass.inspect.phc import PHC, Param, inspect_phc
        from libpass.inspect.phc.defs import Argon2PHC, BcryptSHA256PHCV2
    except Exception as err:  # noqa: BLE001
        skipped.append(f"libpass.inspect.phc: import failed ({type(err).__name__}: {err})")
        return g

    @dataclasses.dataclass
    class NoVersionPHC(PHC):
        id: Literal["x-test", "a", "abcdefghijklmnopqrstuvwxyz012345"]
        version = None
        cost: Annotated[int, Param("c")]
        label: Annotated[str, Param("long-param-name-0123456789abcdef")]

    @dataclasses.dataclass
    class VersionedPHC(PHC):
        id: Literal["x-test", "a"]
        version = 3
        cost: Annotated[int, Param("c")]

    SALT = "abcdefghijklmnopqrstuvwxyzABCDEFGHIJKLMNOPQRSTUVWXYZ0123456789/+.-"
    alph = "".join(sorted(SALT))

    def fields(slen, hlen, e=None):
        return _field(rng, alph, slen, e), _field(rng, alph, hlen, e)

    recs = []
    lens = [(11, 16), (12, 17), (22, 43), (64, 86), (63, 85)]
    if tier != "quick":
        lens += [(s, h) for s in range(11, 65, 3) for h in range(16, 87, 5)]
    for slen, hlen in lens:
        for e in (None, "lo", "hi"):
            for idv in ("argon2id", "argon2i", "argon2d"):
                s, h = fields(slen, hlen, e)
                recs.append((Argon2PHC, Argon2PHC(id=idv, salt=s, hash=h, memory_cost=rng.choice([8, 65536, 4194304]), time_cost=rng.choice([1, 2, 10]), parallelism_cost=rng.choice([1, 4, 255]))))
            s, h = fields(slen, hlen, e)
            recs.append((BcryptSHA256PHCV2, BcryptSHA256PHCV2(id="bcrypt-sha256", salt=s, hash=h, version_=2, type=rng.choice(["2b", "2a"]), rounds=rng.choice([4, 9, 10, 12, 31]))))
            for idv in ("x-test", "a", "abcdefghijklmnopqrstuvwxyz012345"):
                s, h = fields(slen, hlen, e)
                recs.append((NoVersionPHC, NoVersionPHC(id=idv, salt=s, hash=h, cost=rng.choice([0, 1, 7, 10**12]), label=_field(rng, alph, rng.randrange(1, 9), e))))
            for idv in ("x-test", "a"):
                s, h = fields(slen, hlen, e)
                recs.append((VersionedPHC, VersionedPHC(id=idv, salt=s, hash=h, cost=rng.choice([0, 5, 99]))))
    for cls, x in recs:
        g.case((cls.__name__, repr(x)))
        o = outcome(x.as_str)
        if not g.check(o[0] == "ok", f"phc-render:{cls.__name__}", "as_str raised", {"record": repr(x), "outcome": repr(o)}):
            continue
        s = o[1]
        has_v = len(s.split("$")) == 6  # "", id, [v=N], params, salt, hash
        g.check(has_v == (cls.version is not None), f"phc-version-field:{cls.__name__}", "optional version field rendered / elided wrongly", {"record": repr(x), "as_str": s})
        o = outcome(inspect_phc, s, cls)
        g.check(o == ("ok", x), f"phc-record:{cls.__name__}", "inspect_phc(x.as_str()) != x", {"record": repr(x), "as_str": s, "outcome": repr(o)})
        o = outcome(inspect_phc, s, [NoVersionPHC, VersionedPHC, Argon2PHC, BcryptSHA256PHCV2])
        g.check(o[0] == "ok" and type(o[1]) is cls and o[1] == x, f"phc-choose:{cls.__name__}", "definition chosen from a list is not the one matching id and version", {"as_str": s, "outcome": repr(o)})
        if o[0] == "ok" and o[1] is not None:
            g.check(o[1].as_str() == s, f"phc-string:{cls.__name__}", "inspect_phc(s).as_str() != s", {"as_str": s, "again": o[1].as_str()})
    # published argon2 / passlib bcrypt_sha256 strings: string -> record -> string
    fixed = [
        ("$argon2id$v=19$m=65536,t=2,p=1$c29tZXNhbHRzb21lc2FsdA$RdescudvJCsgt3ub+b+dWRWJTmaaJObG", Argon2PHC, {"memory_cost": 65536, "time_cost": 2, "parallelism_cost": 1, "id": "argon2id"}),
        ("$argon2i$v=19$m=16,t=2,p=1$c29tZXNhbHRzb21lc2FsdA$1GMoZWhFpB2hG5sH3h6OXg", Argon2PHC, {"memory_cost": 16, "time_cost": 2, "parallelism_cost": 1, "id": "argon2i"}),
        ("$argon2d$v=19$m=512,t=3,p=2$c29tZXNhbHRzb21lc2FsdA$1GMoZWhFpB2hG5sH3h6OXg", Argon2PHC, {"memory_cost": 512, "time_cost": 3, "parallelism_cost": 2, "id": "argon2d"}),
    ]
    for s, cls, want in fixed:
        g.case(("fixed", s))
        o = outcome(inspect_phc, s, cls)
        ok = o[0] == "ok" and o[1] is not None and all(getattr(o[1], k) == v for k, v in want.items()) and o[1].as_str() == s
        g.check(ok, f"phc-string:{cls.__name__}:published", "well-formed PHC string does not round-trip with its parameters", {"hash": s, "outcome": repr(o)})
    for sm in samples_by.get("bcrypt_sha256", []):
        if sm.settings.get("version") != 2:
            continue
        s = sm.hash
        g.case(("bcrypt_sha256", s))
        o = outcome(inspect_phc, s, BcryptSHA256PHCV2)
        w = sm.witness()
        if g.check(o[0] == "ok" and o[1] is not None, "phc-string:bcrypt_sha256:unrecognised", "passlib bcrypt_sha256 v2 hash not recognised as BcryptSHA256PHCV2", {**w, "outcome": repr(o)}):
            x = o[1]
            g.check((x.version_, f"${x.type}$", x.rounds, x.salt) == (2, sm.settings["ident"], sm.settings["rounds"], sm.settings["salt"]), "phc-string:bcrypt_sha256:fields", "record fields differ from the settings used", {**w, "record": repr(x)})
            g.check(x.as_str() == s, "phc-string:bcrypt_sha256:render", "inspect_phc(s).as_str() != s", {**w, "rendered": x.as_str()})
    try:
        from libpass.hashers.bcrypt import BcryptSHA256Hasher

        for rounds in (4, 5):
            s = BcryptSHA256Hasher(rounds=rounds).hash(G.PW)
            g.case(("BcryptSHA256Hasher", s))
            o = outcome(inspect_phc, s, BcryptSHA256PHCV2)
            ok = o[0] == "ok" and o[1] is not None and o[1].rounds == rounds and o[1].as_str() == s
            g.check(ok, "phc-string:BcryptSHA256Hasher", "the hasher's own output does not round-trip", {"hash": s, "outcome": repr(o)})
    except Exception as err:  # noqa: BLE001
        skipped.append(f"libpass BcryptSHA256Hasher: unavailable ({type(err).__name__}: {err})")
    return g


if __name__ == "__main__":
    main(build)
