"""C10, continued: _CryptConfig._init_options -- the internal option maps are exactly the source items, a later item
for the same slot replaces the earlier one (this is what makes update() / copy(**kwds) / using() "replace exactly the given keys":
they overlay the new items after the old ones), and unrelated slots do not interfere."""
import z3

from pyvc.contract import Bool, Const, Contract, Obj, Str, Union
from pyvc.values import SDict, SObj, SStr, SStub

C = "passlib/context.py"


def _setup(items):
    """items: list of ((cat, scheme, key), value-name)"""
    def setup(it, args):
        vals = {}
        src = {}
        for (cat, scheme, key), vname in items:
            vals[vname] = Bool().make(it, vname) if key == "truncate_error" else SStr(z3.String(vname), "str")
            src[(cat, scheme, key)] = vals[vname]
        self = args["self"]
        self.fields["_norm_context_option"] = SStub(lambda i, a, k: (a[1], a[2]), "_norm_context_option (identity here; under its own checks)")
        args["source"] = SDict(src)
        it.run.ghost["vals"] = vals
        return dict(vals)

    return setup


def _slot(it, env, scheme, cat, key):
    so = it.resolve(env.lookup("self")).fields["_scheme_options"]
    try:
        return it.resolve(it.resolve(so.items[scheme]).items[cat]).items[key]
    except KeyError:
        return None


def _eq(it, a, b):
    if a is None:
        return z3.BoolVal(False)
    return it.to_zbool(it.truth(it.cmp_vals("==", a, b)))


G = {"warn": SStub(lambda i, a, k: None, "warn")}
CASES = [
    ("global option given as all__truncate_error then as truncate_error (update overlay): the later one wins",
     [((None, "all", "truncate_error"), "old"), ((None, None, "truncate_error"), "new")],
     lambda it, env: _eq(it, _slot(it, env, "all", None, "truncate_error"), it.run.ghost["vals"]["new"])),
    ("global option given as truncate_error then as all__truncate_error: the later one wins",
     [((None, None, "truncate_error"), "old"), ((None, "all", "truncate_error"), "new")],
     lambda it, env: _eq(it, _slot(it, env, "all", None, "truncate_error"), it.run.ghost["vals"]["new"])),
    ("scheme option and global option live in different slots",
     [((None, "des_crypt", "truncate_error"), "a"), ((None, None, "truncate_error"), "b"), (("admin", "des_crypt", "truncate_error"), "c")],
     lambda it, env: z3.And(_eq(it, _slot(it, env, "des_crypt", None, "truncate_error"), it.run.ghost["vals"]["a"]), _eq(it, _slot(it, env, "all", None, "truncate_error"), it.run.ghost["vals"]["b"]),
                            _eq(it, _slot(it, env, "des_crypt", "admin", "truncate_error"), it.run.ghost["vals"]["c"]))),
    ("context options: one value per (key, category); categories are collected",
     [((None, None, "default"), "d0"), (("admin", None, "default"), "d1")],
     lambda it, env: z3.And(_eq(it, it.resolve(it.resolve(env.lookup("self")).fields["_context_options"].items["default"]).items[None], it.run.ghost["vals"]["d0"]),
                            _eq(it, it.resolve(it.resolve(env.lookup("self")).fields["_context_options"].items["default"]).items["admin"], it.run.ghost["vals"]["d1"]),
                            z3.BoolVal(it.resolve(env.lookup("self")).fields["categories"] == ("admin",)))),
]
CONTRACTS = []
for k, (title, items, post) in enumerate(CASES):
    CONTRACTS.append(Contract(
        f"_CryptConfig._init_options[{k}]", f"{C}::_CryptConfig._init_options",
        params={"self": Obj(cls=(C, "_CryptConfig")), "source": Const(None)},
        setup=_setup(items), globals=G,
        ensures=[(title, post)],
        descr="symbolic option values, the listed source items in this order",
    ))

MUTANTS = [
    ("_init_options: the first value seen for an option slot wins", C, "                    else:\n                        option_map[key] = value", "                    else:\n                        option_map.setdefault(key, value)", "refute", "_init_options"),
    ("_init_options: category options stored under the default category", C, "                        category_map[cat] = {key: value}", "                        category_map[None] = {key: value}", "refute", "_init_options"),
]


# ---- _CryptConfig.iter_config: the inverse direction -- every stored slot is exported exactly once, with its value -------------
def _ic_setup(it, args):
    from pyvc.values import SList
    v = {n: SStr(z3.String(n), "str") for n in ("d0", "d1", "so0", "so1", "so2")}
    empty = SList([])  # an explicitly configured EMPTY list (e.g. admin__context__deprecated = []) is a value like any other
    dep_all = SList([SStr(z3.String("dep0"), "str")])
    self = args["self"]
    self.fields.update({
        "_context_options": SDict({"default": SDict({None: v["d0"], "admin": v["d1"]}), "deprecated": SDict({None: dep_all, "admin": empty})}),
        "_scheme_options": SDict({"des_crypt": SDict({None: SDict({"min_rounds": v["so0"], "vary_rounds": v["so1"]}), "admin": SDict({"min_rounds": v["so2"]})})}),
        "schemes": ("des_crypt", "md5_crypt"), "handlers": ("<des_crypt>", "<md5_crypt>"), "categories": ("admin",),
    })
    it.run.ghost["v"] = v
    return None


def _ic_post(it, env):
    res = it.static_items_req(it.resolve(env.lookup("result")))
    got = {}
    for item in res:
        k, val = it.static_items_req(item) if not isinstance(item, tuple) else item
        if k in got:
            return False  # a slot exported twice
        got[k] = it.resolve(val)
    v = it.run.ghost["v"]
    want_keys = {(None, None, "schemes"), (None, None, "default"), (None, None, "deprecated"), ("admin", None, "default"), ("admin", None, "deprecated"),
                 (None, "des_crypt", "min_rounds"), (None, "des_crypt", "vary_rounds"), ("admin", "des_crypt", "min_rounds")}
    if set(got) != want_keys:
        return False
    from pyvc.values import SList
    ok_lists = isinstance(got[("admin", None, "deprecated")], SList) and len(got[("admin", None, "deprecated")].items) == 0 and isinstance(got[(None, None, "deprecated")], SList) and len(got[(None, None, "deprecated")].items) == 1
    same = [it.to_zbool(it.truth(it.cmp_vals("==", got[k], v[n]))) for k, n in (((None, None, "default"), "d0"), (("admin", None, "default"), "d1"), ((None, "des_crypt", "min_rounds"), "so0"),
                                                                                 ((None, "des_crypt", "vary_rounds"), "so1"), (("admin", "des_crypt", "min_rounds"), "so2"))]
    return z3.And(z3.BoolVal(ok_lists), *same)


for _resolve in (False, True):
    CONTRACTS.append(Contract(
        f"_CryptConfig.iter_config[resolve={_resolve}]", f"{C}::_CryptConfig.iter_config",
        params={"self": Obj(cls=(C, "_CryptConfig")), "resolve": Const(_resolve)},
        setup=_ic_setup,
        ensures=[("every stored (category, scheme, option) slot is exported exactly once with its value -- including an explicitly empty per-category list -- and nothing else",
                  _ic_post),
                 ("the schemes item carries hasher objects when resolve is set, names otherwise",
                  lambda it, env, _r=_resolve: z3.BoolVal([it.resolve(x) for x in it.static_items_req(it.resolve(dict((it.static_items_req(i) if not isinstance(i, tuple) else i) for i in it.static_items_req(it.resolve(env.lookup("result"))))[(None, None, "schemes")]))] == (["<des_crypt>", "<md5_crypt>"] if _r else ["des_crypt", "md5_crypt"])))],
        descr="a configuration with global and per-category context options (one of them an empty list) and per-scheme options; symbolic values",
    ))

MUTANTS += [
    ("iter_config: falsy option values are dropped from the export", C, "                try:\n                    value = context_options[key][cat]\n                except KeyError:  # noqa: PERF203\n                    pass\n                else:\n", "                value = context_options[key].get(cat)\n                if value:\n", "refute", "iter_config"),
    ("iter_config: category scheme options exported under the default category", C, "                        yield (cat, scheme, key), kwds[key]", "                        yield (None, scheme, key), kwds[key]", "refute", "iter_config"),
]


# ---- INI rendering of vary_rounds: a float stays a float (1.0 means 100 %, the integer 1 means +-1 round) -----------------------
def _ini_vary_roundtrip():
    from pyvc.concrete import load_function
    from pyvc.runner import Finite  # noqa: F401

    render, info_r = load_function(f"{C}::CryptContext._render_ini_value", {"numeric_types": (int, float)})
    coerce, info_c = load_function(f"{C}::_coerce_vary_rounds", {})
    fails, cases = [], 0
    values = [k / 100 for k in range(0, 101)] + list(range(0, 12)) + [100, 5000]
    for v in values:
        for key in ((None, "sha256_crypt", "vary_rounds"), ("admin", "all", "vary_rounds")):
            cases += 1
            txt = render(key, v)
            back = coerce(txt.replace("%%", "%"))
            same_kind = isinstance(back, float) == isinstance(v, float) or v == 0
            if not (same_kind and abs(back - v) < 1e-9) and len(fails) < 5:
                fails.append({"key": f"ini-vary-rounds:{v!r}", "what": f"vary_rounds {v!r} is written as {txt!r}, which loads as {back!r}", "witness": {"value": v, "text": txt, "loaded": repr(back)}})
    return {"cases": cases, "failures": fails, "samples": [{"value": 1.0, "text": render((None, "x", "vary_rounds"), 1.0)}],
            "functions": [dict(info_r.describe(), contract="finite:ini-vary-rounds"), dict(info_c.describe(), contract="finite:ini-vary-rounds")]}


from pyvc.runner import Finite as _Finite  # noqa: E402

FINITE = [_Finite("ini-vary-rounds-roundtrip", _ini_vary_roundtrip, "every two-decimal fraction 0.00..1.00 and small integers: _render_ini_value then _coerce_vary_rounds gives the same number of the same kind (float = fraction of the default, int = rounds)")]

MUTANTS += [("INI export writes vary_rounds = 1.0 as the integer 1", C, "                value = (f\"{value:.2f}\").rstrip(\"0\") if value else \"0\"", "                value = (f\"{value:.2f}\").rstrip(\"0\").rstrip(\".\") if value else \"0\"", "refute", "ini-vary")]
