"""Bounded stand-in for C20: the libpass hashers (libpass/hashers/*.py) and the classic passlib hashers
(passlib.hash.*) understand each other on the six shared formats; libpass identify / needs_update; the
libpass CryptContext.

Oracles: the property statement itself (cross verification in both directions), plus independent
implementations where one exists: crypt(3) via ``legacycrypt`` for sha-crypt, ``hashlib.pbkdf2_hmac`` +
base64 for pbkdf2, the ``bcrypt`` package (+ hmac/base64 for the bcrypt-sha256 pre-hash).  The format of a
hash string is classified by its published prefix, not by any library under test.
"""
import base64
import hashlib
import hmac
import itertools

from common import Group, main, outcome

H64 = "./0123456789ABCDEFGHIJKLMNOPQRSTUVWXYZabcdefghijklmnopqrstuvwxyz"
BCRYPT64 = "./ABCDEFGHIJKLMNOPQRSTUVWXYZabcdefghijklmnopqrstuvwxyz0123456789"
FORMATS = ("sha256-crypt", "sha512-crypt", "pbkdf2-sha256", "pbkdf2-sha512", "bcrypt", "bcrypt-sha256")


def bcrypt64(data):
    out, acc, bits = [], 0, 0
    for byte in data:
        acc = (acc << 8) | byte
        bits += 8
        while bits >= 6:
            bits -= 6
            out.append(BCRYPT64[(acc >> bits) & 63])
    if bits:
        out.append(BCRYPT64[(acc << (6 - bits)) & 63])
    return "".join(out)


def ab64(data):
    return base64.b64encode(data).decode().rstrip("=").replace("+", ".")


def format_of(hash_string):
    """format by published prefix (independent of both libraries)"""
    if hash_string.startswith("$5$"):
        return "sha256-crypt"
    if hash_string.startswith("$6$"):
        return "sha512-crypt"
    if hash_string.startswith("$pbkdf2-sha256$"):
        return "pbkdf2-sha256"
    if hash_string.startswith("$pbkdf2-sha512$"):
        return "pbkdf2-sha512"
    if hash_string.startswith("$bcrypt-sha256$"):
        return "bcrypt-sha256"
    if hash_string[:4] in ("$2a$", "$2b$", "$2y$"):
        return "bcrypt"
    return None


def raw(pw):
    return pw.encode("utf-8") if isinstance(pw, str) else pw


def other_password(pw):
    """a different password of the same length (first character replaced; "x" for the empty one)"""
    if len(pw) == 0:
        return "x" if isinstance(pw, str) else b"x"
    if isinstance(pw, str):
        return ("X" if pw[0] != "X" else "Y") + pw[1:]
    return (b"X" if pw[:1] != b"X" else b"Y") + pw[1:]


def passwords(fmt, tier):
    """(id, password); bcrypt: at most 72 bytes and no NUL (limits of the bcrypt library / of passlib's bcrypt)"""
    letters = "aZ3.kQ/9wPl0mX7e" * 16
    out = [
        ("empty", ""),
        ("a", "a"),
        ("ascii8", "password"),
        ("ascii8-bytes", b"password"),
        ("utf8", "pässwörd€\U0001d11e"),
        ("utf8-bytes", "pässwörd€".encode()),
        ("cjk", "密码"),
        ("nonutf8", b"pass\xe9\xffword"),
        ("ascii71", letters[:71]),
        ("ascii72", letters[:72]),
        ("utf8-72", "é" * 36),
        ("nonutf8-72", b"\xff\xfe" * 36),
    ]
    if fmt != "bcrypt":
        out += [
            ("ascii73", letters[:73]),
            ("ascii95", letters[:95]),
            ("ascii96", letters[:96]),  # libpass sha-crypt switches its digest-P strategy at 96 bytes
            ("ascii97", letters[:97]),
            ("utf8-96", "é" * 48),
            ("ascii200", letters[:200]),
            ("nonutf8-200", b"\xe9" * 200),
        ]
    if tier != "quick":
        out += [("space", "correct horse battery staple"), ("dollar", "pa$$w0rd$"), ("ascii33", letters[:33]), ("ascii64", letters[:64]), ("ascii65-bytes", letters[:65].encode())]
    return out


def build(tier, rng):
    from passlib import hash as PH

    quick = tier == "quick"
    skipped = []
    host = {}
    groups = []

    from libpass.context import CryptContext
    from libpass.hashers.pbkdf2 import PBKDF2SHA256Handler, PBKDF2SHA512Handler
    from libpass.hashers.sha_crypt import SHA256Hasher, SHA512Hasher

    try:
        import bcrypt as bcrypt_pkg
        from libpass.hashers.bcrypt import BcryptHasher, BcryptSHA256Hasher

        have_bcrypt = outcome(PH.bcrypt.get_backend)[0] == "ok"
        if not have_bcrypt:
            skipped.append("bcrypt, bcrypt-sha256: passlib.hash.bcrypt has no backend on this host")
    except Exception as err:  # noqa: BLE001
        bcrypt_pkg = None
        have_bcrypt = False
        skipped.append(f"bcrypt, bcrypt-sha256: the bcrypt package (required by libpass.hashers.bcrypt) is not importable: {type(err).__name__}")
    host["bcrypt_package"] = getattr(bcrypt_pkg, "__version__", None)
    host["passlib_bcrypt_backend"] = outcome(PH.bcrypt.get_backend)[1] if have_bcrypt else None

    try:
        import legacycrypt

        def os_crypt(pw, setting):
            try:
                r = legacycrypt.crypt(pw, setting)
            except Exception:  # noqa: BLE001
                return None
            return r if r and r[0] not in "*:!" else None

        crypt_ok = {
            "sha256-crypt": os_crypt("Hello world!", "$5$saltstring") == "$5$saltstring$5B8vYYiY.CVt1RlTTf8KbXBH3hsxY/GNooZaBBGWEc5",
            "sha512-crypt": os_crypt("Hello world!", "$6$saltstring") == "$6$saltstring$svn8UoSVapNtMuq1ukKS4tPQd8iKwSMHWjl/O817G3uBnIFNjnQJuesI68u4OTLiBFdcbYEdFCoEOfaS35inz1",
        }
    except Exception:  # noqa: BLE001
        os_crypt = None
        crypt_ok = {}
    host["crypt"] = crypt_ok
    if not all(crypt_ok.get(f) for f in ("sha256-crypt", "sha512-crypt")):
        skipped.append("crypt(3) oracle for sha-crypt not available: only cross verification")

    def h64(n):
        return "".join(rng.choice(H64) for _ in range(n))

    def rbytes(n):
        return bytes(rng.getrandbits(8) for _ in range(n))

    # ---- per format: how to build both hashers for a cost, the salts and the costs --------------------
    def lib_for(fmt, cost):
        if fmt == "sha256-crypt":
            return SHA256Hasher(rounds=cost)
        if fmt == "sha512-crypt":
            return SHA512Hasher(rounds=cost)
        if fmt == "pbkdf2-sha256":
            return PBKDF2SHA256Handler(rounds=cost)
        if fmt == "pbkdf2-sha512":
            return PBKDF2SHA512Handler(rounds=cost)
        if fmt == "bcrypt":
            rounds, prefix = cost
            return BcryptHasher(rounds=rounds, prefix=prefix)
        rounds, _ = cost
        return BcryptSHA256Hasher(rounds=rounds)

    def lib_other_cost(fmt, cost):
        if fmt in ("bcrypt", "bcrypt-sha256"):
            return lib_for(fmt, (cost[0] + 1, cost[1]))
        return lib_for(fmt, cost + 1)

    passlib_of = {
        "sha256-crypt": PH.sha256_crypt,
        "sha512-crypt": PH.sha512_crypt,
        "pbkdf2-sha256": PH.pbkdf2_sha256,
        "pbkdf2-sha512": PH.pbkdf2_sha512,
        "bcrypt": PH.bcrypt,
        "bcrypt-sha256": PH.bcrypt_sha256,
    }

    def lib_hash(fmt, hasher, pw, salt, cost):
        """libpass hash with a caller-chosen salt (salt=None: generated)"""
        if salt is None:
            return hasher.hash(pw)
        if fmt in ("bcrypt", "bcrypt-sha256"):
            rounds, prefix = cost
            return hasher.hash(pw, salt=f"${prefix}${rounds:02d}${salt}".encode())
        return hasher.hash(pw, salt=salt)

    def passlib_hash(fmt, pw, salt, cost):
        ph = passlib_of[fmt]
        if fmt in ("bcrypt", "bcrypt-sha256"):
            rounds, prefix = cost
            kw = {"rounds": rounds, "ident": prefix}
        else:
            kw = {"rounds": cost}
        if salt is not None:
            kw["salt"] = salt.decode("ascii") if fmt.startswith("sha") and isinstance(salt, bytes) else salt
        return ph.using(**kw).hash(pw)

    def salts_for(fmt):
        if fmt.startswith("sha"):
            fixed = ["a", "saltstring", h64(16), h64(16).encode()]
            extra = [h64(n) for n in ((2, 8, 15) if quick else (2, 3, 5, 8, 11, 15, 16))]
            return fixed + extra
        if fmt.startswith("pbkdf2"):
            fixed = [b"s", b"\xff\xfe\xfb", rbytes(16), b"salt with $ and spaces"]
            extra = [rbytes(n) for n in ((2, 17, 32) if quick else (2, 3, 4, 15, 17, 32, 33, 64))]
            return fixed + extra
        n = 3 if quick else 8
        return ["5BJqKfqMQvV7nS.yUguNcu"] + [bcrypt64(rbytes(16)) for _ in range(n)]

    def costs_for(fmt):
        if fmt.startswith("sha"):
            # 5000: passlib renders the implicit form "$5$salt$checksum"; 1000+42k+r: block/pair/odd tail; 1008 / 1009: no tail / a single odd round without a pair
            return [1000, 5000, 1043, 1008, 1009] if quick else [1000, 1001, 1008, 1009, 1010, 1041, 1042, 1043, 1051, 1085, 1999, 2000, 5000, 5041]
        if fmt.startswith("pbkdf2"):
            return [1, 2, 29] if quick else [1, 2, 3, 10, 29, 1000]
        if fmt == "bcrypt":
            return [(4, "2b"), (4, "2a"), (5, "2b")]
        return [(4, "2b"), (5, "2b")]

    def oracle(fmt, pw, hashed):
        """independent verdict on a hash string: True / False / None (no opinion)"""
        try:
            if fmt.startswith("sha"):
                if os_crypt is None or not crypt_ok.get(fmt):
                    return None
                text = pw if isinstance(pw, str) else pw.decode("utf-8")
                if "\x00" in text:
                    return None
                r = os_crypt(text, hashed)
                return None if r is None else r.rsplit("$", 1)[-1] == hashed.rsplit("$", 1)[-1]
            if fmt.startswith("pbkdf2"):
                _, name, rounds, salt, chk = hashed.split("$")
                salt_raw = base64.b64decode(salt.replace(".", "+") + "=" * (-len(salt) % 4))
                dk = hashlib.pbkdf2_hmac(name.split("-")[1], raw(pw), salt_raw, int(rounds))
                return ab64(dk) == chk
            if bcrypt_pkg is None:
                return None
            if fmt == "bcrypt":
                return bcrypt_pkg.hashpw(raw(pw), hashed[:29].encode()) == hashed.encode()
            _, _, params, salt, chk = hashed.split("$")
            p = dict(x.split("=") for x in params.split(","))
            pre = base64.b64encode(hmac.new(salt.encode(), raw(pw), hashlib.sha256).digest())
            full = bcrypt_pkg.hashpw(pre, f"${p['t']}${int(p['r']):02d}${salt}".encode()).decode()
            return full[-31:] == chk
        except UnicodeDecodeError:
            return None
        except Exception:  # noqa: BLE001
            return None

    formats = [f for f in FORMATS if have_bcrypt or not f.startswith("bcrypt")]
    contract_of = {
        "sha256-crypt": "libpass.hashers.sha_crypt.SHA256Hasher",
        "sha512-crypt": "libpass.hashers.sha_crypt.SHA512Hasher",
        "pbkdf2-sha256": "libpass.hashers.pbkdf2.PBKDF2SHA256Handler",
        "pbkdf2-sha512": "libpass.hashers.pbkdf2.PBKDF2SHA512Handler",
        "bcrypt": "libpass.hashers.bcrypt.BcryptHasher",
        "bcrypt-sha256": "libpass.hashers.bcrypt.BcryptSHA256Hasher",
    }

    # corpus for the identify / needs_update / context groups: fmt -> list of (origin, password, hash, cost)
    corpus = {f: [] for f in formats}

    # =================================================================================================
    # 1. interop, one group per format
    # =================================================================================================
    for fmt in formats:
        g = Group(
            f"interop-{fmt}",
            contract_of[fmt] + ".hash/verify",
            f"{fmt}: passwords (str/bytes, ASCII, multi-byte, non-UTF-8 bytes, lengths 0..{72 if fmt == 'bcrypt' else 200}) x non-empty salts "
            "(fixed + seeded random, several sizes, str and bytes where accepted; plus library-generated) x cheap costs"
            + (" incl. 5000 (implicit-rounds passlib strings) and 1000+42k+r" if fmt.startswith("sha") else "")
            + ": libpass hash verifies under libpass and passlib, passlib hash verifies under libpass, a different password is rejected "
            "by both on both; independent oracle (crypt(3) / hashlib.pbkdf2_hmac / bcrypt package) accepts both hashes",
        )
        ph = passlib_of[fmt]
        pws = passwords(fmt, tier)
        salts = salts_for(fmt)
        costs = costs_for(fmt)
        for cost in costs:
            lib = outcome(lib_for, fmt, cost)
            if lib[0] != "ok":
                g.fail(f"ctor:{fmt}", "libpass hasher refuses a valid cost", {"format": fmt, "cost": cost, "outcome": repr(lib)})
                continue
            lib = lib[1]
            # every salt with a few passwords, every password with a few salts (full product in thorough)
            combos = []
            for si, salt in enumerate([None] + salts):
                for pi, (pid, pw) in enumerate(pws):
                    if quick and not (si < 3 or pi < 3 or (si + pi) % 5 == 0):
                        continue
                    combos.append((salt, pid, pw))
            for salt, pid, pw in combos:
                sid = "generated" if salt is None else (salt.hex() if isinstance(salt, bytes) else salt)
                ident = (fmt, repr(cost), sid, pid)
                g.case(ident)
                wit = {"format": fmt, "cost": cost, "salt": salt, "password": pw}
                lo = outcome(lib_hash, fmt, lib, pw, salt, cost)
                if not g.check(lo[0] == "ok" and isinstance(lo[1], str), f"lib-hash:{fmt}", "libpass hash() fails on a password/salt/cost of the domain", {**wit, "outcome": repr(lo)}):
                    continue
                lh = lo[1]
                wit["libpass_hash"] = lh
                other = other_password(pw)
                g.check(format_of(lh) == fmt, f"lib-format:{fmt}", "libpass hash does not carry its format's prefix", wit)
                # libpass on its own hash
                v = outcome(lib.verify, lh, pw)
                g.check(v == ("ok", True), f"lib-verifies-own:{fmt}", "libpass hasher does not verify its own hash", {**wit, "outcome": repr(v), "call": "hasher.verify(hash, secret)"})
                v = outcome(lib.verify, lh, other)
                g.check(v == ("ok", False), f"lib-rejects-own:{fmt}", "libpass hasher accepts a different password for its own hash", {**wit, "other": other, "outcome": repr(v)})
                # passlib on the libpass hash
                v = outcome(ph.verify, pw, lh)
                g.check(v == ("ok", True), f"passlib-verifies-lib:{fmt}", "passlib hasher does not verify the libpass hash", {**wit, "outcome": repr(v), "call": f"passlib.hash.{ph.name}.verify(secret, hash)"})
                v = outcome(ph.verify, other, lh)
                g.check(v == ("ok", False), f"passlib-rejects-lib:{fmt}", "passlib hasher accepts a different password for the libpass hash", {**wit, "other": other, "outcome": repr(v)})
                op = oracle(fmt, pw, lh)
                if op is not None:
                    g.check(op, f"oracle-lib:{fmt}", "libpass hash differs from the independent implementation", wit)
                # passlib-made hash under libpass
                po = outcome(passlib_hash, fmt, pw, salt, cost)
                if po[0] != "ok":
                    # passlib refusing an input of the domain is not this property's subject; list it
                    note = f"passlib {fmt} refused salt={sid!r} cost={cost!r}: {po[1]}"
                    if note not in skipped and len(skipped) < 40:
                        skipped.append(note)
                    continue
                pwh = po[1]
                wit2 = {**wit, "passlib_hash": pwh}
                g.check(format_of(pwh) == fmt, f"passlib-format:{fmt}", "passlib hash does not carry the format's prefix", wit2)
                v = outcome(lib.verify, pwh, pw)
                g.check(v == ("ok", True), f"lib-verifies-passlib:{fmt}" + (":implicit-rounds" if fmt.startswith("sha") and "rounds=" not in pwh else ""), "libpass hasher does not verify the passlib-made hash", {**wit2, "outcome": repr(v)})
                v = outcome(lib.verify, pwh, other)
                g.check(v == ("ok", False), f"lib-rejects-passlib:{fmt}", "libpass hasher accepts a different password for the passlib-made hash", {**wit2, "other": other, "outcome": repr(v)})
                op = oracle(fmt, pw, pwh)
                if op is not None:
                    g.check(op, f"oracle-passlib:{fmt}", "passlib hash differs from the independent implementation", wit2)
                if salt is not None:
                    # same password, salt and cost: the checksum fields must be the same
                    g.check(lh.rsplit("$", 1)[-1] == pwh.rsplit("$", 1)[-1], f"same-digest:{fmt}", "libpass and passlib compute different checksums for the same password, salt and cost", wit2)
                if len(corpus[fmt]) < (24 if quick else 80) or salt is None:
                    corpus[fmt].append(("libpass", pw, lh, cost))
                    corpus[fmt].append(("passlib", pw, pwh, cost))
        # bytes hash strings are accepted as well (StrOrBytes)
        if corpus[fmt]:
            _, pw, hs, cost = corpus[fmt][0]
            lib = lib_for(fmt, cost)
            v = outcome(lib.verify, hs.encode(), pw)
            g.case((fmt, "bytes-hash"))
            g.check(v == ("ok", True), f"lib-verifies-bytes-hash:{fmt}", "libpass hasher does not verify a hash passed as bytes", {"format": fmt, "hash": hs, "password": pw, "outcome": repr(v)})
        groups.append(g)

    # extra passlib-made variants the libpass hashers must understand
    extra = {f: [] for f in formats}
    if have_bcrypt:
        s = "5BJqKfqMQvV7nS.yUguNcu"
        extra["bcrypt"].append(("passlib-2y", "pw-2y", PH.bcrypt.using(rounds=4, ident="2y", salt=s).hash("pw-2y"), (4, "2y")))
        extra["bcrypt"].append(("passlib-r10", "pw", PH.bcrypt.using(rounds=6, ident="2b").hash("pw"), (6, "2b")))
    for fmt, name in (("sha256-crypt", "sha256_crypt"), ("sha512-crypt", "sha512_crypt")):
        hh = getattr(PH, name)
        extra[fmt].append(("passlib-implicit", "pw", hh.using(rounds=5000, salt="x").hash("pw"), 5000))
        extra[fmt].append(("passlib-implicit16", "pw", hh.using(rounds=5000).hash("pw"), 5000))
        extra[fmt].append(("passlib-generated", "pw", hh.using(rounds=1500).hash("pw"), 1500))
    for fmt, name in (("pbkdf2-sha256", "pbkdf2_sha256"), ("pbkdf2-sha512", "pbkdf2_sha512")):
        hh = getattr(PH, name)
        extra[fmt].append(("passlib-generated", "pw", hh.using(rounds=12).hash("pw"), 12))
        extra[fmt].append(("passlib-salt64", "pw", hh.using(rounds=3, salt_size=64).hash("pw"), 3))

    # =================================================================================================
    # 2. identify: exactly the own format
    # =================================================================================================
    g = Group(
        "identify-own-format",
        "libpass PasswordHasher.identify",
        "each of the six libpass hashers x hashes of all six formats (libpass-made and passlib-made, incl. implicit-rounds sha-crypt, "
        "$2a$/$2b$/$2y$ bcrypt, generated salts; str and bytes) + 8 neighbouring passlib formats (pbkdf2_sha1, ldap_/django_ pbkdf2, md5/sha1-crypt, ...): identify() is True exactly for the hasher's own format",
    )
    neighbours = []
    for nname, mk in (("pbkdf2_sha1", lambda: PH.pbkdf2_sha1.using(rounds=2).hash("pw")), ("ldap_pbkdf2_sha256", lambda: PH.ldap_pbkdf2_sha256.using(rounds=2).hash("pw")),
                      ("django_pbkdf2_sha256", lambda: PH.django_pbkdf2_sha256.using(rounds=2).hash("pw")), ("md5_crypt", lambda: PH.md5_crypt.hash("pw")),
                      ("sha1_crypt", lambda: PH.sha1_crypt.using(rounds=2).hash("pw")), ("cta_pbkdf2_sha1", lambda: PH.cta_pbkdf2_sha1.using(rounds=2).hash("pw")),
                      ("django_bcrypt_sha256", lambda: PH.django_bcrypt_sha256.using(rounds=4).hash("pw")), ("grub_pbkdf2_sha512", lambda: PH.grub_pbkdf2_sha512.using(rounds=2).hash("pw"))):
        try:
            neighbours.append((nname, mk()))
        except Exception as err:  # noqa: BLE001
            skipped.append(f"neighbour format {nname}: {type(err).__name__}")
    default_cost = {"sha256-crypt": 1000, "sha512-crypt": 1000, "pbkdf2-sha256": 2, "pbkdf2-sha512": 2, "bcrypt": (4, "2b"), "bcrypt-sha256": (4, "2b")}
    for fmt in formats:
        hasher = lib_for(fmt, default_cost[fmt])
        for hfmt in formats:
            for origin, pw, hs, cost in corpus[hfmt] + extra[hfmt]:
                for form in (hs, hs.encode()):
                    o = outcome(hasher.identify, form)
                    g.case((fmt, hs, isinstance(form, bytes)))
                    want = fmt == hfmt
                    key = f"identify-own:{fmt}" if want else f"identify-foreign:{fmt}:{hfmt}"
                    g.check(o == ("ok", want), key, "identify() is not True exactly for the own format", {"hasher": fmt, "hash": hs, "hash_format": hfmt, "made_by": origin, "as_bytes": isinstance(form, bytes), "outcome": repr(o)})
        # neighbouring passlib formats that are NOT among the six (their names are prefixes / relatives of the shared ones)
        for nname, nh in neighbours:
            for form in (nh, nh.encode()):
                o = outcome(hasher.identify, form)
                g.case((fmt, "neighbour", nname, isinstance(form, bytes)))
                g.check(o == ("ok", False), f"identify-foreign:{fmt}:{nname}", "identify() claims a hash of a neighbouring format", {"hasher": fmt, "hash": nh, "hash_format": nname, "outcome": repr(o)})
                o = outcome(hasher.needs_update, form)
                g.check(o == ("ok", True), f"needs-update-foreign:{fmt}:{nname}", "needs_update() is not True for a hash of a neighbouring format", {"hasher": fmt, "hash": nh, "hash_format": nname, "outcome": repr(o)})
        # the extra passlib variants verify as well
        for origin, pw, hs, cost in extra[fmt]:
            v = outcome(hasher.verify, hs, pw)
            g.case((fmt, "extra-verify", hs))
            g.check(v == ("ok", True), f"lib-verifies-passlib:{fmt}:{origin}", "libpass hasher does not verify a passlib-made hash of its format", {"format": fmt, "hash": hs, "password": pw, "outcome": repr(v)})
            v = outcome(hasher.verify, hs, other_password(pw))
            g.check(v == ("ok", False), f"lib-rejects-passlib:{fmt}:{origin}", "libpass hasher accepts a different password", {"format": fmt, "hash": hs, "outcome": repr(v)})
    groups.append(g)

    # =================================================================================================
    # 3. needs_update
    # =================================================================================================
    g = Group(
        "needs-update",
        "libpass PasswordHasher.needs_update",
        "six libpass hashers x costs: False for the hasher's own fresh hashes (generated and supplied salts) and for passlib-made hashes of the "
        "same format and cost (incl. implicit 5000); True for the same format at cost+1 / any other corpus cost, and for all five other formats",
    )
    for fmt in formats:
        for cost in costs_for(fmt):
            hasher = lib_for(fmt, cost)
            other_hasher = lib_other_cost(fmt, cost)
            for _ in range(2 if quick else 6):
                pw = rng.choice(passwords(fmt, tier))[1]
                fresh = outcome(hasher.hash, pw)
                g.case((fmt, repr(cost), "fresh", fresh[1] if fresh[0] == "ok" else repr(fresh)))
                if fresh[0] != "ok":
                    g.fail(f"lib-hash:{fmt}", "libpass hash() with a generated salt fails", {"format": fmt, "cost": cost, "password": pw, "outcome": repr(fresh)})
                    continue
                o = outcome(hasher.needs_update, fresh[1])
                g.check(o == ("ok", False), f"needs-update-fresh:{fmt}", "needs_update() is not False for the hasher's own fresh hash", {"format": fmt, "cost": cost, "hash": fresh[1], "outcome": repr(o)})
                o = outcome(hasher.needs_update, fresh[1].encode())
                g.check(o == ("ok", False), f"needs-update-fresh-bytes:{fmt}", "needs_update() is not False for the own fresh hash passed as bytes", {"format": fmt, "cost": cost, "hash": fresh[1], "outcome": repr(o)})
                o = outcome(other_hasher.needs_update, fresh[1])
                g.check(o == ("ok", True), f"needs-update-other-cost:{fmt}", "needs_update() is not True for a hash of another cost", {"format": fmt, "hash_cost": cost, "hasher_cost": "+1", "hash": fresh[1], "outcome": repr(o)})
            for hfmt in formats:
                for origin, pw, hs, hcost in corpus[hfmt] + extra[hfmt]:
                    o = outcome(hasher.needs_update, hs)
                    g.case((fmt, repr(cost), hs))
                    wit = {"hasher": fmt, "hasher_cost": cost, "hash": hs, "hash_format": hfmt, "hash_cost": hcost, "made_by": origin, "outcome": repr(o)}
                    if hfmt != fmt:
                        g.check(o == ("ok", True), f"needs-update-other-format:{fmt}:{hfmt}", "needs_update() is not True for a hash of another format", wit)
                        continue
                    same = (hcost[0] == cost[0]) if isinstance(cost, tuple) else (hcost == cost)
                    if not same:
                        g.check(o == ("ok", True), f"needs-update-other-cost:{fmt}", "needs_update() is not True for a hash of another cost", wit)
                    elif origin == "libpass":
                        g.check(o == ("ok", False), f"needs-update-own:{fmt}", "needs_update() is not False for the hasher's own hash at its own cost", wit)
                    else:
                        implicit = fmt.startswith("sha") and "rounds=" not in hs
                        g.check(o == ("ok", False), f"needs-update-same-cost-passlib:{fmt}" + (":implicit-rounds" if implicit else ""), "needs_update() is not False for a passlib-made hash of the same format and cost", wit)
    groups.append(g)

    # =================================================================================================
    # 4. libpass CryptContext
    # =================================================================================================
    g = Group(
        "libpass-context",
        "libpass.context.CryptContext",
        "scheme lists = every ordered selection of 1..3 of the six libpass hashers (distinct objects; thorough: + lists with two distinct objects of "
        "one class at different costs) x passwords: hash() is in the first scheme's format and verifies under it; verify() accepts hashes of every "
        "listed scheme (libpass- and passlib-made) and rejects a different password and formats of no listed scheme; needs_update() is True "
        "exactly for hashes whose format is not the first scheme's; empty list refused. Known defect isolated: same object twice",
    )
    samples = {}
    for fmt in formats:
        picked = []
        for want_origin in ("libpass", "passlib"):
            for origin, pw, hs, cost in corpus[fmt] + extra[fmt]:
                if origin.startswith(want_origin):
                    picked.append((origin, pw, hs))
                    if len([p for p in picked if p[0].startswith(want_origin)]) >= (2 if quick else 4):
                        break
        samples[fmt] = picked
    ctx_pws = ["pässwörd€", b"bytes-pw", ""] if quick else ["pässwörd€", b"bytes-pw", "", "a" * 72, b"\xff\xfe"]
    scheme_lists = []
    for n in (1, 2, 3):
        for combo in itertools.permutations(formats, n):
            scheme_lists.append([(f, default_cost[f]) for f in combo])
    if not quick:
        for f in formats:
            c = default_cost[f]
            c2 = (c[0] + 1, c[1]) if isinstance(c, tuple) else c + 1
            scheme_lists.append([(f, c), (f, c2)])
            scheme_lists.append([(f, c2), (formats[0], default_cost[formats[0]]), (f, c)])
    for spec in scheme_lists:
        schemes = [lib_for(f, c) for f, c in spec]  # distinct objects
        names = [f for f, _ in spec]
        co = outcome(CryptContext, schemes)
        if co[0] != "ok":
            g.fail("context-ctor", "CryptContext refuses a non-empty scheme list", {"schemes": names, "outcome": repr(co)})
            continue
        ctx = co[1]
        first = names[0]
        for pw in ctx_pws[: (2 if quick and len(spec) == 3 else len(ctx_pws))]:
            if first == "bcrypt" and len(raw(pw)) > 72:
                continue
            ho = outcome(ctx.hash, pw)
            g.case((tuple(names), repr(pw)))
            wit = {"schemes": names, "password": pw, "outcome": repr(ho)[:200]}
            if not g.check(ho[0] == "ok" and isinstance(ho[1], str), "context-hash", "CryptContext.hash() fails", wit):
                continue
            hs = ho[1]
            g.check(format_of(hs) == first and schemes[0].identify(hs), f"context-hash-first-scheme:{first}", "CryptContext.hash() does not use its first scheme", {**wit, "hash": hs})
            v = outcome(schemes[0].verify, hs, pw)
            g.check(v == ("ok", True), f"context-hash-verifies:{first}", "hash made by the context does not verify under its first scheme", {**wit, "hash": hs, "outcome": repr(v)})
            v = outcome(ctx.verify, pw, hs)
            g.check(v == ("ok", True), "context-verify-own", "context does not verify its own hash", {**wit, "hash": hs, "outcome": repr(v), "call": "ctx.verify(secret, hash)"})
            u = outcome(ctx.needs_update, hs)
            g.check(u == ("ok", False), "context-needs-update-fresh", "context asks for an update of its own fresh hash (distinct scheme objects)", {**wit, "hash": hs, "outcome": repr(u)})
        for hfmt in formats:
            for origin, pw, hs in samples[hfmt]:
                g.case((tuple(names), hs))
                wit = {"schemes": names, "hash": hs, "hash_format": hfmt, "made_by": origin, "password": pw}
                v = outcome(ctx.verify, pw, hs)
                if hfmt in names:
                    pos = f"scheme{names.index(hfmt) + 1}of{len(names)}"
                    g.check(v == ("ok", True), f"context-verify-any:{pos}", "context does not verify a hash of one of its schemes", {**wit, "outcome": repr(v)})
                    w = outcome(ctx.verify, other_password(pw), hs)
                    g.check(w == ("ok", False), "context-verify-rejects", "context accepts a different password", {**wit, "outcome": repr(w)})
                else:
                    g.check(v == ("ok", False), "context-verify-unlisted", "context verifies a hash of a format that none of its schemes has", {**wit, "outcome": repr(v)})
                u = outcome(ctx.needs_update, hs)
                want = hfmt != first
                g.check(u == ("ok", want), f"context-needs-update:{'other-format' if want else 'first-format'}", "needs_update() is not (format of the hash != format of the first scheme)", {**wit, "want": want, "outcome": repr(u)})
    eo = outcome(CryptContext, [])
    g.case("empty")
    g.check(eo[0] == "exc" and eo[1] == "ValueError", "context-empty", "empty scheme list not refused with ValueError", {"outcome": repr(eo)})
    # ---- known finding, isolated: the SAME hasher object listed twice ------------------------------
    for fmt in formats:
        hasher = lib_for(fmt, default_cost[fmt])
        ctx = CryptContext([hasher, hasher])
        ho = outcome(ctx.hash, "pw")
        g.case(("duplicate-object", fmt))
        if ho[0] != "ok":
            g.fail("context-hash", "CryptContext.hash() fails", {"schemes": [fmt, fmt], "outcome": repr(ho)})
            continue
        u = outcome(ctx.needs_update, ho[1])
        g.check(
            u == ("ok", False),
            "libpass-context:duplicate-scheme",
            "CryptContext given the same hasher object twice flags its own fresh hash as needing an update",
            {"schemes": [fmt, fmt], "same_object": True, "hash": ho[1], "outcome": repr(u), "repro": "h=SHA256Hasher(rounds=1000); c=CryptContext([h, h]); c.needs_update(c.hash('pw'))  # True"},
        )
        v = outcome(ctx.verify, "pw", ho[1])
        g.check(v == ("ok", True), "context-verify-own", "context does not verify its own hash", {"schemes": [fmt, fmt], "hash": ho[1], "outcome": repr(v)})
    groups.append(g)

    # =================================================================================================
    # 5. "every cost": both ends of each format's documented cost range (no hashing at the top cost: the hasher must be
    #    constructible, identify / verify low-cost hashes of its format, and flag a record that carries another cost)
    # =================================================================================================
    g = Group("cost-range-ends", "libpass hashers: constructor / validate_rounds", "sha256-crypt, sha512-crypt (1000 .. 999999999) and bcrypt, bcrypt-sha256 (4 .. 31): a hasher configured with the lowest and the highest documented cost is constructible (passlib accepts the same ends), verifies a low-cost passlib hash of its format, flags it for update (costs outside the range are not the property's business: libpass' bcrypt hashers only fail when hashing)")
    ends = {"sha256-crypt": (1000, 999999999, passlib_of["sha256-crypt"] if isinstance(passlib_of.get("sha256-crypt"), type) else None), "sha512-crypt": (1000, 999999999, None), "bcrypt": (4, 31, None), "bcrypt-sha256": (4, 31, None)}
    import passlib.hash as _PH
    pl = {"sha256-crypt": _PH.sha256_crypt, "sha512-crypt": _PH.sha512_crypt, "bcrypt": _PH.bcrypt, "bcrypt-sha256": _PH.bcrypt_sha256}
    for fmt, (lo, hi, _) in ends.items():
        if fmt not in formats:
            continue
        cheap = pl[fmt].using(rounds=lo).hash("pw")
        for label, cost, want_ok in (("lowest", lo, True), ("highest", hi, True)):
            g.case((fmt, label))
            c = (cost, "2b") if fmt in ("bcrypt", "bcrypt-sha256") else cost
            o = outcome(lib_for, fmt, c)
            po = outcome(lambda: pl[fmt].using(rounds=cost))
            wit = {"format": fmt, "cost": cost, "libpass": repr(o)[:160], "passlib": repr(po)[:160]}
            if want_ok:
                if not g.check(o[0] == "ok", f"cost-end:{fmt}:{label}", "libpass hasher cannot be configured with a documented end of the cost range", wit):
                    continue
                h = o[1]
                v = outcome(h.verify, cheap, "pw") if fmt not in ("bcrypt", "bcrypt-sha256") else outcome(h.verify, hash=cheap, secret="pw")
                g.check(v == ("ok", True), f"cost-end-verify:{fmt}:{label}", "hasher at the end of the cost range does not verify a low-cost hash of its format", {**wit, "outcome": repr(v)})
                u = outcome(h.needs_update, cheap)
                g.check(u == ("ok", cost != lo), f"cost-end-update:{fmt}:{label}", "update check of a hasher at the end of the cost range is wrong for a lowest-cost hash", {**wit, "outcome": repr(u)})
    groups.append(g)
    return groups, skipped, host


if __name__ == "__main__":
    main(build)
